// Package simatomic replaces sync/atomic: same API, a scheduling point before every operation.
package simatomic

import "verifsim/simrt"

type Bool struct{ v bool }

func (x *Bool) Load() bool             { simrt.Point(); return x.v }
func (x *Bool) Store(v bool)           { simrt.Point(); x.v = v }
func (x *Bool) Swap(v bool) (old bool) { simrt.Point(); old = x.v; x.v = v; return }
func (x *Bool) CompareAndSwap(old, new bool) bool {
	simrt.Point()
	if x.v == old {
		x.v = new
		return true
	}
	return false
}

type integer interface {
	~int32 | ~int64 | ~uint32 | ~uint64 | ~uintptr
}

type num[T integer] struct{ v T }

func (x *num[T]) Load() T          { simrt.Point(); return x.v }
func (x *num[T]) Store(v T)        { simrt.Point(); x.v = v }
func (x *num[T]) Swap(v T) (old T) { simrt.Point(); old = x.v; x.v = v; return }
func (x *num[T]) Add(d T) T        { simrt.Point(); x.v += d; return x.v }
func (x *num[T]) And(m T) (old T)  { simrt.Point(); old = x.v; x.v &= m; return }
func (x *num[T]) Or(m T) (old T)   { simrt.Point(); old = x.v; x.v |= m; return }
func (x *num[T]) CompareAndSwap(old, new T) bool {
	simrt.Point()
	if x.v == old {
		x.v = new
		return true
	}
	return false
}

type Int32 struct{ num[int32] }
type Int64 struct{ num[int64] }
type Uint32 struct{ num[uint32] }
type Uint64 struct{ num[uint64] }
type Uintptr struct{ num[uintptr] }

type Pointer[T any] struct{ p *T }

func (x *Pointer[T]) Load() *T           { simrt.Point(); return x.p }
func (x *Pointer[T]) Store(v *T)         { simrt.Point(); x.p = v }
func (x *Pointer[T]) Swap(v *T) (old *T) { simrt.Point(); old = x.p; x.p = v; return }
func (x *Pointer[T]) CompareAndSwap(old, new *T) bool {
	simrt.Point()
	if x.p == old {
		x.p = new
		return true
	}
	return false
}

type Value struct{ v any }

func (x *Value) Load() any            { simrt.Point(); return x.v }
func (x *Value) Store(v any)          { simrt.Point(); x.v = v }
func (x *Value) Swap(v any) (old any) { simrt.Point(); old = x.v; x.v = v; return }
func (x *Value) CompareAndSwap(old, new any) bool {
	simrt.Point()
	if x.v == old {
		x.v = new
		return true
	}
	return false
}

func AddInt32(p *int32, d int32) int32            { simrt.Point(); *p += d; return *p }
func AddInt64(p *int64, d int64) int64            { simrt.Point(); *p += d; return *p }
func AddUint32(p *uint32, d uint32) uint32        { simrt.Point(); *p += d; return *p }
func AddUint64(p *uint64, d uint64) uint64        { simrt.Point(); *p += d; return *p }
func LoadInt32(p *int32) int32                    { simrt.Point(); return *p }
func LoadInt64(p *int64) int64                    { simrt.Point(); return *p }
func LoadUint32(p *uint32) uint32                 { simrt.Point(); return *p }
func LoadUint64(p *uint64) uint64                 { simrt.Point(); return *p }
func StoreInt32(p *int32, v int32)                { simrt.Point(); *p = v }
func StoreInt64(p *int64, v int64)                { simrt.Point(); *p = v }
func StoreUint32(p *uint32, v uint32)             { simrt.Point(); *p = v }
func StoreUint64(p *uint64, v uint64)             { simrt.Point(); *p = v }
func SwapInt32(p *int32, v int32) (old int32)     { simrt.Point(); old = *p; *p = v; return }
func SwapInt64(p *int64, v int64) (old int64)     { simrt.Point(); old = *p; *p = v; return }
func SwapUint32(p *uint32, v uint32) (old uint32) { simrt.Point(); old = *p; *p = v; return }
func SwapUint64(p *uint64, v uint64) (old uint64) { simrt.Point(); old = *p; *p = v; return }
func CompareAndSwapInt32(p *int32, old, new int32) bool {
	simrt.Point()
	if *p == old {
		*p = new
		return true
	}
	return false
}
func CompareAndSwapInt64(p *int64, old, new int64) bool {
	simrt.Point()
	if *p == old {
		*p = new
		return true
	}
	return false
}
func CompareAndSwapUint32(p *uint32, old, new uint32) bool {
	simrt.Point()
	if *p == old {
		*p = new
		return true
	}
	return false
}
func CompareAndSwapUint64(p *uint64, old, new uint64) bool {
	simrt.Point()
	if *p == old {
		*p = new
		return true
	}
	return false
}
