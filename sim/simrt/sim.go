// Package simrt is the deterministic simulator: a seeded scheduler that runs as the root goroutine
// of a testing/synctest bubble and decides, from one decision stream, which task runs next, when
// the (fake) clock advances and which faults fire. Every task is a real goroutine parked on its own
// gate channel except while it is the single task the scheduler has released.
package simrt

import (
	"fmt"
	"hash/fnv"
	"os"
	"runtime"
	"sort"
	"strings"
	"sync"
	"testing"
	"testing/synctest"
	"time"
)

type tstate int

const (
	stRunnable tstate = iota
	stRunning
	stBlockedSync // blocked on a simsync primitive (bookkeeping only)
	stBlockedReal // durably blocked in a real channel op / timer
	stQuiesce     // main task waiting for quiescence
	stFrozen      // crashed: never released again
	stAborted     // parked after a failure was recorded
	stDone
)

func (s tstate) String() string {
	return [...]string{"runnable", "running", "blocked-sync", "blocked-real", "quiesce", "frozen", "aborted", "done"}[s]
}

// Task is one simulated thread of control.
type Task struct {
	Name   string
	seq    int
	gate   chan struct{}
	state  tstate
	inReal bool // inside a real (possibly durably blocking) operation
	desch  bool // the scheduler took the CPU away while the task was inside a real op
	waitOn string
	group  int
	prio   int64
	nchild int
	id     string
	frozen bool
}

func (t *Task) ID() string { return t.id }

// Failure is a violation found in one run.
type Failure struct {
	Oracle string `json:"oracle"`
	Sig    string `json:"sig"`
	Detail string `json:"detail"`
	Step   uint64 `json:"step"`
}

func (f *Failure) Signature() string { return f.Oracle + "|" + f.Sig }

// Config of one run.
type Config struct {
	MaxSteps  uint64
	Horizon   time.Duration
	StallMenu []time.Duration // clock advances offered while tasks are runnable
	KeepLog   bool
	PCTSteps  int
}

// TaskInfo describes a task that has not finished at quiescence.
type TaskInfo struct {
	Name   string
	ID     string
	State  string
	WaitOn string
	Group  int
}

// Sim is one simulated execution.
type Sim struct {
	cfg     Config
	dec     *Decider
	tasks   []*Task
	current *Task
	main    *Task
	nseq    int

	wmu   sync.Mutex // real mutex: protects woken only
	woken []*Task
	// time.AfterFunc (chan.go): timers by handle, callbacks of fired timers waiting to be adopted as tasks
	afters   map[*time.Timer]*afterRec
	afterSeq uint64
	fired    []*afterFire
	sig      chan struct{}

	step     uint64
	switches int
	inReal   int
	noYield  int
	dead     bool
	pending  int // option chosen by a yielding task (-1 none)
	pendOpts []option

	failure *Failure
	capped  bool
	infra   string

	probes map[string]int
	faults map[string]int

	log      []string
	logHash  uint64
	schHash  uint64
	start    time.Time
	quiesced bool

	// strategy (search mode)
	strat     int
	preemptP  float64
	stallP    float64
	pctPoints map[uint64]bool
	pctLow    int64

	// user data for harness
	Data any
}

type option struct {
	t     *Task
	stall time.Duration
}

var cur *Sim

// Cur returns the active simulation (nil outside).
func Cur() *Sim { return cur }

// Result of one run.
type Result struct {
	Decisions []int          `json:"decisions"`
	Steps     uint64         `json:"steps"`
	Switches  int            `json:"switches"`
	SchedHash uint64         `json:"sched_hash"`
	LogHash   uint64         `json:"log_hash"`
	Failure   *Failure       `json:"failure,omitempty"`
	Capped    bool           `json:"capped,omitempty"`
	Infra     string         `json:"infra,omitempty"`
	Probes    map[string]int `json:"probes,omitempty"`
	Faults    map[string]int `json:"faults,omitempty"`
	SimTime   time.Duration  `json:"sim_time_ns"`
	Log       []string       `json:"log,omitempty"`
	Leaked    bool           `json:"leaked,omitempty"`
}

const fnvOff = 14695981039346656037
const fnvPrime = 1099511628211

func mix(h uint64, v uint64) uint64 {
	for i := 0; i < 8; i++ {
		h ^= v & 0xff
		h *= fnvPrime
		v >>= 8
	}
	return h
}

// RunOnce executes body as the main task of a fresh simulation inside a synctest bubble.
func RunOnce(t *testing.T, cfg Config, dec *Decider, body func(s *Sim)) (res *Result) {
	if cfg.MaxSteps == 0 {
		cfg.MaxSteps = 20000
	}
	if cfg.Horizon == 0 {
		cfg.Horizon = 1000 * time.Hour
	}
	if cfg.PCTSteps == 0 {
		cfg.PCTSteps = 300
	}
	s := &Sim{cfg: cfg, dec: dec, pending: -1,
		probes: map[string]int{}, faults: map[string]int{}, logHash: fnvOff, schHash: fnvOff}
	s.initStrategy()
	res = &Result{}
	func() {
		defer func() {
			if r := recover(); r != nil {
				msg := fmt.Sprint(r)
				if strings.Contains(msg, "deadlock") && strings.Contains(msg, "blocked goroutines remain") {
					res.Leaked = true
					return
				}
				s.infra = "panic in scheduler: " + msg + "\n" + string(stack())
			}
		}()
		synctest.Test(t, func(t *testing.T) {
			cur = s
			s.sig = make(chan struct{}, 1) // must be a bubble channel: a select on it has to block durably
			s.start = time.Now()
			s.main = s.newTask(nil, "main")
			s.main.state = stRunnable
			go s.entry(s.main, func() { body(s) })
			s.loop()
			res.SimTime = time.Since(s.start)
			s.teardown()
		})
	}()
	cur = nil
	res.Decisions = dec.rec
	res.Steps = s.step
	res.Switches = s.switches
	res.SchedHash = s.schHash
	res.LogHash = s.logHash
	res.Failure = s.failure
	res.Capped = s.capped
	res.Infra = s.infra
	res.Probes = s.probes
	res.Faults = s.faults
	res.Log = s.log
	return res
}

func stack() []byte {
	buf := make([]byte, 16384)
	return buf[:runtime.Stack(buf, false)]
}

func (s *Sim) newTask(parent *Task, name string) *Task {
	t := &Task{Name: name, seq: s.nseq, gate: make(chan struct{}, 1)}
	s.nseq++
	if parent == nil {
		t.id = "0"
	} else {
		t.id = fmt.Sprintf("%s.%d", parent.id, parent.nchild)
		parent.nchild++
		t.group = parent.group
	}
	if s.dec.rng != nil && s.strat == stratPCT {
		t.prio = s.dec.rng.Int64N(1 << 40)
	}
	s.tasks = append(s.tasks, t)
	return t
}

func (s *Sim) entry(t *Task, f func()) {
	<-t.gate
	if s.dead {
		return
	}
	defer func() {
		if r := recover(); r != nil {
			if !s.dead {
				s.taskPanicked(t, r)
			}
		}
		t.state = stDone
	}()
	f()
}

func (s *Sim) taskPanicked(t *Task, r any) {
	if s.failure == nil {
		msg := fmt.Sprint(r)
		s.failure = &Failure{Oracle: "panic", Sig: sanitize(msg), Detail: fmt.Sprintf("task %s (%s) panicked: %s\n%s", t.id, t.Name, msg, stack()), Step: s.step}
	}
}

func sanitize(msg string) string {
	if i := strings.IndexByte(msg, '\n'); i >= 0 {
		msg = msg[:i]
	}
	var b strings.Builder
	for _, r := range msg {
		if r >= '0' && r <= '9' {
			continue
		}
		b.WriteRune(r)
	}
	out := b.String()
	if len(out) > 100 {
		out = out[:100]
	}
	return out
}

// loop is the scheduler; it runs on the root goroutine of the bubble.
func (s *Sim) loop() {
	for {
		synctest.Wait()
		s.drainWoken()
		s.adoptFired()
		if c := s.current; c != nil {
			if c.state == stRunning {
				if !c.inReal {
					s.infra = fmt.Sprintf("task %s (%s) blocked outside simulator control at step %d", c.id, c.Name, s.step)
					return
				}
				c.state = stBlockedReal
				c.desch = true
			}
			s.current = nil
		}
		if s.failure != nil || s.infra != "" || s.main.state == stDone {
			return
		}
		if s.step >= s.cfg.MaxSteps {
			s.capped = true
			// every harness workload is finite and comes to rest within a few hundred steps: a run that is still
			// moving after MaxSteps scheduling steps (by default a hundred times that) is a livelock - some task keeps
			// running, typically a loop waiting for something that never happens - and is reported, not discarded
			if s.failure == nil {
				s.failure = &Failure{Oracle: "termination", Sig: "no-quiescence-within-step-cap", Step: s.step,
					Detail: fmt.Sprintf("the run did not come to rest within %d scheduling steps (fake time %v): unfinished tasks %s", s.cfg.MaxSteps, time.Since(s.start), s.describeBlocked())}
			}
			return
		}
		var opt option
		if s.pending >= 0 {
			opt = s.pendOpts[s.pending]
			s.pending = -1
		} else {
			opts := s.options(nil)
			if len(opts) == 0 || opts[0].t == nil {
				// nothing runnable
				if !s.idle() {
					return
				}
				continue
			}
			opt = opts[s.decide(nil, opts)]
		}
		if opt.t == nil {
			s.countFault("clock-stall")
			s.logf("stall %v", opt.stall)
			time.Sleep(opt.stall)
			continue
		}
		s.release(opt.t)
	}
}

func (s *Sim) release(t *Task) {
	if t.state != stRunnable {
		s.infra = fmt.Sprintf("scheduler released task %s in state %v", t.id, t.state)
		return
	}
	s.switches++
	s.schHash = mix(s.schHash, uint64(t.seq)+1)
	if s.cfg.KeepLog && os.Getenv("VERIF_VERBOSE") != "" {
		s.log = append(s.log, fmt.Sprintf("%6d sched    -> %s (%s)", s.step, t.id, t.Name))
	}
	t.state = stRunning
	s.current = t
	t.gate <- struct{}{}
}

// idle is called when no task is runnable. It returns false when the run must end.
func (s *Sim) idle() bool {
	if s.inReal > 0 {
		// somebody is blocked in a real operation: only the clock (or nothing) can wake it
		tm := time.NewTimer(s.cfg.Horizon)
		select {
		case <-s.sig:
			tm.Stop()
			return true
		case <-tm.C:
		}
	}
	// quiescent
	if s.main.state == stQuiesce {
		s.quiesced = true
		s.main.state = stRunnable
		return true
	}
	s.fail("deadlock", "main", "main task blocked forever: "+s.describeBlocked())
	return false
}

func (s *Sim) describeBlocked() string {
	var b strings.Builder
	for _, t := range s.tasks {
		if t.state != stDone {
			fmt.Fprintf(&b, "[%s %s %v %s] ", t.id, t.Name, t.state, t.waitOn)
		}
	}
	return b.String()
}

func (s *Sim) drainWoken() {
	s.wmu.Lock()
	w := s.woken
	s.woken = nil
	s.wmu.Unlock()
	select {
	case <-s.sig:
	default:
	}
	if len(w) == 0 {
		return
	}
	sort.Slice(w, func(i, j int) bool { return w[i].seq < w[j].seq })
	for _, t := range w {
		s.inReal--
		t.inReal = false
		t.desch = false
		if t.frozen {
			t.state = stFrozen
		} else {
			t.state = stRunnable
		}
	}
}

// options lists what can happen next. cur (may be nil) is the yielding task that could continue.
func (s *Sim) options(curT *Task) []option {
	opts := s.pendOpts[:0]
	if curT != nil {
		opts = append(opts, option{t: curT})
	}
	for _, t := range s.tasks {
		if t.state == stRunnable && t != curT {
			opts = append(opts, option{t: t})
		}
	}
	if len(opts) > 0 {
		for _, d := range s.cfg.StallMenu {
			opts = append(opts, option{stall: d})
		}
	}
	s.pendOpts = opts
	return opts
}

func (s *Sim) fail(oracle, sig, detail string) {
	if s.failure == nil {
		s.failure = &Failure{Oracle: oracle, Sig: sig, Detail: detail, Step: s.step}
	}
}

func (s *Sim) teardown() {
	s.dead = true
	for _, t := range s.tasks {
		switch t.state {
		case stRunnable, stBlockedSync, stQuiesce, stFrozen, stAborted:
			select {
			case t.gate <- struct{}{}:
			default:
			}
		}
	}
	// compact: let them exit
	synctest.Wait()
}

// ---------------------------------------------------------------------------------------------
// task side

// point is a scheduling point. It returns the current task, or nil when the caller is not under
// simulator control (package init, teardown).
func point() *Task {
	s := cur
	if s == nil || s.dead {
		return nil
	}
	t := s.current
	if t == nil {
		return nil
	}
	if s.noYield > 0 {
		return t
	}
	s.step++
	if s.step >= s.cfg.MaxSteps {
		t.state = stRunnable
		s.park(t)
		return t
	}
	if s.inReal == 0 {
		opts := s.options(t)
		if len(opts) == 1 {
			return t
		}
		k := s.decide(t, opts)
		if k == 0 {
			return t
		}
		s.pending = k
	}
	t.state = stRunnable
	s.park(t)
	return t
}

func (s *Sim) park(t *Task) {
	<-t.gate
	if s.dead {
		runtime.Goexit()
	}
}

// Yield is an explicit scheduling point.
func Yield() { point() }

// RMW is the scheduling point simgen puts between the load and the store of a read-modify-write statement on a
// struct field or pointer target (x.n++, *p += d).
func RMW() { point() }

// Current returns the running task or nil.
func Current() *Task {
	s := cur
	if s == nil || s.dead {
		return nil
	}
	return s.current
}

// Block parks the current task until Wake is called for it. The caller must have registered the
// task with whatever will wake it.
func Block(t *Task, why string) {
	s := cur
	t.state = stBlockedSync
	t.waitOn = why
	if s.cfg.KeepLog && os.Getenv("VERIF_VERBOSE") != "" {
		s.log = append(s.log, fmt.Sprintf("%6d %-8s blocks on %s", s.step, t.id, why))
	}
	s.park(t)
	t.waitOn = ""
}

// Wake makes a task blocked by Block runnable again.
func Wake(t *Task) {
	if t.state == stBlockedSync {
		if t.frozen {
			t.state = stFrozen
		} else {
			t.state = stRunnable
		}
	}
}

// Dead reports whether there is no live simulation (plain mode).
func Dead() bool { return cur == nil || cur.dead }

// BeginReal marks the start of a real, possibly blocking operation (channel op, sleep).
func BeginReal(why string) *Task {
	t := point()
	if t == nil {
		return nil
	}
	s := cur
	if s.noYield > 0 {
		return t
	}
	t.inReal = true
	t.desch = false
	t.waitOn = why
	s.inReal++
	return t
}

// EndReal is called after the real operation returned.
func EndReal(t *Task) {
	if t == nil {
		return
	}
	s := cur
	if s == nil || s.dead {
		if s != nil && s.dead {
			runtime.Goexit()
		}
		return
	}
	if s.noYield > 0 && !t.inReal {
		return
	}
	if !t.desch {
		t.inReal = false
		t.waitOn = ""
		s.inReal--
		return
	}
	s.wmu.Lock()
	s.woken = append(s.woken, t)
	s.wmu.Unlock()
	select {
	case s.sig <- struct{}{}:
	default:
	}
	s.park(t)
	t.waitOn = ""
}

// Sync forces the scheduler to let all asynchronous wake-ups settle (used after context cancel).
func Sync() {
	s := cur
	if s == nil || s.dead || s.current == nil || s.noYield > 0 {
		return
	}
	t := s.current
	// pretend a real op so that the next point goes through the root
	s.step++
	opts := s.options(t)
	k := 0
	if len(opts) > 1 {
		k = s.decide(t, opts)
	}
	s.pending = k
	t.state = stRunnable
	s.park(t)
}

// Go starts f as a new task.
func Go(f func()) { GoAt("go", f) }

// GoAt starts f as a new named task; the child parks before its first instruction.
func GoAt(name string, f func()) *Task {
	s := cur
	if s == nil || s.dead || s.current == nil {
		go f()
		return nil
	}
	p := s.current
	t := s.newTask(p, name)
	t.state = stRunnable
	go s.entry(t, f)
	if s.noYield == 0 {
		point()
	}
	return t
}

// ---------------------------------------------------------------------------------------------
// harness API

// Go spawns a named harness task in the given group (0 = inherit).
func (s *Sim) Go(name string, f func()) *Task {
	return GoAt(name, f)
}

// GoGroup spawns a task in a crash group.
func (s *Sim) GoGroup(name string, group int, f func()) *Task {
	s.noYield++
	t := GoAt(name, f)
	s.noYield--
	t.group = group
	return t
}

// Step is the global step number (total order of events).
func (s *Sim) Step() uint64 { return s.step }

// Tick advances the step counter without yielding; used to stamp history events uniquely.
func (s *Sim) Tick() uint64 { s.step++; return s.step }

// Now is the fake clock offset since the start of the run.
func (s *Sim) Now() time.Duration { return time.Since(s.start) }

// Fail records a violation and aborts the run (the calling task never resumes).
func (s *Sim) Fail(oracle, sig, format string, args ...any) {
	s.fail(oracle, sig, fmt.Sprintf(format, args...))
	if t := s.current; t != nil && !s.dead {
		t.state = stAborted
		s.park(t)
	}
}

// Failed reports whether a violation was already recorded.
func (s *Sim) Failed() bool { return s.failure != nil }

func (s *Sim) Probe(name string) { s.probes[name]++ }
func (s *Sim) countFault(kind string) {
	s.faults[kind]++
}

// Fault counts an injected fault of the given kind.
func (s *Sim) Fault(kind string) { s.faults[kind]++ }

// Logf appends to the event log (hashed always, stored when KeepLog).
func (s *Sim) Logf(format string, args ...any) { s.logf(format, args...) }

func (s *Sim) logf(format string, args ...any) {
	if s.cfg.KeepLog {
		line := fmt.Sprintf("%6d %-8s ", s.step, s.curID()) + fmt.Sprintf(format, args...)
		s.log = append(s.log, line)
		h := fnv.New64a()
		h.Write([]byte(line))
		s.logHash = mix(s.logHash, h.Sum64())
		return
	}
	// cheap hash of format+args without formatting cost where possible
	h := fnv.New64a()
	fmt.Fprintf(h, format, args...)
	s.logHash = mix(mix(s.logHash, s.step), h.Sum64())
}

// Hash mixes a value into the log hash without formatting (cheap event recording).
func (s *Sim) Hash(vals ...uint64) {
	for _, v := range vals {
		s.logHash = mix(s.logHash, v)
	}
}

func (s *Sim) curID() string {
	if s.current != nil {
		return s.current.id
	}
	return "sched"
}

// Quiesce parks the calling (main) task until no task is runnable and no timer within the horizon
// can wake anybody. It returns the tasks that have not finished.
func (s *Sim) Quiesce() []TaskInfo {
	t := s.current
	if t != s.main {
		panic("Quiesce must be called by the main task")
	}
	t.state = stQuiesce
	s.park(t)
	var out []TaskInfo
	for _, x := range s.tasks {
		if x != t && x.state != stDone {
			out = append(out, TaskInfo{Name: x.Name, ID: x.id, State: x.state.String(), WaitOn: x.waitOn, Group: x.group})
		}
	}
	return out
}

// Atomic runs f without scheduling points (used for harness-owned stubs such as the simulated disk).
func (s *Sim) Atomic(f func()) {
	s.noYield++
	defer func() { s.noYield-- }()
	f()
}

// FreezeGroup crashes all tasks of the group: they are never released again. If the calling task
// belongs to the group it does not return.
func (s *Sim) FreezeGroup(group int) {
	self := false
	for _, t := range s.tasks {
		if t.group != group || t.state == stDone {
			continue
		}
		t.frozen = true
		switch t.state {
		case stRunnable, stBlockedSync:
			t.state = stFrozen
		case stRunning:
			if t == s.current {
				self = true
			}
		}
	}
	if self {
		t := s.current
		t.state = stFrozen
		s.park(t)
	}
}

// Done reports whether the task has finished.
func (t *Task) Done() bool { return t.state == stDone }

// Point is the exported scheduling point used by simsync / simatomic.
func Point() *Task { return point() }

// PlainContended is called when a primitive would block but no simulation controls the caller.
func PlainContended(what string) {
	if Dead() {
		return
	}
	panic("simsync: " + what + " would block outside simulator control")
}
