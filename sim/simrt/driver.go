package simrt

import (
	"encoding/json"
	"fmt"
	"os"
	"sort"
	"strconv"
	"strings"
	"sync"
	"testing"
	"time"
)

// Harness is one simulated workload + oracle.
type Harness struct {
	Name string
	Cfg  Config
	Body func(s *Sim)
	// Trivial, when set, tells whether a finished run counts as trivial for the evidence
	// (default: no context switch other than the initial ones and no fault).
	Trivial func(r *Result) bool
}

// FailureRecord is the first run that produced a given violation signature.
type FailureRecord struct {
	Signature string   `json:"signature"`
	Count     int      `json:"count"`
	Seed      uint64   `json:"seed"`
	Run       uint64   `json:"run"`
	Decisions []int    `json:"decisions"`
	Failure   *Failure `json:"failure"`
}

// WorkerOut is what one worker process reports.
type WorkerOut struct {
	Harness     string                    `json:"harness"`
	Seed        uint64                    `json:"seed"`
	Worker      int                       `json:"worker"`
	Runs        uint64                    `json:"runs"`
	Steps       uint64                    `json:"steps"`
	Switches    uint64                    `json:"switches"`
	Capped      uint64                    `json:"capped"`
	Leaked      uint64                    `json:"leaked"`
	FailedRuns  uint64                    `json:"failed_runs"`
	NonTrivial  uint64                    `json:"nontrivial_runs"`
	SimTimeNs   int64                     `json:"sim_time_ns"`
	WallS       float64                   `json:"wall_s"`
	Probes      map[string]int            `json:"probes"`
	Faults      map[string]int            `json:"faults"`
	Failures    map[string]*FailureRecord `json:"failures"`
	Infra       string                    `json:"infra,omitempty"`
	HashBits    int                       `json:"hash_bits"`
	SchedHashes []uint64                  `json:"sched_hashes"`
	LogHashes   []uint64                  `json:"log_hashes"`
	Samples     []json.RawMessage         `json:"samples"`
	LogDigest   string                    `json:"log_digest,omitempty"` // determinism self-test
}

// Replay is the replay file format.
// (Decisions is always written as a list, never null)
type Replay struct {
	Property  string   `json:"property"`
	Harness   string   `json:"harness"`
	Config    string   `json:"config,omitempty"`
	Tier      string   `json:"tier,omitempty"`
	Seed      uint64   `json:"seed"`
	Run       uint64   `json:"run"`
	Decisions []int    `json:"decisions"`
	Signature string   `json:"signature"`
	Detail    string   `json:"detail,omitempty"`
	FromSeed  bool     `json:"from_seed,omitempty"` // no decision list: the run is regenerated from (seed, run)
	Minimised bool     `json:"minimised"`
	OrigLen   int      `json:"orig_len,omitempty"`
	Trace     []string `json:"trace,omitempty"`
}

type hashSet struct {
	bits int
	m    map[uint64]struct{}
	cap  int
}

func newHashSet(capacity int) *hashSet { return &hashSet{m: map[uint64]struct{}{}, cap: capacity} }

func (h *hashSet) add(v uint64) {
	v = mix(fnvOff, v)
	if v&((1<<h.bits)-1) != 0 {
		return
	}
	h.m[v] = struct{}{}
	if len(h.m) > h.cap {
		h.bits++
		for k := range h.m {
			if k&((1<<h.bits)-1) != 0 {
				delete(h.m, k)
			}
		}
	}
}

func (h *hashSet) list() []uint64 {
	out := make([]uint64, 0, len(h.m))
	for k := range h.m {
		out = append(out, k)
	}
	sort.Slice(out, func(i, j int) bool { return out[i] < out[j] })
	return out
}

func envU(name string, def uint64) uint64 {
	if v := os.Getenv(name); v != "" {
		if n, err := strconv.ParseUint(v, 10, 64); err == nil {
			return n
		}
	}
	return def
}

// Thorough reports whether the check runs in the thorough tier (VERIF_TIER=thorough): harnesses widen their bounds.
func Thorough() bool { return os.Getenv("VERIF_TIER") == "thorough" }

// Bound returns the quick or the thorough value of a workload bound.
func Bound(quick, thorough int) int {
	if Thorough() {
		return thorough
	}
	return quick
}

// HarnessConfig returns the free-form configuration string of the check (VERIF_CONFIG).
func HarnessConfig() string { return os.Getenv("VERIF_CONFIG") }

// ConfigHas reports whether the comma-separated VERIF_CONFIG contains the token.
func ConfigHas(tok string) bool {
	for _, x := range strings.Split(os.Getenv("VERIF_CONFIG"), ",") {
		if strings.TrimSpace(x) == tok {
			return true
		}
	}
	return false
}

// Main is called from the single Test function of a harness binary; it selects the harness by
// VERIF_HARNESS and the mode by VERIF_MODE (search | replay | shrink | digest).
func Main(t *testing.T, hs ...*Harness) {
	name := os.Getenv("VERIF_HARNESS")
	var h *Harness
	for _, x := range hs {
		if x.Name == name {
			h = x
		}
	}
	if h == nil {
		if name == "" && os.Getenv("VERIF_MODE") == "" {
			t.Skip("VERIF_HARNESS not set")
		}
		var names []string
		for _, x := range hs {
			names = append(names, x.Name)
		}
		fmt.Fprintf(os.Stderr, "unknown harness %q (have %v)\n", name, names)
		os.Exit(2)
	}
	switch os.Getenv("VERIF_MODE") {
	case "search", "":
		search(t, h)
	case "digest":
		digest(t, h)
	case "replay":
		replay(t, h)
	case "shrink":
		shrink(t, h)
	default:
		fmt.Fprintln(os.Stderr, "unknown VERIF_MODE")
		os.Exit(2)
	}
}

func writeJSON(path string, v any) {
	b, err := json.MarshalIndent(v, "", " ")
	if err != nil {
		fmt.Fprintln(os.Stderr, "marshal:", err)
		os.Exit(2)
	}
	if path == "" {
		os.Stdout.Write(b)
		return
	}
	if err := os.WriteFile(path, b, 0o644); err != nil {
		fmt.Fprintln(os.Stderr, "write:", err)
		os.Exit(2)
	}
}

func trivial(h *Harness, r *Result) bool {
	if h.Trivial != nil {
		return h.Trivial(r)
	}
	nf := 0
	for _, v := range r.Faults {
		nf += v
	}
	return nf == 0 && len(r.Decisions) < 2
}

func search(t *testing.T, h *Harness) {
	seed := envU("VERIF_SEED", 1)
	worker := envU("VERIF_WORKER", 0)
	workers := envU("VERIF_WORKERS", 1)
	maxRuns := envU("VERIF_MAXRUNS", 1<<62)
	budget := time.Duration(envU("VERIF_BUDGET_MS", 10000)) * time.Millisecond
	stopOnFail := envU("VERIF_STOP_ON_FAIL", 0) == 1
	maxSig := int(envU("VERIF_MAXSIG", 24))
	out := &WorkerOut{Harness: h.Name, Seed: seed, Worker: int(worker), Probes: map[string]int{}, Faults: map[string]int{}, Failures: map[string]*FailureRecord{}}
	sched := newHashSet(1 << 17)
	logs := newHashSet(1 << 17)
	start := time.Now()
	// the index of the run in progress is kept in a side file: if the code under test aborts the whole process (fatal
	// error: out of memory, concurrent map writes, ...) the runner can attribute the abort to that run and replay it
	var progress *os.File
	if p := os.Getenv("VERIF_OUT"); p != "" {
		progress, _ = os.Create(p + ".progress")
	}
	guard := startStallGuard(stallAbort)
	defer guard.Stop()
	for i := uint64(0); i < maxRuns; i++ {
		if time.Since(start) > budget {
			break
		}
		run := worker + i*workers
		if progress != nil {
			var buf [8]byte
			for k := 0; k < 8; k++ {
				buf[k] = byte(run >> (8 * k))
			}
			progress.WriteAt(buf[:], 0)
		}
		dec := NewSearch(seed, run)
		guard.Beat()
		res := RunOnce(t, h.Cfg, dec, h.Body)
		out.Runs++
		out.Steps += res.Steps
		out.Switches += uint64(res.Switches)
		out.SimTimeNs += int64(res.SimTime)
		if res.Leaked {
			out.Leaked++
		}
		if res.Infra != "" {
			out.Infra = fmt.Sprintf("seed=%d run=%d: %s", seed, run, res.Infra)
			break
		}
		if res.Capped {
			out.Capped++
			if p := os.Getenv("VERIF_DUMP_CAPPED"); p != "" && out.Capped == 1 {
				r2 := RunOnce(t, withLog(h.Cfg), NewReplay(res.Decisions), h.Body)
				lg := r2.Log
				if len(lg) > 400 {
					lg = append(append([]string{}, lg[:150]...), lg[len(lg)-250:]...)
				}
				os.WriteFile(p, []byte(strings.Join(lg, "\n")), 0o644)
			}
			// (a capped run carries a termination failure and is handled like any other failed run)
		}
		for k, v := range res.Probes {
			out.Probes[k] += v
		}
		for k, v := range res.Faults {
			out.Faults[k] += v
		}
		sched.add(res.SchedHash ^ res.LogHash)
		if !trivial(h, res) {
			out.NonTrivial++
			logs.add(res.LogHash)
		}
		if len(out.Samples) < 3 && !trivial(h, res) && i%5 == 3 {
			// re-run with the log kept to show what a case looks like
			r2 := RunOnce(t, withLog(h.Cfg), NewReplay(res.Decisions), h.Body)
			lg := r2.Log
			if len(lg) > 40 {
				lg = append(lg[:40:40], fmt.Sprintf("... (%d more events)", len(r2.Log)-40))
			}
			b, _ := json.Marshal(map[string]any{"seed": seed, "run": run, "decisions": len(res.Decisions), "steps": res.Steps, "events": lg})
			out.Samples = append(out.Samples, b)
		}
		if res.Failure != nil {
			out.FailedRuns++
			sig := res.Failure.Signature()
			fr := out.Failures[sig]
			if fr == nil {
				if len(out.Failures) < maxSig {
					out.Failures[sig] = &FailureRecord{Signature: sig, Count: 1, Seed: seed, Run: run, Decisions: res.Decisions, Failure: res.Failure}
				}
			} else {
				fr.Count++
				if len(res.Decisions) < len(fr.Decisions) {
					fr.Seed, fr.Run, fr.Decisions, fr.Failure = seed, run, res.Decisions, res.Failure
				}
			}
			if stopOnFail {
				break
			}
		}
		if out.Leaked > 20000 {
			break // recycle the process: leaked goroutines accumulate
		}
	}
	if progress != nil {
		progress.Close()
		os.Remove(progress.Name())
	}
	out.WallS = time.Since(start).Seconds()
	out.HashBits = sched.bits
	if logs.bits > out.HashBits {
		out.HashBits = logs.bits
	}
	out.SchedHashes = sched.list()
	out.LogHashes = logs.list()
	writeJSON(os.Getenv("VERIF_OUT"), out)
}

func withLog(c Config) Config { c.KeepLog = true; return c }

// digest runs a fixed set of runs with logs kept and prints a digest of all event logs: used by the
// determinism self-test (same seed => same digest in any process, at any GOMAXPROCS).
func digest(t *testing.T, h *Harness) {
	seed := envU("VERIF_SEED", 1)
	n := envU("VERIF_MAXRUNS", 64)
	acc := uint64(fnvOff)
	var lines []string
	for i := uint64(0); i < n; i++ {
		res := RunOnce(t, withLog(h.Cfg), NewSearch(seed, i), h.Body)
		if res.Infra != "" {
			fmt.Fprintln(os.Stderr, "infra:", res.Infra)
			os.Exit(2)
		}
		acc = mix(acc, res.LogHash)
		acc = mix(acc, res.SchedHash)
		acc = mix(acc, uint64(len(res.Decisions)))
		sig := ""
		if res.Failure != nil {
			sig = res.Failure.Signature()
		}
		lines = append(lines, fmt.Sprintf("%d %016x %016x %d %d %s", i, res.LogHash, res.SchedHash, len(res.Decisions), res.Steps, sig))
	}
	writeJSON(os.Getenv("VERIF_OUT"), map[string]any{"digest": fmt.Sprintf("%016x", acc), "runs": lines})
}

func loadReplay() *Replay {
	path := os.Getenv("VERIF_REPLAY")
	b, err := os.ReadFile(path)
	if err != nil {
		fmt.Fprintln(os.Stderr, "replay file:", err)
		os.Exit(2)
	}
	var rp Replay
	if err := json.Unmarshal(b, &rp); err != nil {
		fmt.Fprintln(os.Stderr, "replay file:", err)
		os.Exit(2)
	}
	return &rp
}

// replay re-executes a replay file; writes {"signature":..., "log":...}.
// stallLimit: single runs take milliseconds. A run that keeps the processor that long without reaching a scheduling
// point (an endless loop in the code under test that touches nothing the simulator owns) cannot be ended from inside
// its bubble; the guard, an ordinary goroutine outside of it, ends the process instead and says why.
const stallLimit = 60 * time.Second

type stallGuard struct {
	mu      sync.Mutex
	beat    time.Time
	stopped bool
}

func startStallGuard(onStall func()) *stallGuard {
	g := &stallGuard{beat: time.Now()}
	go func() {
		for {
			time.Sleep(time.Second)
			g.mu.Lock()
			stalled, stopped := time.Since(g.beat) > stallLimit, g.stopped
			g.mu.Unlock()
			if stopped {
				return
			}
			if stalled {
				onStall()
				os.Exit(2)
			}
		}
	}()
	return g
}

func (g *stallGuard) Beat() { g.mu.Lock(); g.beat = time.Now(); g.mu.Unlock() }
func (g *stallGuard) Stop() { g.mu.Lock(); g.stopped = true; g.mu.Unlock() }

func stallAbort() {
	fmt.Fprintf(os.Stderr, "fatal error: stall: one run kept the processor for %v without reaching a scheduling point (endless loop in the code under test)\n", stallLimit)
}

func replay(t *testing.T, h *Harness) {
	rp := loadReplay()
	dec := NewReplay(rp.Decisions)
	if rp.FromSeed {
		dec = NewSearch(rp.Seed, rp.Run)
	}
	g := startStallGuard(stallAbort)
	res := RunOnce(t, withLog(h.Cfg), dec, h.Body)
	g.Stop()
	sig, detail := "", ""
	if res.Failure != nil {
		sig, detail = res.Failure.Signature(), res.Failure.Detail
	}
	writeJSON(os.Getenv("VERIF_OUT"), map[string]any{"signature": sig, "detail": detail, "log": res.Log, "infra": res.Infra,
		"log_hash": fmt.Sprintf("%016x", res.LogHash), "steps": res.Steps})
}

// shrink minimises the decision list of a replay file by delta debugging while the same violation
// signature persists, and writes the minimised replay file to VERIF_OUT.
func shrink(t *testing.T, h *Harness) {
	rp := loadReplay()
	budget := time.Duration(envU("VERIF_BUDGET_MS", 60000)) * time.Millisecond
	maxCand := int(envU("VERIF_MAXCAND", 4000))
	start := time.Now()
	cands := 0
	// a candidate schedule on which the code under test never comes back ends the minimisation with the best list so far
	var bestMu sync.Mutex
	var bestSoFar []int
	guard := startStallGuard(func() {
		bestMu.Lock()
		defer bestMu.Unlock()
		out := *rp
		out.OrigLen = len(rp.Decisions)
		out.Decisions = bestSoFar
		out.Minimised = true
		out.Trace = []string{"(trace omitted: the minimisation was ended by a candidate schedule on which the code under test kept the processor without reaching a scheduling point; 'verif replay' of this file prints the trace)"}
		writeJSON(os.Getenv("VERIF_OUT"), &out)
		os.Exit(0)
	})
	defer guard.Stop()
	test := func(list []int) (bool, []int) {
		cands++
		guard.Beat()
		res := RunOnce(t, h.Cfg, NewReplay(list), h.Body)
		if res.Failure != nil && res.Failure.Signature() == rp.Signature {
			rec := res.Decisions
			// trailing zeros are implied
			for len(rec) > 0 && rec[len(rec)-1] == 0 {
				rec = rec[:len(rec)-1]
			}
			return true, append([]int(nil), rec...)
		}
		return false, nil
	}
	ok, best := test(rp.Decisions)
	if !ok {
		writeJSON(os.Getenv("VERIF_OUT"), map[string]any{"error": "replay file does not reproduce its signature"})
		return
	}
	keep := func(l []int) {
		bestMu.Lock()
		bestSoFar = append([]int(nil), l...)
		bestMu.Unlock()
	}
	keep(best)
	over := func() bool { return time.Since(start) > budget || cands > maxCand }
	improved := true
	for improved && !over() {
		improved = false
		// 1. remove blocks (ddmin style)
		for size := len(best) / 2; size >= 1 && !over(); size /= 2 {
			for i := 0; i+size <= len(best) && !over(); {
				cand := append(append([]int(nil), best[:i]...), best[i+size:]...)
				if ok, rec := test(cand); ok && weight(rec) < weight(best) {
					best = rec
					keep(best)
					improved = true
				} else {
					i += size
				}
			}
		}
		// 2. zero blocks / entries
		for size := len(best) / 2; size >= 1 && !over(); size /= 2 {
			for i := 0; i+size <= len(best) && !over(); i += size {
				allZero := true
				for _, v := range best[i : i+size] {
					if v != 0 {
						allZero = false
					}
				}
				if allZero {
					continue
				}
				cand := append([]int(nil), best...)
				for j := i; j < i+size; j++ {
					cand[j] = 0
				}
				if ok, rec := test(cand); ok && weight(rec) < weight(best) {
					best = rec
					keep(best)
					improved = true
				}
			}
		}
		// 3. decrement entries
		for i := 0; i < len(best) && !over(); i++ {
			for best[i] > 0 && !over() {
				cand := append([]int(nil), best...)
				cand[i] = best[i] / 2
				if ok, rec := test(cand); ok && weight(rec) < weight(best) {
					best = rec
					keep(best)
					improved = true
				} else {
					break
				}
				if i >= len(best) {
					break
				}
			}
		}
	}
	guard.Beat()
	res := RunOnce(t, withLog(h.Cfg), NewReplay(best), h.Body)
	out := *rp
	out.OrigLen = len(rp.Decisions)
	out.Decisions = best
	out.Minimised = true
	out.Trace = res.Log
	if res.Failure != nil {
		out.Detail = res.Failure.Detail
		out.Signature = res.Failure.Signature()
	}
	writeJSON(os.Getenv("VERIF_OUT"), &out)
}

func weight(l []int) int {
	w := 0
	for _, v := range l {
		w += 2
		if v != 0 {
			w += 1 + v
		}
	}
	return w
}
