package simrt

import (
	"cmp"
	"context"
	"fmt"
	"reflect"
	"sort"
	"time"
)

// Send is `ch <- v` with a scheduling point before it.
func Send[T any, C ~chan T | ~chan<- T](ch C, v T) {
	t := BeginReal("chan send")
	ch <- v
	EndReal(t)
}

// Recv is `<-ch`.
func Recv[T any, C ~chan T | ~<-chan T](ch C) T {
	t := BeginReal("chan recv")
	v := <-ch
	EndReal(t)
	return v
}

// Recv2 is `v, ok := <-ch`.
func Recv2[T any, C ~chan T | ~<-chan T](ch C) (T, bool) {
	t := BeginReal("chan recv")
	v, ok := <-ch
	EndReal(t)
	return v, ok
}

// Close is close(ch) with a scheduling point before it.
func Close[T any, C ~chan T | ~chan<- T](ch C) {
	point()
	close(ch)
}

// Sleep is time.Sleep on the fake clock.
func Sleep(d time.Duration) {
	t := BeginReal("sleep")
	time.Sleep(d)
	EndReal(t)
}

// SelectBegin is the scheduling point before a select; it returns the order in which the cases are
// probed (a simulator decision: Go itself would pick among ready cases with an unseedable PRNG).
func SelectBegin(n int) []int {
	point()
	ord := make([]int, n)
	for i := range ord {
		ord[i] = i
	}
	s := cur
	if s == nil || s.dead || s.current == nil || n < 2 {
		return ord
	}
	// rotation + optional swap keeps the decision small; 0 = source order
	k := s.Choose(n)
	if k > 0 {
		rot := append(ord[k:], ord[:k]...)
		copy(ord, rot)
	}
	return ord
}

// SelectBlock marks the start of the blocking innermost select; SelectEnd its end.
func SelectBlock() *Task {
	s := cur
	if s == nil || s.dead || s.current == nil || s.noYield > 0 {
		return nil
	}
	t := s.current
	t.inReal = true
	t.desch = false
	t.waitOn = "select"
	s.inReal++
	return t
}

// SelectEnd must be the first statement of every case body of the blocking select.
func SelectEnd(t *Task) { EndReal(t) }

// Only returns ch when on is true and a nil channel (never ready) otherwise.
func Only[C any](on bool, ch C) C {
	if on {
		return ch
	}
	var zero C
	return zero
}

// Cancel calls a context.CancelFunc as a synchronisation event and lets the wake-ups it causes settle.
func Cancel(f context.CancelFunc) {
	point()
	f()
	Sync()
}

// CancelCause is Cancel for context.CancelCauseFunc.
func CancelCause(f context.CancelCauseFunc, cause error) {
	point()
	f(cause)
	Sync()
}

// MapKeys returns the keys of m in a deterministic order (sorted structurally) rotated by a simulator
// decision, so that Go's randomised map iteration order becomes a recorded choice.
func MapKeys[M ~map[K]V, K comparable, V any](m M) []K {
	keys := make([]K, 0, len(m))
	for k := range m {
		keys = append(keys, k)
	}
	if len(keys) < 2 {
		return keys
	}
	sortKeys(keys)
	s := cur
	if s == nil || s.dead || s.current == nil {
		return keys
	}
	r := s.Choose(len(keys))
	if r > 0 {
		out := make([]K, 0, len(keys))
		out = append(out, keys[r:]...)
		out = append(out, keys[:r]...)
		if s.Chance(1, 4) {
			for i, j := 0, len(out)-1; i < j; i, j = i+1, j-1 {
				out[i], out[j] = out[j], out[i]
			}
		}
		return out
	}
	return keys
}

func sortKeys[K comparable](keys []K) {
	switch ks := any(keys).(type) {
	case []string:
		sort.Strings(ks)
		return
	case []int:
		sort.Ints(ks)
		return
	case []uint64:
		sort.Slice(ks, func(i, j int) bool { return ks[i] < ks[j] })
		return
	}
	sort.Slice(keys, func(i, j int) bool { return lessAny(reflect.ValueOf(keys[i]), reflect.ValueOf(keys[j])) })
}

func lessAny(a, b reflect.Value) bool { return cmpAny(a, b) < 0 }

func cmpAny(a, b reflect.Value) int {
	if a.Kind() == reflect.Interface {
		if a.IsNil() || b.IsNil() {
			return cmp.Compare(b2i(!a.IsNil()), b2i(!b.IsNil()))
		}
		a, b = a.Elem(), b.Elem()
		if a.Type() != b.Type() {
			return cmp.Compare(a.Type().String(), b.Type().String())
		}
	}
	switch a.Kind() {
	case reflect.Bool:
		return cmp.Compare(b2i(a.Bool()), b2i(b.Bool()))
	case reflect.Int, reflect.Int8, reflect.Int16, reflect.Int32, reflect.Int64:
		return cmp.Compare(a.Int(), b.Int())
	case reflect.Uint, reflect.Uint8, reflect.Uint16, reflect.Uint32, reflect.Uint64, reflect.Uintptr:
		return cmp.Compare(a.Uint(), b.Uint())
	case reflect.Float32, reflect.Float64:
		return cmp.Compare(a.Float(), b.Float())
	case reflect.String:
		return cmp.Compare(a.String(), b.String())
	case reflect.Array:
		for i := 0; i < a.Len(); i++ {
			if c := cmpAny(a.Index(i), b.Index(i)); c != 0 {
				return c
			}
		}
		return 0
	case reflect.Struct:
		for i := 0; i < a.NumField(); i++ {
			if c := cmpAny(a.Field(i), b.Field(i)); c != 0 {
				return c
			}
		}
		return 0
	case reflect.Pointer, reflect.Chan, reflect.UnsafePointer:
		// no structural order: fall back to the formatted value of the pointee where possible
		if s := cur; s != nil {
			s.probes["uncontrolled-pointer-key-order"]++
		}
		return cmp.Compare(fmt.Sprintf("%v", a.Interface()), fmt.Sprintf("%v", b.Interface()))
	}
	return cmp.Compare(fmt.Sprint(a), fmt.Sprint(b))
}

func b2i(b bool) int {
	if b {
		return 1
	}
	return 0
}

// MapIter replaces reflect.MapIter: iteration order is deterministic and chosen by the simulator.
type MapIter struct {
	m    reflect.Value
	keys []reflect.Value
	i    int
}

func orderReflectKeys(keys []reflect.Value) []reflect.Value {
	if len(keys) < 2 {
		return keys
	}
	sort.Slice(keys, func(i, j int) bool { return cmpAny(keys[i], keys[j]) < 0 })
	s := cur
	if s == nil || s.dead || s.current == nil {
		return keys
	}
	r := s.Choose(len(keys))
	if r > 0 {
		out := make([]reflect.Value, 0, len(keys))
		out = append(out, keys[r:]...)
		out = append(out, keys[:r]...)
		if s.Chance(1, 4) {
			for i, j := 0, len(out)-1; i < j; i, j = i+1, j-1 {
				out[i], out[j] = out[j], out[i]
			}
		}
		return out
	}
	return keys
}

// ReflectMapRange replaces reflect.Value.MapRange.
func ReflectMapRange(v reflect.Value) *MapIter {
	return &MapIter{m: v, keys: orderReflectKeys(v.MapKeys()), i: -1}
}

// ReflectMapKeys replaces reflect.Value.MapKeys.
func ReflectMapKeys(v reflect.Value) []reflect.Value { return orderReflectKeys(v.MapKeys()) }

func (it *MapIter) Next() bool           { it.i++; return it.i < len(it.keys) }
func (it *MapIter) Key() reflect.Value   { return it.keys[it.i] }
func (it *MapIter) Value() reflect.Value { return it.m.MapIndex(it.keys[it.i]) }

// AfterFunc --------------------------------------------------------------------------------------
// time.AfterFunc runs its callback on a goroutine of the runtime's own making when the (fake) clock reaches the
// deadline. Here that goroutine registers itself with the scheduler and parks: the callback then runs as a simulator
// task like any other, a pending timer keeps the run from being taken for quiescent, and Stop / Reset (rewritten by
// simgen for every *time.Timer) keep the books.

type afterRec struct {
	seq     uint64
	parent  *Task
	f       func()
	pending bool // armed and not yet fired: counted in s.inReal
}

type afterFire struct {
	rec  *afterRec
	gate chan struct{}
	task *Task
}

func AfterFunc(d time.Duration, f func()) *time.Timer {
	s := cur
	if s == nil || s.dead || s.current == nil {
		return time.AfterFunc(d, f)
	}
	point()
	s.afterSeq++
	rec := &afterRec{seq: s.afterSeq, parent: s.current, f: f, pending: true}
	s.inReal++
	tm := time.AfterFunc(d, func() { s.timerFired(rec) })
	if s.afters == nil {
		s.afters = map[*time.Timer]*afterRec{}
	}
	s.afters[tm] = rec
	return tm
}

// timerFired runs on the runtime's goroutine, concurrently with the scheduler (which is advancing the clock).
func (s *Sim) timerFired(rec *afterRec) {
	if s.dead {
		return
	}
	fr := &afterFire{rec: rec, gate: make(chan struct{})}
	s.wmu.Lock()
	s.fired = append(s.fired, fr)
	s.wmu.Unlock()
	select {
	case s.sig <- struct{}{}:
	default:
	}
	<-fr.gate
	if s.dead {
		return
	}
	t := fr.task
	defer func() {
		if r := recover(); r != nil {
			if !s.dead {
				s.taskPanicked(t, r)
			}
		}
		t.state = stDone
	}()
	rec.f()
}

// adoptFired turns the callbacks of fired timers into runnable tasks (scheduler side, after synctest.Wait).
func (s *Sim) adoptFired() {
	s.wmu.Lock()
	fs := s.fired
	s.fired = nil
	s.wmu.Unlock()
	if len(fs) == 0 {
		return
	}
	sort.Slice(fs, func(i, j int) bool { return fs[i].rec.seq < fs[j].rec.seq })
	for _, fr := range fs {
		t := s.newTask(fr.rec.parent, "afterfunc")
		t.gate = fr.gate
		t.state = stRunnable
		fr.task = t
		if fr.rec.pending {
			fr.rec.pending = false
			s.inReal--
		}
	}
}

// TimerStop is (*time.Timer).Stop.
func TimerStop(tm *time.Timer) bool {
	s := cur
	if s == nil || s.dead || s.current == nil || s.afters[tm] == nil {
		return tm.Stop()
	}
	point()
	rec := s.afters[tm]
	ok := tm.Stop()
	if ok && rec.pending {
		rec.pending = false
		s.inReal--
	}
	return ok
}

// TimerReset is (*time.Timer).Reset.
func TimerReset(tm *time.Timer, d time.Duration) bool {
	s := cur
	if s == nil || s.dead || s.current == nil || s.afters[tm] == nil {
		return tm.Reset(d)
	}
	point()
	rec := s.afters[tm]
	active := tm.Reset(d)
	if !rec.pending {
		rec.pending = true
		s.inReal++
	}
	return active
}
