package simrt

import (
	"math/rand/v2"
)

// Decider is the single decision stream of a run: a PRNG in search mode, a list in replay mode.
// Every decision that was taken is recorded, so a recorded list replays the run exactly.
type Decider struct {
	rng    *rand.Rand
	replay []int
	pos    int
	rec    []int
}

// NewSearch creates a decision stream drawn from PCG(seed, run).
func NewSearch(seed, run uint64) *Decider {
	return &Decider{rng: rand.New(rand.NewPCG(seed, run))}
}

// NewReplay creates a decision stream that feeds the given list (zeros past its end).
func NewReplay(list []int) *Decider {
	if list == nil {
		list = []int{}
	}
	return &Decider{replay: list}
}

func (d *Decider) Recorded() []int { return d.rec }

func (d *Decider) next(n int, pick func(r *rand.Rand) int) int {
	if n <= 1 {
		return 0
	}
	v := 0
	if d.rng == nil {
		if d.pos < len(d.replay) {
			v = d.replay[d.pos] % n
			if v < 0 {
				v = -v
			}
		}
		d.pos++
	} else {
		v = pick(d.rng)
	}
	d.rec = append(d.rec, v)
	return v
}

const (
	stratRTB = iota
	stratUniform
	stratPCT
)

func (s *Sim) initStrategy() {
	r := s.dec.rng
	if r == nil {
		return
	}
	switch r.IntN(10) {
	case 0, 1, 2, 3, 4:
		s.strat = stratRTB
		s.preemptP = []float64{0.01, 0.03, 0.1, 0.2, 0.3, 0.5}[r.IntN(6)]
	case 5, 6:
		s.strat = stratUniform
	default:
		s.strat = stratPCT
		d := 1 + r.IntN(3)
		s.pctPoints = map[uint64]bool{}
		for i := 0; i < d; i++ {
			s.pctPoints[uint64(1+r.IntN(s.cfg.PCTSteps))] = true
		}
		s.pctLow = -1
	}
	if len(s.cfg.StallMenu) > 0 {
		s.stallP = []float64{0, 0, 0.005, 0.02, 0.1}[r.IntN(5)]
	}
}

// decide picks an index into opts. opts[0] is "continue the current task" when curT != nil.
func (s *Sim) decide(curT *Task, opts []option) int {
	n := len(opts)
	return s.dec.next(n, func(r *rand.Rand) int {
		nt := 0
		for _, o := range opts {
			if o.t != nil {
				nt++
			}
		}
		if nt < n && s.stallP > 0 && r.Float64() < s.stallP {
			return nt + r.IntN(n-nt)
		}
		if nt == 1 {
			return 0
		}
		switch s.strat {
		case stratRTB:
			if curT != nil {
				if r.Float64() >= s.preemptP {
					return 0
				}
				return 1 + r.IntN(nt-1)
			}
			return r.IntN(nt)
		case stratUniform:
			return r.IntN(nt)
		default: // PCT
			if curT != nil && s.pctPoints[s.step] {
				curT.prio = s.pctLow
				s.pctLow--
			}
			best := 0
			for i := 1; i < nt; i++ {
				if opts[i].t.prio > opts[best].t.prio {
					best = i
				}
			}
			return best
		}
	})
}

// Choose returns a workload/fault decision in [0,n); 0 is the "boring" value.
func (s *Sim) Choose(n int) int {
	return s.dec.next(n, func(r *rand.Rand) int { return r.IntN(n) })
}

// Chance is true with probability num/den in search mode; recorded as 0 (false) / 1 (true).
func (s *Sim) Chance(num, den int) bool {
	return s.dec.next(2, func(r *rand.Rand) int {
		if r.IntN(den) < num {
			return 1
		}
		return 0
	}) == 1
}

// Weighted picks an index with the given weights.
func (s *Sim) Weighted(w ...int) int {
	v := s.weighted(w...)
	// a replayed / shrunk decision may point at an entry with weight 0: move on to the next eligible one
	for i := 0; i < len(w) && w[v] == 0; i++ {
		v = (v + 1) % len(w)
	}
	return v
}

func (s *Sim) weighted(w ...int) int {
	return s.dec.next(len(w), func(r *rand.Rand) int {
		tot := 0
		for _, x := range w {
			tot += x
		}
		k := r.IntN(tot)
		for i, x := range w {
			if k < x {
				return i
			}
			k -= x
		}
		return 0
	})
}

// Replaying reports whether decisions come from a replay list.
func (s *Sim) Replaying() bool { return s.dec.rng == nil }

// Knob draws a per-run configuration value from the list.
func Knob[T any](s *Sim, vals ...T) T { return vals[s.Choose(len(vals))] }
