module verifsim

go 1.26
