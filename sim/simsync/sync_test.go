package simsync_test

// Self-tests of the simulator and of the sync models: each test states a behaviour of real Go `sync` / channels that
// the harness oracles rely on and shows that the seeded search (a) never produces a behaviour real Go forbids and
// (b) does reach the interleavings real Go allows (lost updates without a lock, recursive read-lock deadlock behind an
// announced writer, lost wake-up when signalling without the lock, WaitGroup.Wait racing with a late Add ...).
//
//	cd /verif/sim && GOFLAGS=-mod=mod GOPROXY=off GOSUMDB=off GOTOOLCHAIN=local go1.26.8 test ./...

import (
	"testing"
	"time"

	"verifsim/simrt"
	"verifsim/simsync"
)

// search runs body under many seeds and returns how many runs failed with the given oracle, and the total.
func search(t *testing.T, n int, cfg simrt.Config, body func(s *simrt.Sim)) (failures map[string]int) {
	t.Helper()
	failures = map[string]int{}
	for i := 0; i < n; i++ {
		res := simrt.RunOnce(t, cfg, simrt.NewSearch(7, uint64(i)), body)
		if res.Infra != "" {
			t.Fatalf("infrastructure error: %s", res.Infra)
		}
		if res.Failure != nil {
			failures[res.Failure.Oracle]++
			// replay must reproduce the same failure and the same log hash
			r2 := simrt.RunOnce(t, cfg, simrt.NewReplay(res.Decisions), body)
			if r2.Failure == nil || r2.Failure.Signature() != res.Failure.Signature() || r2.LogHash != res.LogHash {
				t.Fatalf("replay of run %d diverged: %+v vs %+v", i, res.Failure, r2.Failure)
			}
		}
	}
	return failures
}

func TestMutexExcludes(t *testing.T) {
	body := func(locked bool) func(s *simrt.Sim) {
		return func(s *simrt.Sim) {
			var mu simsync.Mutex
			x := 0
			for i := 0; i < 3; i++ {
				s.Go("inc", func() {
					if locked {
						mu.Lock()
					}
					v := x
					simrt.Yield()
					x = v + 1
					if locked {
						mu.Unlock()
					}
				})
			}
			s.Quiesce()
			if x != 3 {
				s.Fail("lost-update", "x", "x=%d", x)
			}
		}
	}
	if f := search(t, 300, simrt.Config{}, body(true)); len(f) != 0 {
		t.Fatalf("mutex let an update get lost: %v", f)
	}
	if f := search(t, 300, simrt.Config{}, body(false)); f["lost-update"] == 0 {
		t.Fatalf("the search never found the lost update of the unlocked version")
	}
}

func TestRWMutexWriterPreferenceAndRecursiveRead(t *testing.T) {
	// readers do not exclude each other; a recursive RLock deadlocks iff a writer announces itself in between
	f := search(t, 600, simrt.Config{}, func(s *simrt.Sim) {
		var mu simsync.RWMutex
		done := 0
		s.Go("reader", func() {
			mu.RLock()
			simrt.Yield()
			mu.RLock() // recursive
			mu.RUnlock()
			mu.RUnlock()
			done++
		})
		s.Go("writer", func() {
			mu.Lock()
			mu.Unlock()
			done++
		})
		left := s.Quiesce()
		if len(left) > 0 {
			s.Fail("deadlock", "recursive-rlock", "%v", left)
		}
		if done != 2 {
			s.Fail("lost", "done", "done=%d", done)
		}
	})
	if f["deadlock"] == 0 || f["lost"] != 0 {
		t.Fatalf("recursive read lock behind an announced writer: expected deadlocks to be reachable (and nothing else), got %v", f)
	}
	// without recursion never a deadlock, and the writer excludes readers
	f = search(t, 600, simrt.Config{}, func(s *simrt.Sim) {
		var mu simsync.RWMutex
		readers, writer := 0, false
		for i := 0; i < 2; i++ {
			s.Go("reader", func() {
				mu.RLock()
				if writer {
					s.Fail("exclusion", "r-while-w", "")
				}
				readers++
				simrt.Yield()
				readers--
				mu.RUnlock()
			})
		}
		s.Go("writer", func() {
			mu.Lock()
			if readers != 0 || writer {
				s.Fail("exclusion", "w-while-held", "")
			}
			writer = true
			simrt.Yield()
			writer = false
			mu.Unlock()
		})
		if left := s.Quiesce(); len(left) > 0 {
			s.Fail("deadlock", "plain", "%v", left)
		}
	})
	if len(f) != 0 {
		t.Fatalf("plain RWMutex use failed: %v", f)
	}
}

func TestCondLostWakeupOnlyWithoutLock(t *testing.T) {
	body := func(signalUnderLock bool) func(s *simrt.Sim) {
		return func(s *simrt.Sim) {
			var mu simsync.Mutex
			c := simsync.NewCond(&mu)
			ready := false
			s.Go("waiter", func() {
				mu.Lock()
				for !ready {
					c.Wait()
				}
				mu.Unlock()
			})
			s.Go("signaller", func() {
				if signalUnderLock {
					mu.Lock()
					ready = true
					mu.Unlock()
				} else {
					ready = true // plain write, no lock: the waiter may already have checked
				}
				c.Signal()
			})
			if left := s.Quiesce(); len(left) > 0 {
				s.Fail("lost-wakeup", "cond", "%v", left)
			}
		}
	}
	if f := search(t, 500, simrt.Config{}, body(true)); len(f) != 0 {
		t.Fatalf("cond used correctly lost a wake-up: %v", f)
	}
	if f := search(t, 500, simrt.Config{}, body(false)); f["lost-wakeup"] == 0 {
		t.Fatalf("the search never found the lost wake-up of the unlocked version")
	}
}

func TestWaitGroupLateAdd(t *testing.T) {
	// Wait returns when the counter is zero at that moment: an Add inside the spawned goroutine can come too late
	f := search(t, 400, simrt.Config{}, func(s *simrt.Sim) {
		var wg simsync.WaitGroup
		finished := false
		simrt.Go(func() {
			wg.Add(1)
			simrt.Yield()
			finished = true
			wg.Done()
		})
		wg.Wait()
		if !finished {
			s.Fail("early-return", "wait", "")
		}
		s.Quiesce()
	})
	if f["early-return"] == 0 {
		t.Fatalf("Wait racing with a late Add was never reached")
	}
}

func TestChannelsSelectAndClock(t *testing.T) {
	f := search(t, 400, simrt.Config{StallMenu: []time.Duration{time.Millisecond}}, func(s *simrt.Sim) {
		ch := make(chan int)
		got := -1
		start := time.Now()
		s.Go("sender", func() {
			simrt.Sleep(10 * time.Millisecond)
			simrt.Send(ch, 42)
		})
		s.Go("receiver", func() {
			got = simrt.Recv(ch)
			if time.Since(start) < 10*time.Millisecond {
				s.Fail("clock", "early", "received after %v", time.Since(start))
			}
		})
		if left := s.Quiesce(); len(left) > 0 {
			s.Fail("deadlock", "chan", "%v", left)
		}
		if got != 42 {
			s.Fail("value", "recv", "got %d", got)
		}
	})
	if len(f) != 0 {
		t.Fatalf("channel rendezvous on the fake clock failed: %v", f)
	}
}

func TestFreezeGroupIsACrash(t *testing.T) {
	f := search(t, 200, simrt.Config{}, func(s *simrt.Sim) {
		steps := 0
		s.GoGroup("victim", 7, func() {
			for i := 0; i < 5; i++ {
				simrt.Yield()
				steps++
			}
		})
		simrt.Yield()
		s.FreezeGroup(7)
		at := steps
		left := s.Quiesce()
		if steps != at {
			s.Fail("crash", "ran-after-freeze", "steps %d -> %d", at, steps)
		}
		if at < 5 && len(left) != 1 {
			s.Fail("crash", "not-reported", "%v", left)
		}
	})
	if len(f) != 0 {
		t.Fatalf("freeze: %v", f)
	}
}

func TestWaitGroupReusePanicsLikeGo(t *testing.T) {
	// a waiter released at zero that finds the counter raised again when it runs panics (sync.WaitGroup's reuse check);
	// the search reaches that interleaving, and never panics when the Add happens after Wait has returned
	body := func(addAfterReturn bool) func(s *simrt.Sim) {
		return func(s *simrt.Sim) {
			var wg simsync.WaitGroup
			wg.Add(1)
			returned := false
			s.Go("waiter", func() {
				defer func() {
					if r := recover(); r != nil {
						s.Fail("reuse", "panic", "%v", r)
					}
				}()
				wg.Wait()
				returned = true
			})
			s.Go("worker", func() {
				wg.Done()
				if addAfterReturn {
					for !returned {
						simrt.Yield()
					}
				}
				wg.Add(1)
				wg.Done()
			})
			s.Quiesce()
		}
	}
	if f := search(t, 400, simrt.Config{}, body(false)); f["reuse"] == 0 {
		t.Fatalf("the reuse panic was never reached")
	}
	if f := search(t, 400, simrt.Config{}, body(true)); len(f) != 0 {
		t.Fatalf("Add after Wait returned must be fine: %v", f)
	}
}

func TestAfterFuncRunsAsATaskOnTheFakeClock(t *testing.T) {
	f := search(t, 300, simrt.Config{StallMenu: []time.Duration{time.Millisecond}}, func(s *simrt.Sim) {
		start := time.Now()
		var mu simsync.Mutex
		fired, stoppedFired := 0, 0
		s.Go("arm", func() {
			simrt.AfterFunc(10*time.Millisecond, func() {
				mu.Lock() // the callback is a task: it can block on simulated locks like any other
				fired++
				if time.Since(start) < 10*time.Millisecond {
					s.Fail("clock", "early", "fired after %v", time.Since(start))
				}
				mu.Unlock()
			})
			tm := simrt.AfterFunc(20*time.Millisecond, func() { stoppedFired++ })
			if !simrt.TimerStop(tm) {
				s.Fail("stop", "inactive", "Stop of a pending timer returned false")
			}
		})
		s.Go("other", func() {
			mu.Lock()
			simrt.Yield()
			mu.Unlock()
		})
		// the pending timer keeps the run alive: Quiesce returns only after it has fired and its callback has finished
		if left := s.Quiesce(); len(left) > 0 {
			s.Fail("deadlock", "afterfunc", "%v", left)
		}
		if fired != 1 || stoppedFired != 0 {
			s.Fail("afterfunc", "count", "fired=%d stoppedFired=%d", fired, stoppedFired)
		}
	})
	if len(f) != 0 {
		t.Fatalf("AfterFunc model: %v", f)
	}
}
