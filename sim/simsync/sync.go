// Package simsync is an API-compatible replacement of package sync whose blocking is bookkeeping in
// the simulator: every operation is a scheduling point and no OS thread ever blocks. It implements the
// documented semantics of sync and nothing stronger (barging Mutex, writer-preferring RWMutex, FIFO
// Cond without spurious wake-ups).
package simsync

import (
	"sync"

	"verifsim/simrt"
)

type Locker = sync.Locker
type Pool = sync.Pool

func wakeAll(ws *[]*simrt.Task) {
	for _, t := range *ws {
		simrt.Wake(t)
	}
	*ws = (*ws)[:0]
}

// Mutex --------------------------------------------------------------------------------------------

type Mutex struct {
	held    bool
	waiters []*simrt.Task
}

func (m *Mutex) Lock() {
	t := simrt.Point()
	for m.held {
		if t == nil {
			simrt.PlainContended("Mutex.Lock")
			return
		}
		m.waiters = append(m.waiters, t)
		simrt.Block(t, "Mutex.Lock")
	}
	m.held = true
}

func (m *Mutex) TryLock() bool {
	simrt.Point()
	if m.held {
		return false
	}
	m.held = true
	return true
}

func (m *Mutex) Unlock() {
	if !m.held {
		if simrt.Dead() {
			return
		}
		panic("sync: unlock of unlocked mutex")
	}
	m.held = false
	wakeAll(&m.waiters)
	simrt.Point()
}

// RWMutex ------------------------------------------------------------------------------------------

type rwWaiter struct {
	t       *simrt.Task
	granted bool
}

type RWMutex struct {
	wHeld     bool // a writer owns the inner writer mutex (announced or active)
	wActive   bool // the writer has the lock
	readers   int
	rWaiters  []*rwWaiter   // readers blocked behind an announced/active writer
	wWaiters  []*simrt.Task // writers blocked on the inner mutex
	announced *simrt.Task   // writer waiting for readers to drain
}

func (m *RWMutex) RLock() {
	t := simrt.Point()
	if m.wHeld {
		if t == nil {
			simrt.PlainContended("RWMutex.RLock")
			return
		}
		w := &rwWaiter{t: t}
		m.rWaiters = append(m.rWaiters, w)
		for !w.granted {
			simrt.Block(t, "RWMutex.RLock")
		}
		return // reader count was raised by the releasing writer
	}
	m.readers++
}

func (m *RWMutex) TryRLock() bool {
	simrt.Point()
	if m.wHeld {
		return false
	}
	m.readers++
	return true
}

func (m *RWMutex) RUnlock() {
	if m.readers <= 0 {
		if simrt.Dead() {
			return
		}
		panic("sync: RUnlock of unlocked RWMutex")
	}
	m.readers--
	if m.readers == 0 && m.announced != nil {
		simrt.Wake(m.announced)
	}
	simrt.Point()
}

func (m *RWMutex) Lock() {
	t := simrt.Point()
	for m.wHeld {
		if t == nil {
			simrt.PlainContended("RWMutex.Lock")
			return
		}
		m.wWaiters = append(m.wWaiters, t)
		simrt.Block(t, "RWMutex.Lock")
	}
	m.wHeld = true // announced: new readers block from here on
	for m.readers > 0 {
		if t == nil {
			simrt.PlainContended("RWMutex.Lock")
			return
		}
		m.announced = t
		simrt.Block(t, "RWMutex.Lock(readers)")
	}
	m.announced = nil
	m.wActive = true
}

func (m *RWMutex) TryLock() bool {
	simrt.Point()
	if m.wHeld || m.readers > 0 {
		return false
	}
	m.wHeld = true
	m.wActive = true
	return true
}

func (m *RWMutex) Unlock() {
	if !m.wActive {
		if simrt.Dead() {
			return
		}
		panic("sync: Unlock of unlocked RWMutex")
	}
	m.wActive = false
	m.wHeld = false
	// blocked readers are granted the lock by the releasing writer (as in Go)
	for _, w := range m.rWaiters {
		w.granted = true
		m.readers++
		simrt.Wake(w.t)
	}
	m.rWaiters = m.rWaiters[:0]
	wakeAll(&m.wWaiters)
	simrt.Point()
}

func (m *RWMutex) RLocker() Locker { return (*rlocker)(m) }

type rlocker RWMutex

func (r *rlocker) Lock()   { (*RWMutex)(r).RLock() }
func (r *rlocker) Unlock() { (*RWMutex)(r).RUnlock() }

// Cond ---------------------------------------------------------------------------------------------

type condWaiter struct {
	t        *simrt.Task
	signaled bool
}

type Cond struct {
	L       Locker
	waiters []*condWaiter
}

func NewCond(l Locker) *Cond { return &Cond{L: l} }

func (c *Cond) Wait() {
	// a scheduling point before the waiter is enqueued: the window between the caller's condition check and its
	// registration as a waiter exists in real Go as well
	simrt.Point()
	t := simrt.Current()
	if t == nil {
		if simrt.Dead() {
			return
		}
		simrt.PlainContended("Cond.Wait")
		return
	}
	w := &condWaiter{t: t}
	c.waiters = append(c.waiters, w) // enqueue before unlocking (notifyListAdd)
	c.L.Unlock()
	for !w.signaled {
		simrt.Block(t, "Cond.Wait")
	}
	c.L.Lock()
}

func (c *Cond) Signal() {
	simrt.Point()
	if len(c.waiters) > 0 {
		w := c.waiters[0]
		c.waiters = c.waiters[1:]
		w.signaled = true
		simrt.Wake(w.t)
	}
}

func (c *Cond) Broadcast() {
	simrt.Point()
	for _, w := range c.waiters {
		w.signaled = true
		simrt.Wake(w.t)
	}
	c.waiters = nil
}

// WaitGroup ----------------------------------------------------------------------------------------

type WaitGroup struct {
	n       int
	waiters []*simrt.Task
}

func (wg *WaitGroup) Add(delta int) {
	simrt.Point()
	wg.n += delta
	if wg.n < 0 {
		if simrt.Dead() {
			wg.n = 0
			return
		}
		panic("sync: negative WaitGroup counter")
	}
	if wg.n == 0 {
		wakeAll(&wg.waiters)
	}
}

func (wg *WaitGroup) Done() { wg.Add(-1) }

func (wg *WaitGroup) Wait() {
	t := simrt.Point()
	if wg.n > 0 {
		if t == nil {
			simrt.PlainContended("WaitGroup.Wait")
			return
		}
		wg.waiters = append(wg.waiters, t)
		simrt.Block(t, "WaitGroup.Wait")
		// like sync.WaitGroup: a waiter that was released at zero and finds the counter raised again by the time it runs
		// panics ("new Add calls must happen after all previous Wait calls have returned")
		if wg.n != 0 && !simrt.Dead() {
			panic("sync: WaitGroup is reused before previous Wait has returned")
		}
	}
}

func (wg *WaitGroup) Go(f func()) {
	wg.Add(1)
	simrt.Go(func() {
		defer wg.Done()
		f()
	})
}

// Once ---------------------------------------------------------------------------------------------

type Once struct {
	done    bool
	running bool
	waiters []*simrt.Task
}

func (o *Once) Do(f func()) {
	t := simrt.Point()
	if o.done {
		return
	}
	for o.running {
		if t == nil {
			simrt.PlainContended("Once.Do")
			return
		}
		o.waiters = append(o.waiters, t)
		simrt.Block(t, "Once.Do")
		if o.done {
			return
		}
	}
	if o.done {
		return
	}
	o.running = true
	defer func() {
		o.done = true
		o.running = false
		wakeAll(&o.waiters)
	}()
	f()
}

func OnceFunc(f func()) func() {
	var o Once
	return func() { o.Do(f) }
}

func OnceValue[T any](f func() T) func() T {
	var o Once
	var v T
	return func() T { o.Do(func() { v = f() }); return v }
}

func OnceValues[T1, T2 any](f func() (T1, T2)) func() (T1, T2) {
	var o Once
	var v1 T1
	var v2 T2
	return func() (T1, T2) { o.Do(func() { v1, v2 = f() }); return v1, v2 }
}

// Map ----------------------------------------------------------------------------------------------

// Map is a sync.Map with deterministic Range order (insertion order).
type Map struct {
	m    map[any]any
	keys []any
}

func (m *Map) Load(key any) (any, bool) {
	simrt.Point()
	v, ok := m.m[key]
	return v, ok
}

func (m *Map) Store(key, value any) {
	simrt.Point()
	m.store(key, value)
}

func (m *Map) store(key, value any) {
	if m.m == nil {
		m.m = map[any]any{}
	}
	if _, ok := m.m[key]; !ok {
		m.keys = append(m.keys, key)
	}
	m.m[key] = value
}

func (m *Map) LoadOrStore(key, value any) (any, bool) {
	simrt.Point()
	if v, ok := m.m[key]; ok {
		return v, true
	}
	m.store(key, value)
	return value, false
}

func (m *Map) LoadAndDelete(key any) (any, bool) {
	simrt.Point()
	v, ok := m.m[key]
	if ok {
		m.del(key)
	}
	return v, ok
}

func (m *Map) del(key any) {
	delete(m.m, key)
	for i, k := range m.keys {
		if k == key {
			m.keys = append(m.keys[:i:i], m.keys[i+1:]...)
			break
		}
	}
}

func (m *Map) Delete(key any) {
	simrt.Point()
	if _, ok := m.m[key]; ok {
		m.del(key)
	}
}

func (m *Map) Swap(key, value any) (any, bool) {
	simrt.Point()
	v, ok := m.m[key]
	m.store(key, value)
	return v, ok
}

func (m *Map) CompareAndSwap(key, old, new any) bool {
	simrt.Point()
	if v, ok := m.m[key]; ok && v == old {
		m.m[key] = new
		return true
	}
	return false
}

func (m *Map) CompareAndDelete(key, old any) bool {
	simrt.Point()
	if v, ok := m.m[key]; ok && v == old {
		m.del(key)
		return true
	}
	return false
}

func (m *Map) Range(f func(key, value any) bool) {
	simrt.Point()
	keys := append([]any(nil), m.keys...)
	for _, k := range keys {
		v, ok := m.m[k]
		if !ok {
			continue
		}
		if !f(k, v) {
			return
		}
	}
}

func (m *Map) Clear() {
	simrt.Point()
	m.m = nil
	m.keys = nil
}
