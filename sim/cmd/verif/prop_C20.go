package main

func init() {
	register(&Prop{
		ID: "C20", Title: "Daemon stops background workers in descending shutdown order", Level: "exploration",
		Subs: []Sub{
			{Pkg: "daemon", Harness: "daemon", Weight: 3, Note: "everything may overlap: Start/Run, registrations, worker exits, 1-3 Shutdown/ShutdownAndWait callers"},
			{Pkg: "daemon", Harness: "daemon", Config: "startfirst", Weight: 2, Note: "the daemon is running before any registrar or shutdown caller moves"},
			{Pkg: "daemon", Harness: "daemon", Config: "startfirst,nolate", Weight: 3, Note: "additionally every registration has returned before the first shutdown call: ordering, waiting and re-registration without the registration/shutdown window"},
		},
		QuickS: 30, ThoroughS: 900,
		Rule:  "each run draws 1-5 initial workers (orders from {-2,-1,0,1,1,3,7}; bodies: return on cancel, yield or sleep on the fake clock after the cancel, return on their own after yields or a sleep, wait for their equal-order peers' cancellation), who starts the daemon (main: Start, a task: Start, a task: Run), 0-2 registrar tasks with 1-2 BackgroundWorker calls each (new name or the name of an initial worker, finished or running at that moment), 1-3 Shutdown/ShutdownAndWait callers with drawn delays, optional BackgroundWorker/Start calls after ShutdownAndWait returned, and a schedule; distinct = distinct (configuration, schedule, event log) hash; non-trivial = at least two recorded decisions",
		Real:  []string{"app/daemon (OrderedDaemon: BackgroundWorker, Start, Run, Shutdown, ShutdownAndWait, worker goroutines, per-order wait groups)", "runtime/syncutils (RWMutex)", "context (real; cancellation is a scheduling point followed by a settle step)"},
		Stubs: commonStubs,
		Assume: []string{
			"one task executes at a time; context switches only at sync/atomic/channel/select/go/context-cancel operations and at the explicit points inside worker bodies",
			"a worker has 'returned' when its handler reaches its last statement; its context counts as cancelled from the first event (any worker's start/cancel/return, ShutdownAndWait return, quiescence) at which ctx.Err() is non-nil while its body runs, or when its own <-ctx.Done() returns",
			"Run is held to workers whose registration returned before Run was invoked (DESIGN section 5, readings fixed in advance)",
			"a registration that did not return before the first Shutdown/ShutdownAndWait invocation may be refused or accepted; if its worker starts it must be cancelled and awaited; violations involving such a worker carry the suffix :registered-during-shutdown, violations in runs where a shutdown call was invoked before the daemon was observed running and no context was ever cancelled carry :start-overlaps-shutdown",
			"liveness (worker left running, caller blocked) is judged at quiescence only",
			"bounded: <=5 initial workers, <=4 late registrations, <=3 shutdown callers",
		},
	})
}
