package main

func init() {
	register(&Prop{
		ID: "C18", Title: "Timed queue/executor: never early, at most once, cancel honoured", Level: "exploration",
		Subs: []Sub{
			{Pkg: "timed", Harness: "queue", Weight: 3},
			{Pkg: "timed", Harness: "executor", Weight: 2},
			{Pkg: "timed", Harness: "taskexec", Weight: 3},
		},
		QuickS: 30, ThoroughS: 900,
		Rule:   "each run draws (queue) max size 0-3, shutdown flags, 1-2 adders x 1-3 elements with due times before/at/after now, cancels after a drawn number of steps, 1-3 pollers, a Shutdown caller; monotone size-bound leg: one adder with strictly increasing due times (the bound then drops the newcomer under any reading of 'furthest in the future'), Cancel of earlier handles incl. dropped ones in between, exact content model (Size after every call, delivered set at the end); (executor) 1-3 workers, jobs that sleep on the fake clock, cancels, shutdown flags; (taskexec) 1-2 workers, 1-3 actors x 1-4 ExecuteAt/Cancel on 2-3 identifiers, optionally WithMaxQueueSize(>= number of identifiers), which may never drop anything, with callbacks that sleep so that re-scheduling overlaps a running callback; the scheduler also offers clock stalls (1ms/20ms/2s) while tasks are runnable; distinct = distinct (workload, schedule, event log) hash; non-trivial = at least two recorded decisions",
		Real:   []string{"runtime/timed (Queue, Executor, TaskExecutor, HeapKey)", "ds/generalheap, ds/shrinkingmap", "runtime/timeutil"},
		Stubs:  commonStubs,
		Assume: []string{"delivery time is the fake clock read at delivery; timers fire only when the scheduler advances the clock", "before/after clauses are judged on non-overlapping call intervals (global step numbers); overlapping calls may go either way", "Shutdown termination is not an oracle (the statement does not require it); stuck pollers/shutdown are counted as probes"},
	})
}
