package main

func init() {
	register(&Prop{
		ID: "C17", Title: "Starving/DAG mutexes, Counter and Stack waits", Level: "exploration",
		Subs: []Sub{
			{Pkg: "locks", Harness: "starving", Weight: 3},
			{Pkg: "locks", Harness: "dag", Weight: 3},
			{Pkg: "locks", Harness: "misuse", Weight: 1},
			{Pkg: "locks", Harness: "counter", Weight: 2},
			{Pkg: "locks", Harness: "stack", Weight: 2},
		},
		QuickS: 25, ThoroughS: 600,
		Rule:   "each run draws a script (2-4 threads x 1-3 lock/unlock segments on 1-3 entities, read or write, hold lengths; or waiter/updater mixes) and a schedule from one seeded decision stream; distinct = distinct hash of (script, context-switch sequence, event log); non-trivial = at least two recorded decisions",
		Real:   []string{"runtime/syncutils (StarvingMutex, DAGMutex, Counter, Stack) rewritten mechanically", "ds/shrinkingmap, ds/orderedmap"},
		Stubs:  commonStubs,
		Assume: []string{"one task executes at a time; context switches only at sync/atomic/channel operations (plain-memory races are invisible)", "bounded scripts: a violation needing more threads/operations than generated is not found"},
	})
}
