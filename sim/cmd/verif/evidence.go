package main

import (
	"encoding/json"
	"fmt"
	"os"
	"path/filepath"
	"sort"
)

func writeEvidence(p *Prop, tier string, seed uint64, results []*subResult, violations int, wall, buildS float64, known []string) {
	var runs, steps, switches, capped, leaked, failed, nontriv, distinct, distLogs uint64
	var simNs int64
	faults := map[string]int{}
	probes := map[string]int{}
	var samples []any
	var subs []map[string]any
	searchWall := 0.0
	for _, r := range results {
		runs += r.runs
		steps += r.steps
		switches += r.switches
		capped += r.capped
		leaked += r.leaked
		failed += r.failed
		nontriv += r.nontriv
		distinct += r.distinct
		distLogs += r.distLogs
		simNs += int64(r.simTime)
		searchWall += r.wall
		for k, v := range r.faults {
			faults[r.sub.Harness+":"+k] += v
		}
		for k, v := range r.probes {
			probes[r.sub.Harness+":"+k] += v
		}
		for _, s := range r.samples {
			var v any
			if json.Unmarshal(s, &v) == nil {
				samples = append(samples, map[string]any{"harness": r.sub.Pkg + "/" + r.sub.Harness, "config": r.sub.Config, "case": v})
			}
		}
		sigs := []string{}
		for sig, f := range r.failures {
			sigs = append(sigs, fmt.Sprintf("%s x%d", sig, f.Count))
		}
		sort.Strings(sigs)
		subs = append(subs, map[string]any{
			"harness": r.sub.Pkg + "/" + r.sub.Harness, "config": r.sub.Config, "runs": r.runs, "steps": r.steps,
			"context_switches": r.switches, "runs_step_capped": r.capped, "distinct_executions": r.distinct,
			"distinct_nontrivial_event_logs": r.distLogs, "failed_runs": r.failed, "failure_signatures": sigs, "wall_s": r.wall,
			"simulated_time_s": r.simTime.Seconds(),
		})
	}
	// the distinct counts are hash-sampled estimates above 131072 per worker: never report more than was run
	if distLogs > nontriv {
		distLogs = nontriv
	}
	if distinct > runs {
		distinct = runs
	}
	if len(samples) == 0 {
		samples = append(samples, "no non-trivial sample was recorded in this run")
	}
	if len(samples) > 6 {
		samples = samples[:6]
	}
	perHour := 0.0
	if searchWall > 0 {
		perHour = float64(runs) / searchWall * 3600
	}
	ev := map[string]any{
		"property_id": p.ID,
		"tier":        tier,
		"seed":        seed,
		"level":       p.Level,
		"wall_s":      wall,
		"violations":  violations,
		"assumptions": p.Assume,
		"coverage": map[string]any{
			"evaluations":            runs,
			"distinct_nontrivial":    distLogs,
			"rule":                   p.Rule + "; distinct_nontrivial counts distinct event-log hashes among non-trivial runs (hash-sampled estimate when a worker saw more than 131072 distinct hashes, exact otherwise), summed over harness configurations",
			"samples":                samples,
			"simulated_runs":         runs,
			"runs_per_hour":          perHour,
			"scheduler_steps":        steps,
			"context_switches":       switches,
			"simulated_time_s":       float64(simNs) / 1e9,
			"distinct_executions":    distinct,
			"nontrivial_runs":        nontriv,
			"runs_step_capped":       capped,
			"runs_with_leaked_tasks": leaked,
			"failed_runs":            failed,
			"faults_injected":        faults,
			"probes":                 probes,
			"per_harness":            subs,
			"known_findings_seen":    known,
			"build_s":                buildS,
			"components_real":        p.Real,
			"components_stub":        p.Stubs,
			"exhaustive":             false,
		},
	}
	os.MkdirAll(filepath.Join(verifDir, "evidence"), 0o755)
	writeJSON(filepath.Join(verifDir, "evidence", p.ID+".json"), ev)
}
