package main

func init() {
	register(&Prop{
		ID: "C05", Title: "KVStore operations are linearizable under concurrent use", Level: "exploration",
		Subs: []Sub{
			{Pkg: "kvsim", Harness: "conc", Weight: 4},
			{Pkg: "kvsim", Harness: "conc", Config: "wide", Weight: 1, Note: "5-8 clients x 2 calls"},
			{Pkg: "kvsim", Harness: "sharedbatch", Weight: 1, Note: "one batch object shared by 2-3 filling and 1-2 committing tasks: a write recorded before a Commit was invoked has taken effect when it returns"},
		},
		QuickS: 30, ThoroughS: 900,
		Rule:   "each run draws 2-4 views of ONE mapdb (realms from {\"\",a,ab,b}, WithRealm / WithExtendedRealm, each wrapped by a drawn stack of flushkv/debug), a pool of 2-4 full keys, an initial content, 2-4 clients (wide: 5-8) with 3-8 calls each (wide: 2) out of Get, Has, Set, Delete, DeletePrefix, Clear, Iterate/IterateKeys (direction, stop after 0-2, consumer optionally yields), Batched+Commit of 1-3 Set/Delete entries, and in a quarter of the runs one Close; then a schedule; distinct = distinct hash of (script, context-switch sequence, results); non-trivial = at least two recorded decisions",
		Real:   []string{"kvstore/mapdb (mapDB, syncedKVMap, batchedMutations)", "kvstore/flushkv", "kvstore/debug", "kvstore/utils", "github.com/anishathalye/porcupine v1.3.0 (checker, un-rewritten)"},
		Stubs:  append([]string{"sequential specification = the C04 model (one ordered map keyed by realm||key + closed flag), validated call by call against the real store by C04"}, commonStubs...),
		Assume: []string{"one task executes at a time; context switches only at sync/atomic operations inside hive.go and at explicit yields: plain-memory data races are invisible, the 'free of data races' clause is NOT checked here", "a committed batch is one write per key, all sharing the Commit call's interval; an Iterate is one snapshot read of the (possibly truncated) ordered entry list", "a write that returned ErrStoreClosed while a Close call was in flight may or may not have taken effect (Close racing with writers is legal, DESIGN 5/C05)", "bounded: <=8 clients, <=32 calls, <=6 full keys per run; 2..16 goroutines of the statement sampled at 2..8"},
	})
}
