package main

func init() {
	register(&Prop{
		ID: "C16", Title: "WorkerPool conserves tasks and always shuts down", Level: "exploration",
		Subs: []Sub{
			{Pkg: "workerpool", Harness: "pool", Weight: 3},
			{Pkg: "workerpool", Harness: "restart", Weight: 2},
			{Pkg: "workerpool", Harness: "restart", Config: "nowait", Weight: 2, Note: "Start is called right after Shutdown returned, without waiting for ShutdownComplete"},
			{Pkg: "workerpool", Harness: "group", Weight: 2},
			{Pkg: "workerpool", Harness: "grouptree", Weight: 2, Note: "root -> mid -> leaf, waits on every level, a subgroup shut down while submitters run"},
		},
		QuickS: 30, ThoroughS: 900,
		Rule:   "each run draws a pool configuration (1-3 workers, cancel-on-shutdown on/off, optional restart cycles, optional group tree; grouptree: root -> mid -> leaf with 1-2 pools per level, WaitChildren / WaitParents callers on every level, optionally Shutdown of a subgroup while submitters are at work), 1-3 submitters with 1-3 tasks each (tasks yield and may submit nested tasks), a Shutdown/ShutdownComplete.Wait caller, waiters, and a schedule; distinct = distinct (configuration, schedule, event log) hash; non-trivial = at least two recorded decisions",
		Real:   []string{"runtime/workerpool (WorkerPool, Task, Group)", "runtime/syncutils (Counter, Stack)", "ds/orderedmap"},
		Stubs:  commonStubs,
		Assume: []string{"one task executes at a time; context switches only at sync/atomic/channel/select/go operations", "accepted = the pending counter was raised inside the Submit call (observed through PendingTasksCounter.Subscribe)", "WaitChildren/WaitParents may only return if at some instant of the call nothing was pending below the group; pending is bounded from below by a ghost (+1 when an accepted Submit has returned, -1 when the task function finished, cancelled tasks -1 retroactively at the step their Shutdown was invoked), evaluated after quiescence", "bounded: <=3 submitters x <=3 tasks, <=3 restart cycles"},
	})
}
