package main

func init() {
	register(&Prop{
		ID: "C02", Title: "Decoders are total and resource-bounded on arbitrary input", Level: "fault_enumeration",
		Subs: []Sub{
			{Pkg: "codec", Harness: "faultdecode", Config: "serix", Weight: 4, Note: "serix Decode (validation on/off) on faulted encodings of every zoo type"},
			{Pkg: "codec", Harness: "faultdecode", Config: "stream", Weight: 3, Note: "stream Read* helpers on a truncating / failing / corrupting reader"},
			{Pkg: "codec", Harness: "faultdecode", Config: "deser", Weight: 3, Note: "Deserializer primitives on faulted Serializer output"},
			{Pkg: "codec", Harness: "faultdecode", Config: "json", Weight: 3, Note: "MapDecode / JSONDecode on faulted document trees and texts"},
			{Pkg: "codec", Harness: "faultdecode", Config: "somap", Weight: 1, Note: "SerializableOrderedMap.Decode"},
		},
		QuickS: 40, ThoroughS: 900,
		Rule:   "TODO",
		Real:   []string{"TODO"},
		Stubs:  commonStubs,
		Assume: []string{"TODO"},
	})
}
