package main

func init() {
	register(&Prop{
		ID: "C02", Title: "Decoders are total and resource-bounded on arbitrary input", Level: "fault_enumeration",
		Subs: []Sub{
			{Pkg: "codec", Harness: "faultdecode", Config: "serix", Weight: 4, Note: "serix Decode, validation on/off, on faulted encodings of every zoo type"},
			{Pkg: "codec", Harness: "faultdecode", Config: "stream", Weight: 3, Note: "stream Read / ReadBytes / ReadBytesWithSize / ReadObject(+WithSize) / ReadCollection / PeekSize on a corrupting, truncating or failing reader"},
			{Pkg: "codec", Harness: "faultdecode", Config: "deser", Weight: 3, Note: "15 Deserializer methods in 17 variants (ReadNum x3, ReadBool, ReadByte, ReadUint256, ReadTime, ReadBytes, ReadBytesInPlace, ReadVariableByteSlice, ReadString, ReadPayloadLength, ReadSequenceOfObjects, ReadSliceOfObjects, ReadObject, ReadPayload, Skip) on faulted Serializer output"},
			{Pkg: "codec", Harness: "faultdecode", Config: "json", Weight: 3, Note: "MapDecode / JSONDecode on faulted document trees and texts"},
			{Pkg: "codec", Harness: "faultdecode", Config: "somap", Weight: 1, Note: "SerializableOrderedMap.Decode"},
		},
		QuickS: 40, ThoroughS: 900,
		Rule:  "inputs are faulted stored data: each run draws one entry point of the configuration's family, a valid encoding produced by the real encoder (serix Encode of a zoo value / Write* helpers / Serializer chain / JSONEncode), and ONE fault class, then enumerates that class on that encoding: truncate = every proper prefix; structural-flip = every byte of every length prefix, element count, type code, optional marker and bool (positions known from the reference encoder's layout marks) x 5 variants (^01 ^80 =ff =00 +1); inflated-prefix = every length/count/optional prefix x (0xff,0x80 | 0xffff,0x8000,0x100 | 2^17,2^20 | for 8-byte prefixes also 2^63, 2^64-1, 2^63-1; 2^31 or 2^32-1 on one prefix in 1 of 400 such runs); transport-error (stream family) = reader fails at every offset 0..len; data-flip = 24 sampled 1-3 byte flips; splice = 16 sampled region duplications / drops / overwrites; JSON: wrong-json-type = every value site of the document x 19 replacement values (null, bool, number, negative, fraction, 1e40, string, 1-character strings, empty string, hex string, bare and odd hex prefixes, numeric string, 26-digit numeric string, array, empty array, object, empty object), array-resized = every array one longer / one shorter / doubled, key-dropped = every member, key-duplicated = every top-level key x 14 values (text level), truncate = every prefix of the text, data-flip sampled. Each enumeration starts at a decision-chosen rotation (positions, variants, values), because a run ends at its first violation. Oracle per call, under recover: returns a value or an error (no panic); reported consumed bytes <= len(input); every call with an inflated prefix and every 8th other call is measured: runtime.MemStats.TotalAlloc delta <= 64*len(input)+64KiB (single task, nothing else allocates) and process CPU time <= 3 s (iteration bound). distinct = distinct (entry point, encoding, fault class, outcome summary) hash; all runs non-trivial",
		Real:  []string{"serializer/serix Decode/MapDecode/JSONDecode", "serializer.Deserializer and Serializer", "serializer/stream read helpers", "ds/serializableorderedmap", "encoding/json (real)"},
		Stubs: append([]string{"storage / transport under the decoders (fault injector over valid encodings; simio reader with truncation and injected errors)"}, commonStubs...),
		Assume: []string{
			"restricted claim: totality and boundedness are decided on byte strings / documents reachable by the listed faults from a valid encoding of the zoo; arbitrary byte strings not reachable that way are fuzzing of a pure function and are not claimed",
			"complete per generated encoding and chosen class only when the run meets no violation; a run stops at its first violation (all open known findings do), the rotation spreads the remaining variants over other runs",
			"magnitude limit: for 4/8-byte prefixes that a decoder allocates from (stream ReadBytes family, ReadVariableByteSlice / serix []byte) byte 2 is only flipped in its lowest bit and bytes 3.. are never flipped, and byte-shifting faults (splice) are replaced by flips on such inputs: a trusted prefix of 2^31..2^32 zeroes gigabytes per call and 2^33..2^47 on an 8-byte prefix aborts the process (unrecoverable runtime out-of-memory), which no in-process harness survives. The defect itself is exercised at 2^17/2^20 in every inflate run and at 2^31/2^32-1 in rare runs",
			"the one uint32-prefixed []byte of the zoo is the first field of its own type (blob32) and is never used as a nested payload, so that no fault in front of it shifts random bytes into its prefix",
			"iteration bound by CPU time is a coarse proxy: only a loop of >3 s on an input of a few hundred bytes is flagged; slices of zero-size elements (where any count is 'holdable' by the input) are not in the zoo",
			"JSON duplicate keys only at the top level (text); the tree form cannot express them",
		},
	})
}
