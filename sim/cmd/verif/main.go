// verif is the check runner: it rebuilds a rewritten scratch copy of /repo's working tree, builds
// the harness of a property, fans out seeded worker processes, minimises and replays any violation,
// compares it with /verif/known_findings.json and writes /verif/evidence/<id>.json.
//
//	verif check <ID> [--tier quick|thorough]
//	verif replay <replay-file>
//	verif selftest determinism <ID>
//
// Exit codes: 0 property held on everything explored (known findings are printed), 1 violation
// (line "VIOLATION property=<id> replay=<path>"), 2 infrastructure trouble (never a verdict).
package main

import (
	"encoding/json"
	"errors"
	"flag"
	"fmt"
	"os"
	"os/exec"
	"path/filepath"
	"sort"
	"strconv"
	"strings"
	"sync"
	"time"

	"verifsim/simrt"
)

const goBin = "/opt/veriftools/go1.26.8/bin/go"

// verifDir is the directory this binary was built into (<verifDir>/bin/verif): /verif normally, a snapshot worktree
// for background runs.
var verifDir = func() string {
	if exe, err := os.Executable(); err == nil {
		if d := filepath.Dir(filepath.Dir(exe)); fileExists(filepath.Join(d, "harness")) {
			return d
		}
	}
	return "/verif"
}()

func fileExists(p string) bool { _, err := os.Stat(p); return err == nil }

// repoDir is /repo; VERIF_REPO (development aid, never set by registered commands) points the build at
// a private copy, e.g. to try a deliberate property-breaking edit without touching /repo.
var repoDir = envOr("VERIF_REPO", "/repo")

func goEnv() []string {
	env := os.Environ()
	env = append(env, "GOFLAGS=-mod=mod", "GOPROXY=off", "GOSUMDB=off", "GOTOOLCHAIN=local",
		"PATH=/opt/veriftools/go1.26.8/bin:"+os.Getenv("PATH"))
	return env
}

func infra(format string, args ...any) {
	fmt.Fprintf(os.Stderr, "verif: infrastructure error: "+format+"\n", args...)
	os.Exit(2)
}

func main() {
	if len(os.Args) < 2 {
		fmt.Fprintln(os.Stderr, "usage: verif check <ID> [--tier quick|thorough] | replay <file> | selftest determinism <ID> | list")
		os.Exit(2)
	}
	switch os.Args[1] {
	case "check":
		fs := flag.NewFlagSet("check", flag.ExitOnError)
		tier := fs.String("tier", envOr("VERIF_TIER", "quick"), "quick|thorough")
		budget := fs.Int("budget", 0, "override search budget in seconds")
		keep := fs.Bool("keep", false, "keep the scratch directory")
		native := fs.Bool("native", false, "cross-check: run the sequential (Native) harness configurations against the UN-rewritten tree")
		if len(os.Args) < 3 {
			infra("check needs a property id")
		}
		id := os.Args[2]
		fs.Parse(os.Args[3:])
		keepScratch = *keep
		nativeMode = *native
		os.Exit(check(id, *tier, *budget, *keep))
	case "replay":
		if len(os.Args) < 3 {
			infra("replay needs a file")
		}
		os.Exit(replayCmd(os.Args[2]))
	case "selftest":
		if len(os.Args) < 4 || os.Args[2] != "determinism" {
			infra("usage: verif selftest determinism <ID>")
		}
		os.Exit(determinism(os.Args[3]))
	case "list":
		for _, p := range props {
			fmt.Println(p.ID, p.Title)
		}
	default:
		infra("unknown command %s", os.Args[1])
	}
}

func envOr(k, d string) string {
	if v := os.Getenv(k); v != "" {
		return v
	}
	return d
}

func seedEnv() uint64 {
	if v := os.Getenv("VERIF_SEED"); v != "" {
		if n, err := strconv.ParseUint(v, 10, 64); err == nil {
			return n
		}
		if n, err := strconv.ParseInt(v, 10, 64); err == nil {
			return uint64(n)
		}
	}
	return 1
}

// ---------------------------------------------------------------------------------------------
// build

type scratch struct {
	dir string
}

var rewriteArgs = []string{
	"runtime:./...", "ds:./...", "kvstore:./ ./mapdb/... ./flushkv/... ./debug/... ./utils/...",
	"app:./daemon/...", "ads:./...", "serializer:./...", "lo:./...", "core:./...",
}

var hiveMods = map[string]string{
	"github.com/iotaledger/hive.go/ads":           "ads",
	"github.com/iotaledger/hive.go/app":           "app",
	"github.com/iotaledger/hive.go/constraints":   "constraints",
	"github.com/iotaledger/hive.go/core":          "core",
	"github.com/iotaledger/hive.go/crypto":        "crypto",
	"github.com/iotaledger/hive.go/ds":            "ds",
	"github.com/iotaledger/hive.go/ierrors":       "ierrors",
	"github.com/iotaledger/hive.go/kvstore":       "kvstore",
	"github.com/iotaledger/hive.go/lo":            "lo",
	"github.com/iotaledger/hive.go/log":           "log",
	"github.com/iotaledger/hive.go/runtime":       "runtime",
	"github.com/iotaledger/hive.go/serializer/v2": "serializer",
	"github.com/iotaledger/hive.go/stringify":     "stringify",
	"github.com/iotaledger/hive.go/web":           "web",
}

func run(dir string, env []string, name string, args ...string) (string, error) {
	cmd := exec.Command(name, args...)
	cmd.Dir = dir
	cmd.Env = env
	out, err := cmd.CombinedOutput()
	return string(out), err
}

func prepare(tag string, pkgs []string, native bool) *scratch {
	base := filepath.Join(os.TempDir(), "verif-scratch")
	os.MkdirAll(base, 0o755)
	dir, err := os.MkdirTemp(base, tag+"-")
	if err != nil {
		infra("mkdtemp: %v", err)
	}
	sc := &scratch{dir: dir}
	fail := func(format string, args ...any) {
		os.RemoveAll(dir)
		infra(format, args...)
	}
	if out, err := run("/", nil, "rsync", "-a", "--exclude", ".git", repoDir+"/", dir+"/repo/"); err != nil {
		fail("rsync: %v\n%s", err, out)
	}
	if !native {
		args := append([]string{"-root", dir + "/repo"}, rewriteArgs...)
		if out, err := run(dir, goEnv(), filepath.Join(verifDir, "bin", "simgen"), args...); err != nil {
			fail("simgen: %v\n%s", err, out)
		}
	}
	if out, err := run("/", nil, "rsync", "-a", "--exclude", "go.mod", "--exclude", "go.sum", filepath.Join(verifDir, "harness")+"/", dir+"/harness/"); err != nil {
		fail("rsync harness: %v\n%s", err, out)
	}
	var mod strings.Builder
	mod.WriteString("module verifharness\n\ngo 1.26\n\nrequire (\n\tverifsim v0.0.0\n\tgithub.com/anishathalye/porcupine v1.3.0\n")
	names := make([]string, 0, len(hiveMods))
	for m := range hiveMods {
		names = append(names, m)
	}
	sort.Strings(names)
	for _, m := range names {
		v := "v0.0.0"
		if strings.HasSuffix(m, "/v2") {
			v = "v2.0.0"
		}
		fmt.Fprintf(&mod, "\t%s %s\n", m, v)
	}
	mod.WriteString(")\n\nreplace (\n\tverifsim => " + filepath.Join(verifDir, "sim") + "\n")
	for _, m := range names {
		fmt.Fprintf(&mod, "\t%s => %s/repo/%s\n", m, dir, hiveMods[m])
	}
	mod.WriteString(")\n")
	os.WriteFile(dir+"/harness/go.mod", []byte(mod.String()), 0o644)
	// go.sum: union of the repository's go.sum files and the framework's
	sums := map[string]bool{}
	files, _ := filepath.Glob(repoDir + "/*/go.sum")
	files = append(files, filepath.Join(verifDir, "harness", "go.sum.extra"))
	for _, f := range files {
		b, err := os.ReadFile(f)
		if err != nil {
			continue
		}
		for _, l := range strings.Split(string(b), "\n") {
			if strings.TrimSpace(l) != "" {
				sums[l] = true
			}
		}
	}
	lines := make([]string, 0, len(sums))
	for l := range sums {
		lines = append(lines, l)
	}
	sort.Strings(lines)
	os.WriteFile(dir+"/harness/go.sum", []byte(strings.Join(lines, "\n")+"\n"), 0o644)
	os.MkdirAll(dir+"/bin", 0o755)
	os.MkdirAll(dir+"/out", 0o755)
	var wg sync.WaitGroup
	errs := make([]string, len(pkgs))
	for i, p := range pkgs {
		wg.Add(1)
		go func() {
			defer wg.Done()
			if out, err := run(dir+"/harness", goEnv(), goBin, "test", "-c", "-trimpath", "-o", dir+"/bin/"+p+".test", "./"+p); err != nil {
				errs[i] = fmt.Sprintf("go test -c ./%s: %v\n%s", p, err, out)
			}
		}()
	}
	wg.Wait()
	for _, e := range errs {
		if e != "" {
			fail("%s", e)
		}
	}
	return sc
}

var keepScratch bool

// nativeMode: build the harness against the un-rewritten working tree (no simgen) and run only the harness
// configurations marked Native (single-task, no scheduling dimension). A disagreement with the normal run would
// point at the rewriter, not at hive.go. Evidence is not written in this mode.
var nativeMode bool

func (sc *scratch) cleanup() {
	if keepScratch {
		fmt.Fprintln(os.Stderr, "verif: scratch kept at", sc.dir)
		return
	}
	os.RemoveAll(sc.dir)
}

// ---------------------------------------------------------------------------------------------
// workers

var currentTier = "quick"

type job struct {
	sub     *Sub
	mode    string
	seed    uint64
	worker  int
	workers int
	budget  time.Duration
	maxRuns uint64
	replay  string
	out     string
	extra   []string
	timeout time.Duration // overrides the watchdog
}

const workerAddressSpaceKiB = 12 << 20 // 12 GiB

func (j *job) watchdog() time.Duration {
	if j.timeout > 0 {
		return j.timeout
	}
	return j.budget + j.budget/2 + 150*time.Second
}

func (sc *scratch) exec(j *job) error {
	// every worker runs under an address-space limit: code that requests tens of gigabytes from a length prefix then
	// fails at that call with the Go runtime's unrecoverable "out of memory" error, in the search and, identically, in
	// the replay of that one run (instead of sixteen workers exhausting the machine together, which no replay of a
	// single run reproduces)
	limit := workerAddressSpaceKiB
	if j.mode == "replay" || j.mode == "shrink" {
		// one run alone gets half of it: a run that was the last straw for a
		// worker that had not yet returned earlier giant blocks is then still recognised on its own
		limit = workerAddressSpaceKiB / 2
	}
	cmd := exec.Command("/bin/sh", "-c", fmt.Sprintf("ulimit -v %d; exec \"$0\" \"$@\"", limit),
		sc.dir+"/bin/"+j.sub.Pkg+".test", "-test.run", "^TestSim$", "-test.count=1", "-test.timeout=0")
	cmd.Dir = sc.dir
	env := append(os.Environ(),
		"VERIF_HARNESS="+j.sub.Harness, "VERIF_CONFIG="+j.sub.Config, "VERIF_MODE="+j.mode,
		fmt.Sprintf("VERIF_SEED=%d", j.seed), fmt.Sprintf("VERIF_WORKER=%d", j.worker), fmt.Sprintf("VERIF_WORKERS=%d", j.workers),
		fmt.Sprintf("VERIF_BUDGET_MS=%d", j.budget.Milliseconds()), "VERIF_OUT="+j.out, "VERIF_REPLAY="+j.replay, "GOMAXPROCS=2", "VERIF_TIER="+currentTier)
	if j.maxRuns > 0 {
		env = append(env, fmt.Sprintf("VERIF_MAXRUNS=%d", j.maxRuns))
	}
	env = append(env, j.extra...)
	cmd.Env = env
	var outb strings.Builder
	cmd.Stdout = &outb
	cmd.Stderr = &outb
	if err := cmd.Start(); err != nil {
		return err
	}
	done := make(chan error, 1)
	go func() { done <- cmd.Wait() }()
	select {
	case err := <-done:
		if err != nil {
			return fmt.Errorf("%v\n%s", err, tail(outb.String(), 4000))
		}
		return nil
	case <-time.After(j.watchdog()):
		cmd.Process.Kill()
		return errors.New("watchdog: worker exceeded its wall budget")
	}
}

// attributeAbort: a worker died with a Go runtime "fatal error" (not recoverable inside the process). The run in
// progress is read from the worker's progress file and re-executed alone in a fresh process; if it aborts again the
// abort belongs to that run (a violation with a seed/run replay file), otherwise it stays an infrastructure error.
// abortLine classifies the error of a worker process that did not finish: "" if it is not an abort of the process.
func abortLine(werr error) string {
	msg := werr.Error()
	if i := strings.Index(msg, "fatal error:"); i >= 0 {
		line := msg[i:]
		if k := strings.IndexByte(line, '\n'); k >= 0 {
			line = line[:k]
		}
		return line
	} else if strings.HasPrefix(msg, "watchdog:") {
		return "stall: one run kept a worker busy beyond the watchdog"
	} else if strings.HasPrefix(msg, "signal: killed") {
		return "killed: the worker was killed by the operating system (out of memory) during one run"
	}
	return ""
}

func (sc *scratch) attributeAbort(sub *Sub, j *job, werr error) *abort {
	line := abortLine(werr)
	if line == "" {
		return nil
	}
	b, err := os.ReadFile(j.out + ".progress")
	if err != nil || len(b) < 8 {
		return nil
	}
	var run uint64
	for k := 0; k < 8; k++ {
		run |= uint64(b[k]) << (8 * k)
	}
	rp := &simrt.Replay{Harness: sub.Pkg + "/" + sub.Harness, Config: sub.Config, Tier: currentTier, Seed: j.seed, Run: run, FromSeed: true}
	path := filepath.Join(sc.dir, "out", fmt.Sprintf("abort-%d-%d.json", j.seed, run))
	writeJSON(path, rp)
	out := path + ".out"
	// a single run takes milliseconds; alone in a fresh process it gets 90 s
	rj := &job{sub: sub, mode: "replay", replay: path, out: out, budget: 60 * time.Second, timeout: 90 * time.Second}
	if err2 := sc.exec(rj); err2 != nil {
		// (the message of the run alone names the abort: it is what a replay of the file will show again)
		if line2 := abortLine(err2); line2 != "" {
			return &abort{seed: j.seed, run: run, message: line2}
		}
	}
	return nil
}

func tail(s string, n int) string {
	if len(s) > n {
		return s[:n/2] + "\n[...]\n" + s[len(s)-n/2:]
	}
	return s
}

// abort: the code under test killed a worker process with an unrecoverable runtime error during one run.
type abort struct {
	seed, run uint64
	message   string
}

type subResult struct {
	abort    *abort
	sub      *Sub
	outs     []*simrt.WorkerOut
	runs     uint64
	steps    uint64
	switches uint64
	capped   uint64
	leaked   uint64
	failed   uint64
	nontriv  uint64
	simTime  time.Duration
	probes   map[string]int
	faults   map[string]int
	failures map[string]*simrt.FailureRecord
	distinct uint64
	distLogs uint64
	samples  []json.RawMessage
	wall     float64
}

func (sc *scratch) search(sub *Sub, seed uint64, workers int, budget time.Duration) *subResult {
	var wg sync.WaitGroup
	outs := make([]*simrt.WorkerOut, workers)
	errs := make([]error, workers)
	aborts := make([]*abort, workers)
	t0 := time.Now()
	for w := 0; w < workers; w++ {
		wg.Add(1)
		go func() {
			defer wg.Done()
			deadline := time.Now().Add(budget)
			// a worker process is recycled when it has leaked too many goroutines
			var acc *simrt.WorkerOut
			round := 0
			for time.Until(deadline) > 200*time.Millisecond || round == 0 {
				out := fmt.Sprintf("%s/out/%s-%s-%d-%d.json", sc.dir, sub.Pkg, sub.Harness, w, round)
				j := &job{sub: sub, mode: "search", seed: seed + uint64(round)*7919, worker: w, workers: workers, budget: time.Until(deadline), out: out}
				if err := sc.exec(j); err != nil {
					if ab := sc.attributeAbort(sub, j, err); ab != nil {
						aborts[w] = ab
						break
					}
					errs[w] = err
					return
				}
				b, err := os.ReadFile(out)
				if err != nil {
					errs[w] = err
					return
				}
				var wo simrt.WorkerOut
				if err := json.Unmarshal(b, &wo); err != nil {
					errs[w] = err
					return
				}
				os.Remove(out)
				if wo.Infra != "" {
					errs[w] = errors.New(wo.Infra)
					return
				}
				acc = mergeWorker(acc, &wo)
				round++
				if wo.Runs == 0 {
					break
				}
			}
			outs[w] = acc
		}()
	}
	wg.Wait()
	attributed := false
	for _, ab := range aborts {
		attributed = attributed || ab != nil
	}
	for _, e := range errs {
		// (when one worker's abort was reproduced by its run alone, that reproducible violation is what is reported, and
		// other workers that died in a way no single run reproduces do not turn it into an infrastructure error)
		if e != nil && !attributed {
			sc.cleanup()
			infra("worker of %s/%s: %v", sub.Pkg, sub.Harness, e)
		}
	}
	r := &subResult{sub: sub, outs: outs, probes: map[string]int{}, faults: map[string]int{}, failures: map[string]*simrt.FailureRecord{}}
	for _, ab := range aborts {
		if ab != nil && r.abort == nil {
			r.abort = ab
		}
	}
	var live []*simrt.WorkerOut
	for _, o := range outs {
		if o != nil {
			live = append(live, o)
		}
	}
	outs = live
	bits := 0
	for _, o := range outs {
		if o.HashBits > bits {
			bits = o.HashBits
		}
	}
	sched := map[uint64]struct{}{}
	logs := map[uint64]struct{}{}
	mask := uint64(1)<<bits - 1
	for _, o := range outs {
		r.runs += o.Runs
		r.steps += o.Steps
		r.switches += o.Switches
		r.capped += o.Capped
		r.leaked += o.Leaked
		r.failed += o.FailedRuns
		r.nontriv += o.NonTrivial
		r.simTime += time.Duration(o.SimTimeNs)
		for k, v := range o.Probes {
			r.probes[k] += v
		}
		for k, v := range o.Faults {
			r.faults[k] += v
		}
		for sig, f := range o.Failures {
			if g := r.failures[sig]; g == nil {
				cp := *f
				r.failures[sig] = &cp
			} else {
				g.Count += f.Count
				if len(f.Decisions) < len(g.Decisions) {
					g.Seed, g.Run, g.Decisions, g.Failure = f.Seed, f.Run, f.Decisions, f.Failure
				}
			}
		}
		for _, h := range o.SchedHashes {
			if h&mask == 0 {
				sched[h] = struct{}{}
			}
		}
		for _, h := range o.LogHashes {
			if h&mask == 0 {
				logs[h] = struct{}{}
			}
		}
		if len(r.samples) < 2 {
			r.samples = append(r.samples, o.Samples...)
		}
	}
	r.distinct = uint64(len(sched)) << bits
	r.distLogs = uint64(len(logs)) << bits
	r.wall = time.Since(t0).Seconds()
	return r
}

func mergeWorker(a, b *simrt.WorkerOut) *simrt.WorkerOut {
	if a == nil {
		return b
	}
	a.Runs += b.Runs
	a.Steps += b.Steps
	a.Switches += b.Switches
	a.Capped += b.Capped
	a.Leaked += b.Leaked
	a.FailedRuns += b.FailedRuns
	a.NonTrivial += b.NonTrivial
	a.SimTimeNs += b.SimTimeNs
	for k, v := range b.Probes {
		a.Probes[k] += v
	}
	for k, v := range b.Faults {
		a.Faults[k] += v
	}
	for sig, f := range b.Failures {
		if g := a.Failures[sig]; g == nil {
			a.Failures[sig] = f
		} else {
			g.Count += f.Count
			if len(f.Decisions) < len(g.Decisions) {
				g.Seed, g.Run, g.Decisions, g.Failure = f.Seed, f.Run, f.Decisions, f.Failure
			}
		}
	}
	bits := max(a.HashBits, b.HashBits)
	mask := uint64(1)<<bits - 1
	merge := func(x, y []uint64) []uint64 {
		m := map[uint64]struct{}{}
		for _, h := range x {
			if h&mask == 0 {
				m[h] = struct{}{}
			}
		}
		for _, h := range y {
			if h&mask == 0 {
				m[h] = struct{}{}
			}
		}
		out := make([]uint64, 0, len(m))
		for h := range m {
			out = append(out, h)
		}
		return out
	}
	a.HashBits = bits
	a.SchedHashes = merge(a.SchedHashes, b.SchedHashes)
	a.LogHashes = merge(a.LogHashes, b.LogHashes)
	if len(a.Samples) < 3 {
		a.Samples = append(a.Samples, b.Samples...)
	}
	return a
}

// ---------------------------------------------------------------------------------------------
// known findings

type Finding struct {
	Property  string `json:"property"`
	Signature string `json:"signature"`
	Harness   string `json:"harness,omitempty"`
	Status    string `json:"status"` // "open"
	What      string `json:"what"`
}

type KnownFile struct {
	Findings []Finding `json:"findings"`
	Fixed    []string  `json:"fixed"`
}

func loadKnown() *KnownFile {
	var k KnownFile
	b, err := os.ReadFile(filepath.Join(verifDir, "known_findings.json"))
	if err != nil {
		return &k
	}
	if err := json.Unmarshal(b, &k); err != nil {
		infra("known_findings.json: %v", err)
	}
	// development aid only (never set by registered commands): extra entries being drafted
	if extra := os.Getenv("VERIF_KNOWN_EXTRA"); extra != "" {
		var k2 KnownFile
		if b, err := os.ReadFile(extra); err == nil && json.Unmarshal(b, &k2) == nil {
			k.Findings = append(k.Findings, k2.Findings...)
		}
	}
	return &k
}

func (k *KnownFile) match(id, sig string) *Finding {
	for i := range k.Findings {
		f := &k.Findings[i]
		if f.Property == id && f.Signature == sig && f.Status == "open" {
			return f
		}
	}
	return nil
}

// ---------------------------------------------------------------------------------------------
// check

func findProp(id string) *Prop {
	for _, p := range props {
		if p.ID == id {
			return p
		}
	}
	return nil
}

func pkgsOf(p *Prop) []string {
	seen := map[string]bool{}
	var out []string
	for i := range p.Subs {
		if !seen[p.Subs[i].Pkg] {
			seen[p.Subs[i].Pkg] = true
			out = append(out, p.Subs[i].Pkg)
		}
	}
	return out
}

func check(id, tier string, budgetOverride int, keep bool) int {
	p := findProp(id)
	if p == nil {
		infra("unknown property %s", id)
	}
	if tier != "quick" && tier != "thorough" {
		infra("unknown tier %s", tier)
	}
	seed := seedEnv()
	currentTier = tier
	t0 := time.Now()
	if nativeMode {
		var subs []Sub
		for _, sb := range p.Subs {
			if sb.Native {
				subs = append(subs, sb)
			}
		}
		if len(subs) == 0 {
			fmt.Printf("verif: property=%s has no native (single-task) configuration\n", id)
			return 0
		}
		cp := *p
		cp.Subs = subs
		p = &cp
	}
	sc := prepare(id+"-"+tier, pkgsOf(p), nativeMode)
	defer sc.cleanup()
	buildS := time.Since(t0).Seconds()
	total := time.Duration(p.QuickS) * time.Second
	if tier == "thorough" {
		total = time.Duration(p.ThoroughS) * time.Second
	}
	if budgetOverride > 0 {
		total = time.Duration(budgetOverride) * time.Second
	}
	wsum := 0
	for i := range p.Subs {
		wsum += max(1, p.Subs[i].Weight)
	}
	workers := 16
	if v := os.Getenv("VERIF_WORKERS"); v != "" {
		if n, err := strconv.Atoi(v); err == nil && n > 0 {
			workers = n
		}
	}
	if tier == "thorough" && !nativeMode {
		// determinism first: the same seed must give the same event logs in separate processes at different GOMAXPROCS
		if bad := determinismOf(sc, p, []int{1, 16}, 1, 48); bad > 0 {
			sc.cleanup()
			infra("determinism self-test failed for %d harness configuration(s) of %s", bad, id)
		}
	}
	known := loadKnown()
	var results []*subResult
	violations := 0
	var knownLines []string
	var violLines []string
	for i := range p.Subs {
		sub := &p.Subs[i]
		b := total * time.Duration(max(1, sub.Weight)) / time.Duration(wsum)
		r := sc.search(sub, seed, workers, b)
		results = append(results, r)
		if r.abort != nil {
			os.MkdirAll(filepath.Join(verifDir, "replays"), 0o755)
			sig := "process-abort|" + sanitizeSig(r.abort.message)
			name := fmt.Sprintf("%s-%s-%s-abort-%d-%d.json", p.ID, sub.Pkg, sub.Harness, r.abort.seed, r.abort.run)
			path := filepath.Join(verifDir, "replays", name)
			writeJSON(path, &simrt.Replay{Property: p.ID, Harness: sub.Pkg + "/" + sub.Harness, Config: sub.Config, Tier: currentTier, Seed: r.abort.seed, Run: r.abort.run, FromSeed: true,
				Signature: sig, Detail: "the worker process was aborted by the Go runtime during this run (not recoverable in-process): " + r.abort.message + "; confirmed by re-running the run alone in a fresh process"})
			if kf := known.match(id, sig); kf != nil {
				knownLines = append(knownLines, fmt.Sprintf("KNOWN-FINDING: property=%s %s [%s/%s signature=%q]", id, kf.What, sub.Pkg, sub.Harness, sig))
			} else {
				violations++
				violLines = append(violLines, fmt.Sprintf("VIOLATION property=%s replay=%s", id, path))
				fmt.Fprintf(os.Stderr, "violation in %s/%s: %s\n  seed=%d run=%d\n", sub.Pkg, sub.Harness, sig, r.abort.seed, r.abort.run)
			}
		}
		sigs := make([]string, 0, len(r.failures))
		for sig := range r.failures {
			sigs = append(sigs, sig)
		}
		sort.Strings(sigs)
		for _, sig := range sigs {
			fr := r.failures[sig]
			if kf := known.match(id, sig); kf != nil {
				knownLines = append(knownLines, fmt.Sprintf("KNOWN-FINDING: property=%s %s [%s/%s signature=%q, %d of %d runs]", id, kf.What, sub.Pkg, sub.Harness, sig, fr.Count, r.runs))
				continue
			}
			path := sc.report(p, sub, fr)
			violations++
			violLines = append(violLines, fmt.Sprintf("VIOLATION property=%s replay=%s", id, path))
			fmt.Fprintf(os.Stderr, "violation in %s/%s: %s\n  %s\n", sub.Pkg, sub.Harness, sig, firstLines(fr.Failure.Detail, 6))
		}
	}
	wall := time.Since(t0).Seconds()
	if !nativeMode {
		writeEvidence(p, tier, seed, results, violations, wall, buildS, knownLines)
	}
	for _, l := range knownLines {
		fmt.Println(l)
	}
	for _, l := range violLines {
		fmt.Println(l)
	}
	var runs uint64
	for _, r := range results {
		runs += r.runs
	}
	fmt.Printf("verif: property=%s tier=%s seed=%d runs=%d violations=%d known=%d wall=%.1fs (build %.1fs)\n", id, tier, seed, runs, violations, len(knownLines), wall, buildS)
	if violations > 0 {
		return 1
	}
	return 0
}

func firstLines(s string, n int) string {
	l := strings.Split(s, "\n")
	if len(l) > n {
		l = l[:n]
	}
	return strings.Join(l, "\n  ")
}

// report minimises a failure, writes the replay file and confirms it in a fresh process.
func (sc *scratch) report(p *Prop, sub *Sub, fr *simrt.FailureRecord) string {
	os.MkdirAll(filepath.Join(verifDir, "replays"), 0o755)
	cfgTag := ""
	if sub.Config != "" {
		cfgTag = "-" + strings.NewReplacer(",", "_", " ", "_", "/", "_").Replace(sub.Config)
	}
	name := fmt.Sprintf("%s-%s-%s%s-%d-%d.json", p.ID, sub.Pkg, sub.Harness, cfgTag, fr.Seed, fr.Run)
	path := filepath.Join(verifDir, "replays", name)
	rp := &simrt.Replay{Property: p.ID, Harness: sub.Pkg + "/" + sub.Harness, Config: sub.Config, Tier: currentTier, Seed: fr.Seed, Run: fr.Run, Decisions: fr.Decisions, Signature: fr.Signature, Detail: fr.Failure.Detail}
	raw := filepath.Join(sc.dir, "out", "raw-"+name)
	writeJSON(raw, rp)
	min := filepath.Join(sc.dir, "out", "min-"+name)
	j := &job{sub: sub, mode: "shrink", replay: raw, out: min, budget: 60 * time.Second}
	final := rp
	if err := sc.exec(j); err == nil {
		var m simrt.Replay
		if b, err := os.ReadFile(min); err == nil && json.Unmarshal(b, &m) == nil && m.Minimised && m.Signature == fr.Signature {
			// confirm in a fresh process
			writeJSON(path, &m)
			if sig, _ := sc.replayOnce(sub, path); sig == fr.Signature {
				final = &m
			}
		}
	}
	if final == rp {
		// un-minimised: still attach a trace
		writeJSON(path, rp)
		_, log := sc.replayOnce(sub, path)
		rp.Trace = log
		writeJSON(path, rp)
	}
	return path
}

func (sc *scratch) replayOnce(sub *Sub, path string) (string, []string) {
	out := filepath.Join(sc.dir, "out", "replay-out.json")
	j := &job{sub: sub, mode: "replay", replay: path, out: out, budget: 30 * time.Second}
	if err := sc.exec(j); err != nil {
		if line := abortLine(err); line != "" {
			fmt.Println(tail(err.Error(), 3000))
			return "process-abort|" + sanitizeSig(line), nil
		}
		return "error: " + err.Error(), nil
	}
	var res struct {
		Signature string   `json:"signature"`
		Detail    string   `json:"detail"`
		Log       []string `json:"log"`
	}
	b, _ := os.ReadFile(out)
	json.Unmarshal(b, &res)
	return res.Signature, res.Log
}

func writeJSON(path string, v any) {
	b, err := json.MarshalIndent(v, "", " ")
	if err != nil {
		infra("marshal: %v", err)
	}
	if err := os.WriteFile(path, b, 0o644); err != nil {
		infra("write %s: %v", path, err)
	}
}

func replayCmd(path string) int {
	b, err := os.ReadFile(path)
	if err != nil {
		infra("%v", err)
	}
	var rp simrt.Replay
	if err := json.Unmarshal(b, &rp); err != nil {
		infra("%v", err)
	}
	pkg, h, _ := strings.Cut(rp.Harness, "/")
	sub := &Sub{Pkg: pkg, Harness: h, Config: rp.Config}
	if rp.Tier != "" {
		currentTier = rp.Tier
	}
	sc := prepare("replay", []string{pkg}, false)
	defer sc.cleanup()
	abs, _ := filepath.Abs(path)
	sig, log := sc.replayOnce(sub, abs)
	for _, l := range log {
		fmt.Println(l)
	}
	fmt.Printf("replay: expected signature %q, got %q\n", rp.Signature, sig)
	if sig == rp.Signature && sig != "" {
		fmt.Printf("VIOLATION property=%s replay=%s\n", rp.Property, abs)
		return 1
	}
	if sig != "" {
		fmt.Printf("VIOLATION property=%s replay=%s (different signature)\n", rp.Property, abs)
		return 1
	}
	return 0
}

// determinism self-test: same seed => same digest across processes and GOMAXPROCS settings.
func determinism(id string) int {
	p := findProp(id)
	if p == nil {
		infra("unknown property %s", id)
	}
	sc := prepare(id+"-det", pkgsOf(p), false)
	defer sc.cleanup()
	if bad := determinismOf(sc, p, []int{1, 4, 16}, 4, 96); bad > 0 {
		fmt.Println("determinism: FAILED")
		return 2
	}
	fmt.Println("determinism: ok")
	return 0
}

func determinismOf(sc *scratch, p *Prop, procsList []int, reps int, runs uint64) (bad int) {
	for i := range p.Subs {
		sub := &p.Subs[i]
		digests := map[string]int{}
		var mu sync.Mutex
		var wg sync.WaitGroup
		n := 0
		for _, procs := range procsList {
			for rep := 0; rep < reps; rep++ {
				n++
				k := n
				wg.Add(1)
				go func() {
					defer wg.Done()
					out := fmt.Sprintf("%s/out/det-%d-%d.json", sc.dir, i, k)
					j := &job{sub: sub, mode: "digest", seed: seedEnv(), out: out, budget: 120 * time.Second, maxRuns: runs, extra: []string{fmt.Sprintf("GOMAXPROCS=%d", procs)}}
					if err := sc.exec(j); err != nil {
						mu.Lock()
						digests["error: "+err.Error()]++
						mu.Unlock()
						return
					}
					var res struct {
						Digest string `json:"digest"`
					}
					b, _ := os.ReadFile(out)
					json.Unmarshal(b, &res)
					os.Remove(out)
					mu.Lock()
					digests[res.Digest]++
					mu.Unlock()
				}()
			}
		}
		wg.Wait()
		fmt.Printf("determinism %s/%s %s: %v\n", sub.Pkg, sub.Harness, sub.Config, digests)
		if len(digests) != 1 {
			bad++
		}
	}
	return bad
}

func sanitizeSig(msg string) string {
	var b strings.Builder
	for _, r := range msg {
		if r >= '0' && r <= '9' {
			continue
		}
		b.WriteRune(r)
	}
	out := strings.TrimSpace(b.String())
	if len(out) > 80 {
		out = out[:80]
	}
	return out
}
