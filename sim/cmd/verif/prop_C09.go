package main

func init() {
	register(&Prop{
		ID: "C09", Title: "Authenticated map/set: contents, content-only root, faithful reopen", Level: "exploration",
		Subs: []Sub{
			{Pkg: "ads", Harness: "map", Weight: 3, Native: true},
			{Pkg: "ads", Harness: "set", Weight: 2, Native: true},
			{Pkg: "ads", Harness: "map", Config: "varkeys", Weight: 2, Note: "keys serialize to 0..2 bytes: prefixes of one another and the empty key"},
			{Pkg: "ads", Harness: "set", Config: "varkeys", Weight: 1},
			{Pkg: "ads", Harness: "concmap", Weight: 2, Note: "2-3 concurrent callers; the history must be linearizable w.r.t. the map model, then the sequential audit (contents, Size, content-only Root, Commit+reopen)"},
			{Pkg: "ads", Harness: "concset", Weight: 1},
		},
		QuickS: 20, ThoroughS: 600,
		Rule:   "each run draws 2-4 keys out of a fixed universe (5 keys for the map, 8 for the set; sha256 paths in two clusters sharing >=14 / 5-9 / 1-3 / 0 leading bits), an operation mix and a history of 3-12 operations (Set/Add incl. overwrite and empty value, Delete incl. absent keys, Get, Has, Size, Stream, Root, Commit, Commit+reopen, reopen without Commit) and, for every twin comparison, an insertion order and a detour (overwrite, delete-and-reinsert, foreign key inserted and removed, Commit half way); distinct = distinct hash of (configuration, event log); non-trivial = at least two recorded decisions. the sequential legs have one client task; the conc legs add 2-3 client tasks x 1-4 Set/Add/Delete/Get/Has/Size calls on 1-3 keys under seeded schedules (the types guard themselves with a mutex: every history concurrent callers can observe must be one of the sequential histories C09 speaks about)",
		Real:   []string{"ads (authenticatedMap, authenticatedSet, mapStoreAdapter)", "kvstore (TypedStore, TypedValue, realms)", "kvstore/mapdb", "github.com/pokt-network/smt v0.9.2 (unmodified, from the module cache)"},
		Stubs:  commonStubs,
		Assume: []string{"the store that survives a reopen is an in-memory mapdb that loses nothing (no torn or lost writes: C09 does not speak about a failing store)", "conc legs: calls that overlap may take effect in either order (linearizability, exact checker); the audit after quiescence is the sequential one", "bounded: <=4 keys per run out of 5 (map, 3 values incl. the empty one) or 8 (set), <=12 operations plus final audit", "root injectivity is decided inside the explored universe only (all 1024 map contents / 256 set contents as built by fresh instances, plus every root observed in a run)", "a reopen while changes made after the last Commit are pending is only required not to panic and ends the run"},
	})
}
