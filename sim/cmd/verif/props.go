package main

// Sub is one harness configuration that contributes to a property's check.
type Sub struct {
	Pkg     string // harness test package under /verif/harness
	Harness string // harness name inside the package (VERIF_HARNESS)
	Config  string // VERIF_CONFIG
	Weight  int    // share of the search budget
	Note    string
}

// Prop describes how one property is checked.
type Prop struct {
	ID        string
	Title     string
	Level     string // exploration | fault_enumeration
	Subs      []Sub
	QuickS    int // search budget (seconds, wall, all workers in parallel)
	ThoroughS int
	Rule      string // how cases are generated and what counts as distinct / non-trivial
	Real      []string
	Stubs     []string
	Assume    []string
}

var commonStubs = []string{"sync and sync/atomic (simsync/simatomic: documented semantics, every op a scheduling point)", "goroutine scheduler (seeded)", "clock (testing/synctest fake clock)", "select readiness order and map iteration order (recorded decisions)"}

var props = []*Prop{
	{
		ID: "C17", Title: "Starving/DAG mutexes, Counter and Stack waits", Level: "exploration",
		Subs: []Sub{
			{Pkg: "locks", Harness: "starving", Weight: 3},
			{Pkg: "locks", Harness: "dag", Weight: 3},
			{Pkg: "locks", Harness: "misuse", Weight: 1},
			{Pkg: "locks", Harness: "counter", Weight: 2},
			{Pkg: "locks", Harness: "stack", Weight: 2},
		},
		QuickS: 25, ThoroughS: 600,
		Rule:  "each run draws a script (2-4 threads x 1-3 lock/unlock segments on 1-3 entities, read or write, hold lengths; or waiter/updater mixes) and a schedule from one seeded decision stream; distinct = distinct hash of (script, context-switch sequence, event log); non-trivial = at least two recorded decisions",
		Real:  []string{"runtime/syncutils (StarvingMutex, DAGMutex, Counter, Stack) rewritten mechanically", "ds/shrinkingmap, ds/orderedmap"},
		Stubs: commonStubs,
		Assume: []string{"one task executes at a time; context switches only at sync/atomic/channel operations (plain-memory races are invisible)", "bounded scripts: a violation needing more threads/operations than generated is not found"},
	},
	{
		ID: "C16", Title: "WorkerPool conserves tasks and always shuts down", Level: "exploration",
		Subs: []Sub{
			{Pkg: "workerpool", Harness: "pool", Weight: 3},
			{Pkg: "workerpool", Harness: "restart", Weight: 2},
			{Pkg: "workerpool", Harness: "group", Weight: 2},
		},
		QuickS: 30, ThoroughS: 900,
		Rule:  "each run draws a pool configuration (1-3 workers, cancel-on-shutdown on/off, optional restart cycles, optional group tree), 1-3 submitters with 1-3 tasks each (tasks yield and may submit nested tasks), a Shutdown/ShutdownComplete.Wait caller, waiters, and a schedule; distinct = distinct (configuration, schedule, event log) hash; non-trivial = at least two recorded decisions",
		Real:  []string{"runtime/workerpool (WorkerPool, Task, Group)", "runtime/syncutils (Counter, Stack)", "ds/orderedmap"},
		Stubs: commonStubs,
		Assume: []string{"one task executes at a time; context switches only at sync/atomic/channel/select/go operations", "accepted = the pending counter was raised inside the Submit call (observed through PendingTasksCounter.Subscribe)", "bounded: <=3 submitters x <=3 tasks, <=3 restart cycles"},
	},
}
