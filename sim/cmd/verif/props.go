package main

// Sub is one harness configuration that contributes to a property's check.
type Sub struct {
	Pkg     string // harness test package under /verif/harness
	Harness string // harness name inside the package (VERIF_HARNESS)
	Config  string // VERIF_CONFIG
	Weight  int    // share of the search budget
	Note    string
	Native  bool // single-task configuration that can also run against the un-rewritten tree (verif check --native)
}

// Prop describes how one property is checked.
type Prop struct {
	ID        string
	Title     string
	Level     string // exploration | fault_enumeration
	Subs      []Sub
	QuickS    int // search budget (seconds, wall, all workers in parallel)
	ThoroughS int
	Rule      string // how cases are generated and what counts as distinct / non-trivial
	Real      []string
	Stubs     []string
	Assume    []string
}

var commonStubs = []string{"sync and sync/atomic (simsync/simatomic: documented semantics, every op a scheduling point)", "goroutine scheduler (seeded)", "clock (testing/synctest fake clock)", "select readiness order and map iteration order (recorded decisions)"}

var props []*Prop

func register(p *Prop) { props = append(props, p) }
