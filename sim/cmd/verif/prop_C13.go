package main

func init() {
	register(&Prop{
		ID: "C13", Title: "Reactive subscribers see every change exactly once, in order", Level: "exploration",
		Subs: []Sub{
			{Pkg: "reactive", Harness: "variable", Weight: 3},
			{Pkg: "reactive", Harness: "event", Weight: 2},
			{Pkg: "reactive", Harness: "set", Config: "noreplace", Weight: 3, Note: "without Replace, so that everything else is explored in runs the Replace report defect would end"},
			{Pkg: "reactive", Harness: "set", Weight: 2, Note: "full method mix incl. Replace"},
			{Pkg: "reactive", Harness: "varutils", Weight: 1, Note: "subscription utilities built on OnUpdate: OnUpdateOnce, OnUpdateWithContext, WithValue, WithNonEmptyValue; ToggleValue, Read"},
			{Pkg: "reactive", Harness: "varinit", Weight: 1, Note: "a variable without subscriptions is written through Init/Set while its first subscribers arrive: every subscriber is told a chain that ends with the final value"},
			{Pkg: "reactive", Harness: "setutils", Weight: 1, Note: "Set.WithElements and the ReadOnly view"},
			{Pkg: "reactive", Harness: "derivedset", Weight: 1, Note: "a subscriber of a DerivedSet (inherited mutations and direct writes) folds what it is told; shares its body with C14's derivedset harness"},
		},
		QuickS: 30, ThoroughS: 900,
		Rule:   "each run draws 1-3 writers x 1-4 operations (Variable: Set/Compute/DefaultTo with unique values, now and then zero or a no-op; Event: Trigger/Set(true)/reset attempts; Set over 4 elements: Add/Delete/AddAll/DeleteAll/Apply/Compute/Replace), 1-3 subscriber tasks x 1-2 subscriptions (OnUpdate with/without the initial-trigger option, OnTrigger) at decision-chosen moments, unsubscribes by the subscriber or by a separate task, callbacks that yield 1-2 times, and a schedule; varutils: 1-2 writers (Set/Compute/ToggleValue+reset/Read) and 1-3 tasks x 1-2 utility subscriptions (OnUpdateOnce, OnUpdateWithContext with 1-2 set-ups per callback, WithValue, WithNonEmptyValue, conditions drawn from a small menu); setutils: the Set writers, 1-2 tasks x 1-2 WithElements subscriptions and a reader of the ReadOnly view; distinct = distinct (script, schedule, event log) hash; non-trivial = at least two recorded decisions",
		Real:   []string{"ds/reactive (Variable, Event, Set, callback/execution-lock protocol)", "ds (List, Set, SetMutations)", "ds/orderedmap, ds/shrinkingmap"},
		Stubs:  append([]string{"a reference subscription registered by the main task before any other task numbers the changes and (for sets) reads the true contents inside its callback (observation only; it is checked by the same oracles)"}, commonStubs...),
		Assume: []string{"one task executes at a time; context switches only at sync/atomic operations and explicit yields in callbacks", "folding uses the library's own ds.Set.Apply (adds, then deletes)", "the state a subscription starts from must have been the state at some instant of the subscribing call; a change must be delivered if its write was invoked after the subscribing call returned and returned before the unsubscribe call was invoked (overlaps may go either way)", "unsubscribing from inside the callback itself is API misuse and not generated", "utilities (OnUpdateOnce, OnUpdateWithContext, WithValue, WithNonEmptyValue, WithElements): judged as the OnUpdate subscription they wrap - the state at subscription time counts as the transition zero->state; a set-up is active from the call of the setup function to the call of the teardown it returned; the ReadOnly view is judged per element (mutations are applied element by element, Replace clears first)", "bounded: <=3 writers x <=4 operations, <=6 subscriptions, 4 set elements"},
	})
}
