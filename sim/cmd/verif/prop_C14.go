package main

func init() {
	register(&Prop{
		ID: "C14", Title: "Derived reactive values converge to their defining function", Level: "exploration",
		Subs: []Sub{
			{Pkg: "reactive", Harness: "derived", Weight: 3},
			{Pkg: "reactive", Harness: "derivedset", Config: "noreplace", Weight: 2, Note: "sources are never Replaced"},
			{Pkg: "reactive", Harness: "derivedset", Weight: 2, Note: "sources incl. Replace"},
			{Pkg: "reactive", Harness: "counter", Weight: 2},
			{Pkg: "reactive", Harness: "sortedset", Config: "nodelete", Weight: 2, Note: "members only add: weight updates race with insertions"},
			{Pkg: "reactive", Harness: "sortedset", Config: "disjoint", Weight: 2, Note: "elements whose weight changes are members throughout; the others are added and deleted"},
			{Pkg: "reactive", Harness: "sortedset", Config: "noadd", Weight: 2, Note: "all elements are members from the start; weight updates race with deletions only"},
			{Pkg: "reactive", Harness: "sortedset", Weight: 2, Note: "weight updates racing with Add/Delete/Replace of the same element"},
			{Pkg: "reactive", Harness: "waitgroup", Config: "nodupadd", Weight: 1, Note: "an element is added at most once"},
			{Pkg: "reactive", Harness: "waitgroup", Weight: 2, Note: "incl. re-adding pending elements"},
			{Pkg: "reactive", Harness: "eviction", Weight: 1},
		},
		QuickS: 30, ThoroughS: 900,
		Rule:   "each run draws a graph (DerivedVariable1-4 over 3 or 4 inputs, chained derived variables, InheritFrom, DeriveValueFrom; DerivedSet.InheritFrom of 1-3 sources or SubtractReactive; Counter.Monitor of 1-3 inputs; SortedSet over 4 elements with weight variables; WaitGroup over 3 elements; EvictionState over 6 slots), 1-3 writers x 1-4 operations on the inputs, tasks that build / tear down / unsubscribe parts of the graph while the writers run, and a schedule; distinct = distinct (script, schedule, event log) hash; non-trivial = at least two recorded decisions",
		Real:   []string{"ds/reactive (Variable, DerivedVariable, Set, DerivedSet, SubtractReactive, Counter, SortedSet, WaitGroup, EvictionState, Event)", "ds (Set, SetMutations, SetArithmetic)", "ds/shrinkingmap, ds/orderedmap"},
		Stubs:  commonStubs,
		Assume: []string{"one task executes at a time; context switches only at sync/atomic operations and explicit yields (plain-memory races are invisible)", "value oracles are evaluated at quiescence only, after the deadlock oracle; a derived variable that was unsubscribed from its inputs is no longer compared", "Counter: a monitor that was unsubscribed keeps the contribution it had at that moment (either contribution if a write to that input overlapped the unsubscribe call)", "SortedSet: elements of equal weight may appear in any order, any element of maximal/minimal weight is accepted as heaviest/lightest", "WaitGroup: judged from ghost state (element definitely pending from the return of an Add no Done overlapped until the next Done is invoked) and the library's own PendingElements at quiescence", "bounded: <=3 writers x <=4 operations, <=3 structural tasks"},
	})
}
