package main

func init() {
	register(&Prop{
		ID: "C11", Title: "OrderedMap and Set: insertion-ordered model, exact diffs, no deadlock", Level: "exploration",
		Subs: []Sub{
			{Pkg: "sets", Harness: "seqset", Weight: 2, Native: true, Note: "1-task configuration: validates the set model"},
			{Pkg: "sets", Harness: "seqmap", Weight: 1, Native: true, Note: "1-task configuration: validates the map model"},
			{Pkg: "sets", Harness: "concset", Weight: 3, Note: "full method mix incl. DeleteAll"},
			{Pkg: "sets", Harness: "concset", Config: "nodeleteall", Weight: 3, Note: "without DeleteAll, so that histories are checked in runs the DeleteAll deadlock would end"},
			{Pkg: "sets", Harness: "concmap", Weight: 2},
		},
		QuickS: 30, ThoroughS: 900,
		Rule:   "sequential: each run draws an initial set/map and 4-12 operations over a universe of 5 elements / 4 keys (every ds.Set, SetMutations, SetArithmetic threshold 1-3, OrderedMap and SerializableOrderedMap method) and compares every result and the full observable state with an insertion-ordered slice model after each operation; concurrent: each run draws 2-4 clients x 1-4 (set) / 1-5 (map) operations on one shared object over 4 elements, callbacks that yield, and a schedule; distinct = distinct (script, schedule, event log) hash; non-trivial = at least two recorded decisions",
		Real:   []string{"ds (Set, ReadableSet, SetMutations, SetArithmetic)", "ds/orderedmap", "ds/serializableorderedmap", "ds/shrinkingmap", "ds/walker", "serializer/v2/serix (Encode/Decode of the sets and maps)"},
		Stubs:  append([]string{"argument sets / SetMutations handed to the shared set in concset are the library's own sets behind a wrapper that stamps each per-element callback (observation only)"}, commonStubs...),
		Assume: []string{"one task executes at a time; context switches only at sync operations and explicit yields in callbacks (plain-memory races such as ForEach reading Element.value outside the lock are invisible)", "the concurrent verdicts rest on the sequential model validated by seqset/seqmap", "Apply = add all, then delete all, each membership change reported; the iteration order after Replace may be the argument's order or retained-first (both accepted); Replace must return the removed elements", "readers do not take the apply lock: they are checked against the per-element steps of multi-element writers, not against an atomic Apply; whole-set reads (ToSlice/ForEach/Range/Iterator/Clone) are compared only when no writer overlapped them", "Clear bypasses the apply lock: runs that use it are exempt from the Apply/Compute/Replace atomicity check", "bounded: <=4 clients x <=5 operations, <=5 elements; linearizability by porcupine (inconclusive results are counted, never reported)"},
	})
}
