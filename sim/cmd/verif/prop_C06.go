package main

func init() {
	register(&Prop{
		ID: "C06", Title: "TypedValue/TypedStore are transparent, error-faithful typed views", Level: "fault_enumeration",
		Subs: []Sub{
			{Pkg: "typed", Harness: "valueseq", Weight: 3, Native: true},
			{Pkg: "typed", Harness: "valueseq", Config: "ref", Weight: 2, Native: true, Note: "TypedValue[*cell]: compute functions update the object they were handed in place (and then succeed, fail or meet an injected fault); the value 0 encodes to zero bytes"},
			{Pkg: "typed", Harness: "storeseq", Weight: 2, Native: true},
			{Pkg: "typed", Harness: "valueconc", Weight: 2},
			{Pkg: "typed", Harness: "valueconc", Config: "faults", Weight: 1},
		},
		QuickS: 25, ThoroughS: 600,
		Rule:   "valueseq/storeseq: a script of 1-8 operations (TypedValue: Get/Has/Set/Delete/Compute with new value, ErrTypedValueNotChanged or own error, occasionally through a second TypedValue object over the same key; TypedStore: Get/Has/Set/Delete/Iterate/IterateKeys with early stop, both directions, 3 keys) is first run fault-free to count its fault sites (every store call and every codec call), then re-run in a fresh world once per site with exactly that call failing (complete single-fault enumeration per script). valueconc: 2-3 clients x 1-4 ops (Compute as increment that yields inside the function, Set of unique values, Delete, Get, Has), with and without probabilistic store failures, checked for linearizability by exhaustive search. distinct = distinct (script, faults, schedule, event log) hash; non-trivial = at least two recorded decisions",
		Real:   []string{"kvstore.TypedValue, kvstore.TypedStore", "kvstore/mapdb underneath the fault layer"},
		Stubs:  append([]string{"faultkv (fails a store call before it takes effect)", "codec functions (harness: fixed-width uint16/uint64 codecs that can be told to fail)", "compute functions"}, commonStubs...),
		Assume: []string{"a failing store call has no effect (fail-before semantics); torn writes are not modelled (mapdb has none)", "single faults per script in the enumerating configurations; multiple faults only in valueconc/faults", "bounded scripts (<=8 ops) and histories (<=12 ops)"},
	})
}
