package main

func init() {
	register(&Prop{
		ID: "C03", Title: "Wire format is fixed; validated decoding accepts only canonical bytes", Level: "exploration",
		Subs: []Sub{
			{Pkg: "codec", Harness: "reencode", Weight: 5, Note: "reverse direction, decided under the C02 fault leg: a faulted encoding that validating Decode accepts must re-encode (with validation) to exactly the accepted bytes"},
			{Pkg: "codec", Harness: "refenc", Weight: 2, Note: "forward direction: Encode (validation on and off) == independent reference encoder; NO fault and NO schedule dimension - a pure comparison on generated values, counted separately (probe reference-comparisons)"},
		},
		QuickS: 30, ThoroughS: 600,
		Rule:  "reencode: as C02/serix with validation always on - one zoo type (13 of 14; the array-of-non-bytes type cannot be decoded at all), one valid encoding, one fault class (truncate every offset / structural-flip every marked byte x 5 variants / inflated prefixes / 24 sampled data flips / 16 sampled splices); whenever Decode(WithValidation) accepts the faulted bytes b and reports n: unless the decoded value holds a timestamp outside the int64-nanosecond range (excluded by the statement; probe accepted-but-excluded), Encode(WithValidation) of the decoded value must succeed and equal b[:n]. refenc: one zoo value per run; the reference encoder is ~250 lines written from the documented layout (little-endian fixed width numbers, 0/1 bool, length prefixes of the configured width, uint8/uint32 type codes, uint32 optional marker, 32-byte little-endian uint256, uint64 nanosecond timestamps, map entries and auto-sorted slices in byte-lexical order) and driven by a hand-written declarative schema of the zoo types; Encode with and without validation must equal it byte for byte, and validating Decode of the reference bytes must return the value and consume everything. distinct = distinct (type, encoding, fault class, accepted/rejected counts) hash",
		Real:  []string{"serializer/serix Encode/Decode with validation", "serializer.Serializer/Deserializer, ArrayRules validators"},
		Stubs: append([]string{"storage under the decoder (fault injector over valid encodings)", "reference encoder + schema (harness/codec/refenc.go, zoo.go) as the model of the wire layout"}, commonStubs...),
		Assume: []string{
			"restricted claim: the reverse direction is decided on byte strings reachable by the listed faults from valid encodings of the zoo (a corruption-detection oracle), not on all byte strings; the forward direction is a reference-model comparison on generated values with no fault or schedule dimension",
			"array rules covered: bounds, lexical order, no-duplicates (ordered and map-based validator), at-most-one-of-each-type (byte), must-occur; uint32 at-most-one-of-each-type is not in the zoo",
			"decoder panics met in this leg are C02's business and are skipped here (probe decode-panicked)",
			"same magnitude limit on allocation-driving 4-byte prefixes as C02",
		},
	})
}
