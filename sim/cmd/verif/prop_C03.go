package main

func init() {
	register(&Prop{
		ID: "C03", Title: "Wire format is fixed; validated decoding accepts only canonical bytes", Level: "exploration",
		Subs: []Sub{
			{Pkg: "codec", Harness: "reencode", Weight: 5, Note: "reverse direction under the fault leg: accepted faulted encodings must re-encode to themselves"},
			{Pkg: "codec", Harness: "refenc", Weight: 2, Note: "forward direction: Encode == independent reference encoder (pure comparison, no fault or schedule dimension)"},
		},
		QuickS: 30, ThoroughS: 600,
		Rule:   "TODO",
		Real:   []string{"TODO"},
		Stubs:  commonStubs,
		Assume: []string{"TODO"},
	})
}
