package main

func init() {
	register(&Prop{
		ID: "C07", Title: "Sequence numbers are never reused across crashes and restarts", Level: "fault_enumeration",
		Subs: []Sub{
			{Pkg: "sequence", Harness: "enum", Weight: 3},
			{Pkg: "sequence", Harness: "conc", Weight: 2},
		},
		QuickS: 25, ThoroughS: 600,
		Rule:   "a scenario is 2-4 lifetimes of Sequence objects (interval from {1,2,3,5,8}; scripts of Next/Release incl. release-only lifetimes) over one persistent store. enum: single-task lifetimes; for one chosen lifetime every store-call boundary (before/after each Get/Set) is used as crash point and every store call as failing call, each in a fresh world inside the run (complete enumeration for the generated scenario). conc: 1-3 tasks per lifetime, crash boundary / failing call and schedule sampled. distinct = distinct (scenario, faults, schedule, event log) hash; non-trivial = at least two recorded decisions",
		Real:   []string{"kvstore.Sequence", "kvstore/mapdb (persistent store; each call one atomic step)"},
		Stubs:  append([]string{"faultkv (harness KVStore wrapper: fails a call before it takes effect; crash = freezing the lifetime's tasks at a store-call boundary, only store contents survive)"}, commonStubs...),
		Assume: []string{"one Sequence object per key is alive at a time (lifetimes are sequential; a crashed lifetime's tasks never run again)", "store calls are atomic and durable once they return (mapdb)", "crash points are store-call boundaries (before the call / after it took effect) — between them the Sequence only touches its own memory, which does not survive"},
	})
}
