package main

func init() {
	register(&Prop{
		ID: "C15", Title: "Events, promises and notifiers deliver exactly the right calls", Level: "exploration",
		Subs: []Sub{
			{Pkg: "events", Harness: "hooks", Weight: 3},
			{Pkg: "events", Harness: "pooled", Weight: 2},
			{Pkg: "events", Harness: "link", Weight: 2},
			{Pkg: "events", Harness: "promise", Weight: 2},
			{Pkg: "events", Harness: "notifier", Weight: 3},
		},
		QuickS: 30, ThoroughS: 900,
		Rule:   "each run draws 2-4 actors x 1-4 operations: Trigger with unique arguments / Hook (optionally WithMaxTriggerCount, optionally on a worker pool) / Unhook on one Event1[int] (optionally with an event-level max trigger count); Trigger of two targets / LinkTo(target|nil) for a linked event; OnTrigger / unsubscribe / Trigger on promise.Event and Event1; Listener / Notify / Wait / Deregister on two values of a valuenotifier; plus a schedule; distinct = distinct (workload, schedule, event log) hash; non-trivial = at least two recorded decisions",
		Real:   []string{"runtime/event (Event1, Hook, options, LinkTo)", "runtime/promise (Event, Event1)", "runtime/valuenotifier", "runtime/workerpool (pooled hooks)", "ds/orderedmap, ds/shrinkingmap"},
		Stubs:  commonStubs,
		Assume: []string{"before/after clauses are judged on non-overlapping call intervals (global step numbers); overlapping calls may go either way", "pooled hooks are judged when the pool has drained (quiescence)", "bounded: <=4 actors x <=4 operations"},
	})
}
