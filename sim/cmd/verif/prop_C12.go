package main

func init() {
	register(&Prop{
		ID: "C12", Title: "Remaining containers are equivalent to their abstract models (restricted: TimeHeap under the fake clock)", Level: "exploration",
		Subs: []Sub{
			{Pkg: "timeheap", Harness: "seq", Weight: 2, Note: "one task, exact reference model, Add/advance/AveragePerSecond/Clear"},
			{Pkg: "timeheap", Harness: "seq", Config: "noclear", Weight: 2, Note: "same without Clear"},
			{Pkg: "timeheap", Harness: "conc", Weight: 2, Note: "2-3 adders, 1-2 queriers (AveragePerSecond, Clear), clock stalls"},
			{Pkg: "timeheap", Harness: "conc", Config: "noclear", Weight: 2, Note: "same without Clear"},
		},
		QuickS: 20, ThoroughS: 600,
		Rule:  "seq: 3-14 operations drawn from Add(count 0-5 or 2^20) / advance the fake clock by {0,0.1,0.3,1,2.5}s / AveragePerSecond(window in {0.25,1.05,3.05,10.05}s) / Clear, each result compared with a reference list of (fake-clock instant, count) entries. conc: 2-3 adder tasks (1-4 Add calls of distinct powers of two, sleeps between), 1-2 querier tasks (1-4 AveragePerSecond/Clear calls), clock stalls of 0.1s/1s offered at every scheduling point; the reported sum is decoded into the set of counted entries and each entry is checked against its invocation/return interval; two final queries after quiescence. Windows are odd multiples of 50ms and all clock advances multiples of 100ms, so no entry's age ever equals a window exactly. distinct = distinct (operation list, schedule, results) hash; non-trivial = at least two recorded decisions",
		Real:  []string{"ds/timeheap (TimeHeap: Add, Clear, AveragePerSecond, container/heap ordering)", "time.Now / time.Since inside the bubble (fake clock)"},
		Stubs: commonStubs,
		Assume: []string{
			"RESTRICTED: only TimeHeap is decided. The other fourteen containers of C12 (ShrinkingMap, RandomMap, PriorityQueue, timed.PriorityQueue, Queue, RingBuffer, Stack, BytesFilter, Walker, IndexedStorage, OnChangeMap, SubscriptionManager, generalheap, ...) are pure sequential state machines in the statement: no schedule, clock or fault to simulate; RandomMap draws from the global math/rand which the simulator does not own",
			"reference: an entry counts for AveragePerSecond(w) at instant t iff t - added < w; result = sum / w.Seconds() (float32, compared with 1e-6 relative tolerance); as documented on the method, entries too old for a query are removed by it and do not count for a later wider window (runs where this matters are counted by the probe wider-window-after-narrower)",
			"exact-boundary instants (age == window) and windows <= 0 are not generated",
			"concurrent calls: an Add takes its timestamp somewhere between its invocation and its return; an operation overlapping a query may or may not be visible to it",
		},
	})
}
