package main

func init() {
	register(&Prop{
		ID: "C01", Title: "serix, JSON and stream codecs round-trip every encodable value", Level: "exploration",
		Subs: []Sub{
			{Pkg: "codec", Harness: "stream", Config: "nochunk", Weight: 2, Note: "chunking-free reader (bytes.Reader semantics / stream.ByteReader): baseline without any fault"},
			{Pkg: "codec", Harness: "stream", Config: "chunk", Weight: 5, Note: "simulated io.Reader: 1-byte, short, zero-length reads, n>0 with io.EOF"},
			{Pkg: "codec", Harness: "maporder", Weight: 3, Note: "two Encode / JSONEncode calls per run under different simulator-chosen map iteration orders"},
		},
		QuickS: 30, ThoroughS: 600,
		Rule:   "TODO",
		Real:   []string{"TODO"},
		Stubs:  commonStubs,
		Assume: []string{"TODO"},
	})
}
