package main

func init() {
	register(&Prop{
		ID: "C01", Title: "serix, JSON and stream codecs round-trip every encodable value", Level: "exploration",
		Subs: []Sub{
			{Pkg: "codec", Harness: "stream", Config: "nochunk", Weight: 2, Note: "fault-free baseline: bytes.Reader semantics or the package's own ByteReader; also the ByteBuffer Write/Seek model check"},
			{Pkg: "codec", Harness: "stream", Config: "chunk", Weight: 5, Note: "simulated io.Reader: every Read is a decision (full, 1-byte, short, zero-length then data, n>0 with io.EOF)"},
			{Pkg: "codec", Harness: "maporder", Weight: 3, Note: "two Encode and two JSONEncode calls per run under different simulator-chosen map iteration orders; decode / JSON round trip as workload"},
		},
		QuickS: 30, ThoroughS: 600,
		Rule:  "stream: each run picks ONE helper family (Read[T] for the 12 scalar/array types, ReadBytes, ReadBytesWithSize x4 prefix widths, ReadObject, ReadObjectWithSize x3, ReadCollection x4 and PeekSize+ReadCollection x4 with Read[uint16|uint64] elements, ReadObjectFromReader, or the ByteBuffer Write/Seek model) and 1-3 values; byte payloads and objects are serix encodings of values drawn from a 14-type zoo (scalars incl. floats/NaN, strings and byte slices with uint8/16/32 prefixes and bounds, byte arrays with and without type code, big.Int, time.Time, embedded/inlined structs, optional pointers and interfaces, interfaces with uint8 and uint32 type codes, slices with array rules (must-occur, at-most-one-of-each-type, lexical order, no duplicates, auto-sort), maps incl. nested ones, a custom Serializable, an array of non-byte elements), written with the real Write* helpers into a stream.ByteBuffer, read back through the simulated reader and decoded again; oracle per item: no error, value equal (canonicalising comparer), stream fully consumed. In configuration chunk every Read call draws one of: full read / 1 byte / short read / zero-length read (at most 2 in a row) / final chunk together with io.EOF; counted as faults short-read, zero-read, eof-with-data. maporder: one zoo value (3 of 4 runs: a type with maps), validation on/off, Encode twice and JSONEncode twice in the same run - the rewritten serix iterates Go maps (range and reflect MapRange/MapKeys) in an order that is a recorded decision, so the calls see different orders; oracle: byte-identical output; then Decode / JSONDecode and comparison with the expected value as workload. distinct = distinct (script, chunking schedule, event log) hash; every run is non-trivial (each draws a value)",
		Real:  []string{"serializer/stream (read.go, write.go, byte_buffer.go, byte_reader.go, offset.go)", "serializer/serix Encode/Decode/MapEncode/JSONEncode/JSONDecode with one API instance, 16 registered type settings and 2 interface registries", "serializer.Serializer/Deserializer underneath", "ds/orderedmap (registries)"},
		Stubs: append([]string{"io.Reader / io.ReadSeeker under the Read* helpers (simio: decision-driven chunking; bytes.Reader semantics in configuration nochunk)", "Go map iteration order inside serix (simrt.MapKeys / ReflectMapRange: recorded decision)"}, commonStubs...),
		Assume: []string{
			"restricted claim: what is decided is (a) stream helper pairs under all generated read-chunkings and (b) independence of Encode/JSONEncode output from map iteration order; the serix/JSON round trip of a value as such is a pure function of the value - it runs here as workload on generated values (sampled, not exhaustive) and its verdict does not depend on any fault or schedule",
			"the reader only splits reads and never reorders, drops or invents bytes; at most two consecutive zero-length reads",
			"values are small (collections of 0-3 elements, strings/byte slices of 0-6 bytes, some 200-320 byte payloads); the JSON form is exercised for the zoo types it can express (no non-string map keys)",
			"only the first item of a stream uses an 8-byte length prefix (a misaligned 8-byte prefix makes stream.ReadBytes abort the process, see C02)",
			"not covered: ds/reactive Set codec; SerializableOrderedMap only under C02",
		},
	})
}
