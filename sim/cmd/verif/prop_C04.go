package main

func init() {
	register(&Prop{
		ID: "C04", Title: "KVStore views and wrappers obey one ordered-map contract", Level: "exploration",
		Subs: []Sub{
			{Pkg: "kvsim", Harness: "seq", Weight: 1, Native: true},
		},
		QuickS: 30, ThoroughS: 600,
		Rule:   "each run draws a wrapper stack (mapdb, flushkv(mapdb), debug(mapdb), flushkv(debug(mapdb)), debug(flushkv(mapdb))) applied at the root or on a sub-view, a view tree (depth <=3, WithRealm / WithExtendedRealm over realms {\"\",a,ab,a\\xff,\\xff,b}), and 6-30 calls by ONE client (Get, Has, Set, Delete, DeletePrefix, Clear, Iterate/IterateKeys in default/forward/backward direction with a consumer that stops after 0-3 entries, up to two interleaved batches with Set/Delete/Commit/Cancel, Flush, Realm, view creation) over keys/prefixes of length 0-3 from {0x00,a,b,0xff} and empty/nil values, plus injected events at decision-chosen points: Close on an arbitrary view, overwriting the caller's buffers after Set / Commit returned, overwriting values and keys handed out by Get / Iterate / IterateKeys; there is no schedule to draw (one task); distinct = distinct hash of the event log (configuration, calls, results); non-trivial = at least two recorded decisions",
		Real:   []string{"kvstore/mapdb (mapDB, syncedKVMap, batchedMutations)", "kvstore/flushkv", "kvstore/debug", "kvstore/utils (SortSlice)", "serializer/v2/byteutils"},
		Stubs:  append([]string{"reference model: Go map keyed by realm||key + sort (harness/kvsim/model_test.go)"}, commonStubs...),
		Assume: []string{"single client: no scheduling dimension, the simulator only supplies the decision stream and the map-iteration orders inside mapdb", "aliasing is tested after KVStore.Set / batch Commit returned, not between batch.Set and Commit (DESIGN 5, readings fixed in advance); realm buffers passed to WithRealm are not modified (not covered by the statement)", "a batch is not reused after Commit; Cancel followed by further operations and Commit applies only the later operations", "Close's own return value, Realm() after Close and batch.Set/Delete after Close are not constrained by the statement and not judged", "bounded: <=8 views, <=30 calls, 4-letter alphabet"},
	})
}
