package main

func init() {
	register(&Prop{
		ID: "C08", Title: "BatchedWriter never loses or half-writes an enqueued object", Level: "exploration",
		Subs: []Sub{
			{Pkg: "batchwriter", Harness: "writer", Weight: 1},
		},
		QuickS: 25, ThoroughS: 900,
		Rule:   "each run draws queue size 0-3, batch size 1-3, batch timeout {5ms,100ms,1s}, 1-3 objects, 1-4 producers x 1-4 enqueues (growing versions, optional sleeps on the fake clock), 0-2 Flush callers, one StopBatchWriter caller at a drawn moment, and a schedule incl. clock stalls; the writer goroutine is parked at birth and scheduled like any task; distinct = distinct (config, schedule, event log) hash; non-trivial = at least two recorded decisions",
		Real:   []string{"kvstore.BatchedWriter, BatchCollector", "kvstore/mapdb (store the batches commit to)", "runtime/timeutil"},
		Stubs:  append([]string{"BatchWriteObject implementations (harness: id, version, test-and-set scheduled flag)"}, commonStubs...),
		Assume: []string{"one task executes at a time; context switches only at sync/atomic/channel/select/go/sleep operations", "BatchWriteScheduled is a test-and-set as in the historical callers; the producer sets the object's version before Enqueue", "bounded: <=4 producers x <=4 enqueues, <=3 objects"},
	})
}
