#!/bin/sh
# Runs the repository's pinned test suite with no verification build tag (there are no hooks in /repo:
# all seams are created in a rewritten scratch copy).
for m in $(cat /w/out/gomods.txt); do MF=$(cd /repo/$m && . /w/out/goenv.sh && gomodflag); (cd /repo/$m && go test $MF -json -vet=off -count=1 -timeout 25m ./...); done
