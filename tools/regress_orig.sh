#!/bin/bash
# Runs every check against the ORIGINAL tree (commit 56b68f6, before any fix: commit) and lists the violation
# signatures per property: the defects recorded as "fixed:" in known_findings.json must be reported again.
set -u
B=${1:-15}
O=/tmp/repo-orig-$$
rm -rf $O; mkdir -p $O; git -C /repo archive 56b68f6 | tar -x -C $O
cd /verif
for p in C01 C02 C03 C04 C05 C06 C07 C08 C09 C11 C12 C13 C14 C15 C16 C17 C18 C20; do
  VERIF_REPO=$O ./bin/verif check $p --budget $B > /tmp/regress-$p.log 2>&1
  n=$(grep -ac '^VIOLATION' /tmp/regress-$p.log)
  echo "== $p: $n violation signatures: $(grep -a '^violation in' /tmp/regress-$p.log | sed 's/^violation in [^:]*: //' | sort -u | head -6 | tr '\n' ';' | cut -c1-400)"
  git checkout -q -- evidence/$p.json 2>/dev/null
  rm -f replays/$p-*.json
done
rm -rf $O
