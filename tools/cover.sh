#!/bin/bash
# usage: cover.sh <PROP> <harness-pkg> <coverpkg-pattern(s), comma separated import paths> [seconds-per-harness]
# Measures which statements of the given hive.go packages the simulated runs of a harness package execute
# (development aid: finds entry points and branches no harness reaches). Builds on a kept scratch of `verif check`.
set -u
P=$1; HP=$2; CP=$3; SEC=${4:-8}
export GOFLAGS=-mod=mod GOPROXY=off GOSUMDB=off GOTOOLCHAIN=local PATH=/opt/veriftools/go1.26.8/bin:$PATH
cd /verif
./bin/verif check $P --budget 1 --keep > /tmp/cover-$P.log 2>&1
git checkout -q -- evidence/$P.json 2>/dev/null
D=$(grep -a -o '/tmp/verif-scratch/[^ ]*' /tmp/cover-$P.log | head -1)
[ -d "$D" ] || { echo "no scratch"; cat /tmp/cover-$P.log | tail -5; exit 2; }
cd $D/harness
go test -c -cover -coverpkg=$CP -o $D/bin/$HP.cover.test ./$HP > /tmp/cover-build.log 2>&1 || { tail -20 /tmp/cover-build.log; exit 2; }
HS=$(grep -o 'Name: *"[a-z0-9]*"' $HP/*_test.go | sed 's/.*"\(.*\)"/\1/' | sort -u)
: > $D/out/cover-all.txt
for h in $HS; do
  for cfg in "" $(grep -o "Harness: \"$h\", Config: \"[a-z,]*\"" /verif/sim/cmd/verif/prop_$P.go | sed 's/.*Config: "\(.*\)"/\1/' | sort -u); do
    VERIF_HARNESS=$h VERIF_CONFIG=$cfg VERIF_MODE=search VERIF_SEED=1 VERIF_WORKER=0 VERIF_WORKERS=1 VERIF_BUDGET_MS=$((SEC*1000)) VERIF_OUT=$D/out/cov-$h.json VERIF_TIER=quick \
      $D/bin/$HP.cover.test -test.run '^TestSim$' -test.count=1 -test.timeout=0 -test.coverprofile=$D/out/cover-$h-$cfg.txt > /dev/null 2>&1
    [ -f $D/out/cover-$h-$cfg.txt ] && tail -n +2 $D/out/cover-$h-$cfg.txt >> $D/out/cover-all.txt
  done
done
# merge: a block is covered if any run covered it
python3 - $D/out/cover-all.txt $D <<'PY'
import sys,collections,re
blocks=collections.defaultdict(int); stm={}
for l in open(sys.argv[1]):
    m=re.match(r'(.*):(\d+)\.(\d+),(\d+)\.(\d+) (\d+) (\d+)$', l.strip())
    if not m: continue
    key=(m.group(1),int(m.group(2)),int(m.group(4))); stm[key]=int(m.group(6)); blocks[key]+=int(m.group(7))
byfile=collections.defaultdict(lambda:[0,0,[]])
for (f,a,b),c in blocks.items():
    e=byfile[f]; e[1]+=stm[(f,a,b)]
    if c>0: e[0]+=stm[(f,a,b)]
    else: e[2].append((a,b))
for f in sorted(byfile):
    c,t,unc=byfile[f]
    if t==0: continue
    unc.sort()
    print('%5.1f%% %4d/%4d %s  uncovered lines: %s' % (100.0*c/t,c,t,f.replace('github.com/iotaledger/hive.go/',''), ' '.join('%d-%d'%u for u in unc[:40])))
PY
rm -rf $D
