#!/bin/bash
# usage: regress_seeded.sh <PROP> [budget]  - re-runs the property's check against every stored seeded change of that
# property (seeded/<PROP>-*/patch.diff applied to a scratch copy of /repo) and reports which are still caught.
P=$1; B=${2:-15}
export GOFLAGS=-mod=mod GOPROXY=off GOSUMDB=off GOTOOLCHAIN=local PATH=/opt/veriftools/go1.26.8/bin:$PATH
cd /verif
for d in seeded/$P-*; do
  [ -f $d/patch.diff ] || continue
  grep -q '"caught": true' $d/meta.json || { echo "-- $(basename $d): not a caught change, skipped"; continue; }
  W=/tmp/regr-$P-$$; rm -rf $W; mkdir -p $W; rsync -a --exclude .git /repo/ $W/repo/
  if ! (cd $W/repo && patch -p1 -s --dry-run < /verif/$d/patch.diff >/dev/null 2>&1); then echo "-- $(basename $d): patch no longer applies"; rm -rf $W; continue; fi
  (cd $W/repo && patch -p1 -s < /verif/$d/patch.diff)
  VERIF_REPO=$W/repo ./bin/verif check $P --budget $B > $W/log 2>&1; rc=$?
  echo "$(basename $d): exit=$rc $(grep -a '^violation in' $W/log | sed 's/violation in //' | sort -u | head -2 | tr '\n' ';' | cut -c1-160)"
  rm -f replays/$P-*.json; rm -rf $W
done
git checkout -q -- evidence/$P.json 2>/dev/null
