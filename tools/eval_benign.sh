#!/bin/bash
# usage: eval_benign.sh <PROP> <name> <benign.diff> [budget]
# Runs the property's check against a scratch copy of /repo with a property-PRESERVING change applied: the check must
# stay silent (exit 0, no VIOLATION line). Stores the diff and the outcome under /verif/benign/<PROP>-<name>/.
set -u
P=$1; NAME=$2; PATCH=$(readlink -f $3); BUDGET=${4:-20}
export GOFLAGS=-mod=mod GOPROXY=off GOSUMDB=off GOTOOLCHAIN=local PATH=/opt/veriftools/go1.26.8/bin:$PATH
W=/tmp/evalb-$P-$$
rm -rf $W; mkdir -p $W; rsync -a --exclude .git /repo/ $W/repo/
cd $W/repo
if ! patch -p1 --dry-run < $PATCH >/dev/null; then echo "== $P $NAME: PATCH DOES NOT APPLY"; rm -rf $W; exit 3; fi
patch -p1 -s < $PATCH
cd /verif
VERIF_REPO=$W/repo ./bin/verif check $P --budget $BUDGET > $W/check.log 2>&1
RC=$?
git -C /verif checkout -- evidence/$P.json 2>/dev/null
D=/verif/benign/$P-$NAME; mkdir -p $D; cp $PATCH $D/change.diff
grep -a "^verif:\|^VIOLATION\|^KNOWN\|^violation" $W/check.log | cut -c1-400 > $D/check.txt
SIGS=$(grep -a '^violation in' $W/check.log | sed 's/violation in //' | sort -u | head -4 | tr '\n' ';' | cut -c1-300)
echo "== $P $NAME: exit=$RC $(grep -a '^verif:' $W/check.log | sed 's/.*runs=/runs=/' | cut -c1-60) sigs: $SIGS"
python3 - "$D" "$P" "$RC" "$SIGS" <<'PY'
import json,sys
d,p,rc,sigs=sys.argv[1:5]
json.dump({"property":p,"kind":"property-preserving change","check_exit":int(rc),"silent":int(rc)==0,"signatures":[s for s in sigs.split(';') if s]}, open(d+'/meta.json','w'), indent=1)
PY
if [ $RC -ne 0 ]; then mkdir -p $D/replays; cp /verif/replays/$P-*.json $D/replays/ 2>/dev/null; fi
rm -f /verif/replays/$P-*.json
rm -rf $W
