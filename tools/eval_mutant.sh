#!/bin/bash
# usage: eval_mutant.sh <PROP> <patch.diff> <demo_test.go|-> [budget] [pkgdir-for-demo]
# Confirms a seeded defect (existing tests pass, demo fails with / passes without the change) in a scratch copy of
# /repo and runs the property's check against the changed copy. Never touches /repo.
set -u
P=$1; PATCH=$(readlink -f $2); DEMO=$3; BUDGET=${4:-20}; PKG=${5:-}
export GOFLAGS=-mod=mod GOPROXY=off GOSUMDB=off
W=/tmp/eval-$P-$$
rm -rf $W; mkdir -p $W; rsync -a --exclude .git /repo/ $W/repo/
cd $W/repo
if ! patch -p1 --dry-run < $PATCH >/dev/null; then echo "PATCH DOES NOT APPLY to current /repo"; patch -p1 --dry-run < $PATCH | tail -5; rm -rf $W; exit 3; fi
FIRST=$(grep -m1 '^+++ b/' $PATCH | sed 's#^+++ b/##')
MOD=$(echo $FIRST | cut -d/ -f1)
[ -z "$PKG" ] && PKG=$(dirname $FIRST)
echo "== module $MOD, demo package dir $PKG"
if [ "$DEMO" != "-" ]; then
  DEMO=$(readlink -f $DEMO)
  cp $DEMO $W/repo/$PKG/zz_demo_test.go
  echo "== demo WITHOUT the change (must pass)"
  (cd $W/repo/$PKG && timeout 300 go test -vet=off -count=1 -run "$(grep -oE 'func (Test[A-Za-z0-9_]+)' zz_demo_test.go | awk '{print $2}' | paste -sd'|')" . 2>&1 | tail -3)
fi
patch -p1 -s < $PATCH
if [ "$DEMO" != "-" ]; then
  echo "== demo WITH the change (must fail)"
  for i in 1 2 3; do (cd $W/repo/$PKG && timeout 300 go test -vet=off -count=1 -run "$(grep -oE 'func (Test[A-Za-z0-9_]+)' zz_demo_test.go | awk '{print $2}' | paste -sd'|')" . 2>&1 | tail -2 | head -1); done
  rm -f $W/repo/$PKG/zz_demo_test.go
fi
echo "== existing tests of module $MOD with the change"
(cd $W/repo/$MOD && timeout 1200 go test -vet=off -count=1 ./... 2>&1 | grep -v '^ok\|no test files' | tail -5; echo "exit=$?")
echo "== check $P against the changed tree"
cd /verif
VERIF_REPO=$W/repo ./bin/verif check $P --budget $BUDGET 2>&1 | grep -a -v '^\s' | cut -c1-300 | tail -60
git -C /verif checkout -- evidence/$P.json 2>/dev/null
rm -rf $W
