#!/bin/bash
# usage: new_benign_worktree.sh <PROP>   -> /tmp/ben-<PROP> with OUT/PROPERTY.txt and OUT/TASK.md (property-preserving changes)
P=$1; D=/tmp/ben-$P
git -C /repo worktree add --detach $D HEAD -q || exit 1
mkdir -p $D/OUT
jq -r "select(.id==\"$P\") | \"PROPERTY \(.id): \(.title)\n\nSTATEMENT: \(.statement)\n\nQUANTIFIED OVER: \(.quantifier.text)\n\nCODE ANCHORS: \(.anchors.files|join(\", \"))\"" /verif/properties.jsonl > $D/OUT/PROPERTY.txt
sed "s/@ID@/$P/g" ${BENIGN_TMPL:-/verif/tools/benign_task.tmpl} > $D/OUT/TASK.md
echo $D
