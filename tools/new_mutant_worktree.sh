#!/bin/bash
# usage: new_mutant_worktree.sh <PROP> [suffix]   -> /tmp/mut-<PROP><suffix> with OUT/PROPERTY.txt and OUT/TASK.md
P=$1; SUF=${2:-}; D=/tmp/mut-$P$SUF
git -C /repo worktree add --detach $D HEAD -q || exit 1
mkdir -p $D/OUT
jq -r "select(.id==\"$P\") | \"PROPERTY \(.id): \(.title)\n\nSTATEMENT: \(.statement)\n\nQUANTIFIED OVER: \(.quantifier.text)\n\nCODE ANCHORS: \(.anchors.files|join(\", \"))\"" /verif/properties.jsonl > $D/OUT/PROPERTY.txt
sed "s/@ID@/$P$SUF/g; s#PROPERTY.txt\`#PROPERTY.txt\`#" /verif/tools/mutant_task.tmpl > $D/OUT/TASK.md
echo $D
