#!/bin/bash
# usage: keep_mutant.sh <PROP> <name> <patch> <demo|-> "<needs>" [budget]
# evaluates and stores a seeded defect under /verif/seeded/<PROP>-<name>/
P=$1; N=$2; PATCH=$3; DEMO=$4; NEEDS=$5; B=${6:-20}; PKGDIR=${7:-}
D=/verif/seeded/$P-$N; mkdir -p $D
cp $PATCH $D/patch.diff; [ "$DEMO" != "-" ] && cp $DEMO $D/demo_test.go
/verif/tools/eval_mutant.sh $P $PATCH $DEMO $B $PKGDIR > $D/eval.log 2>&1
cat $D/eval.log
SIGS=$(grep -a '^violation in' $D/eval.log | sed 's/^violation in //' | python3 -c "import sys,json; print(json.dumps([l.strip() for l in sys.stdin]))")
CAUGHT=false; grep -aq '^VIOLATION' $D/eval.log && CAUGHT=true
python3 - "$P" "$NEEDS" "$SIGS" "$CAUGHT" "$B" > $D/meta.json <<'PY'
import json,sys
print(json.dumps({"property":sys.argv[1],"needs_to_manifest":sys.argv[2],
 "ran":"tools/eval_mutant.sh: existing module tests with the change; demonstration with and without the change; ./bin/verif check %s --budget %s against a scratch copy of /repo with the change (VERIF_REPO)"%(sys.argv[1],sys.argv[5]),
 "caught":sys.argv[4]=="true","violation_signatures":json.loads(sys.argv[3])},indent=1))
PY
rm -f /verif/replays/$P-*.json
