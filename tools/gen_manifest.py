#!/usr/bin/env python3
"""Generates /verif/MANIFEST.json from the table below (kept valid at all times)."""
import json, os

TECH = "deterministic simulation with fault injection: seeded scheduler in a testing/synctest bubble over a mechanically rewritten copy of the working tree"

NOTE_COMMON = ("Trusted base: simgen (source rewriter), simsync/simatomic (models of sync, sync/atomic), the seeded scheduler, "
               "Go's testing/synctest fake clock, the harness oracles. Context switches happen only at sync/atomic/channel/go/select/"
               "sleep/cancel operations; plain-memory data races are invisible. Sampling, not proof: bounded tasks/operations per run.")

CLAIMED = {}
_cd = os.path.join(os.path.dirname(os.path.abspath(__file__)), "claims")
for _f in sorted(os.listdir(_cd)):
    if _f.endswith(".json"):
        CLAIMED[_f[:-5]] = json.load(open(os.path.join(_cd, _f)))

NA = {
 "C10": "ds.List vs container/list is sequential equivalence over operation histories: no schedule, clock, I/O, fault or second party in the statement, so deterministic simulation has nothing to own (DESIGN.md section 5/C10).",
 "C19": "safemath functions are pure functions of their operands: no schedule, clock, I/O or fault exists for a simulator to control (DESIGN.md section 5/C19).",
}

PENDING = "harness not built yet in this revision (planned, see DESIGN.md section 5); not claimed until its check runs"

ALL = ["C%02d" % i for i in range(1, 21)]

def main():
    checks = []
    for pid in ALL:
        if pid not in CLAIMED:
            continue
        c = CLAIMED[pid]
        checks.append({
            "property_id": pid,
            "quick_cmd": "./bin/verif check %s --tier quick" % pid,
            "thorough_cmd": "./bin/verif check %s --tier thorough" % pid,
            "evidence_file": "/verif/evidence/%s.json" % pid,
            "replay_cmd_template": "./bin/verif replay {path}",
            "engine": "simrt",
            "level_claimed": {"category": c["level"], "text": c["text"], "design_ref": c["design"]},
            "level_note": c.get("note", "") + NOTE_COMMON,
            "technique": c.get("technique", TECH),
        })
    na = []
    for pid in ALL:
        if pid in CLAIMED:
            continue
        na.append({"property_id": pid, "reason": NA.get(pid, PENDING)})
    m = {
        "version": 1,
        "setup_cmd": "./setup.sh",
        "hooks": {
            "guard": "verif",
            "enable": "no hooks in /repo: every check rsyncs /repo's working tree to a scratch directory and rewrites it there with bin/simgen (sync->simsync, sync/atomic->simatomic, channel ops/select/go/map-range/time.Sleep/context cancel -> verifsim/simrt); the build tag 'verif' is reserved and unused",
            "baseline_off_cmd": "./baseline_off.sh",
            "source_commits": [],
            "add_only": True,
        },
        "engines": [{"name": "simrt", "path": "/verif/sim", "serves_properties": sorted(CLAIMED.keys()),
                     "kind_free_text": "deterministic simulator: seeded cooperative scheduler as root goroutine of a testing/synctest bubble, simsync/simatomic models, simgen source rewriter, delta-debugging shrinker, replay files"}],
        "checks": checks,
        "not_applicable": na,
        "notes": "See DESIGN.md. Exit 0 = held on everything explored (KNOWN-FINDING lines for entries of known_findings.json), 1 = VIOLATION line with replay file, 2 = infrastructure trouble.",
    }
    path = os.path.join(os.path.dirname(os.path.dirname(os.path.abspath(__file__))), "MANIFEST.json")
    json.dump(m, open(path, "w"), indent=1)
    print("wrote", path, len(checks), "checks")

if __name__ == "__main__":
    main()
