package adssim

import (
	"fmt"
	"strings"

	"github.com/iotaledger/hive.go/kvstore/mapdb"
	"verifharness/hx"
	"verifsim/simrt"
)

// conc: the same contract under concurrent callers. 2-3 client tasks issue Set/Add, Delete, Get, Has and Size on one
// instance; the recorded history (invoke / return stamped with the simulator's step numbers) must be linearizable
// w.r.t. the plain map model - every history a caller can observe is then one of the sequential histories of C09 -
// and afterwards, with everybody finished, the instance is audited like after a sequential history: contents, Size
// and the content-only Root (canonical table) of whatever the linearization left behind.

type cop struct {
	kind string // put del get has size stream commit
	ki   int
	vi   int8
}

type cout struct {
	ok  bool   // del: existed; get/has: present
	vi  int8   // get: value index (-2 unknown value)
	n   int    // size
	c   string // stream: the reported contents, rendered like the model
	err bool
}

func conc(s *simrt.Sim, f *flavour) {
	ensureCanon(s, f)
	if f.canonFail != "" {
		s.Fail("root-injective", f.name+"-fresh-instances", "%s", f.canonFail)
	}
	w := &world{s: s, f: f, store: mapdb.NewMapDB(), model: make([]int8, f.nkeys), byRoot: map[root]string{}, byContents: map[string]root{}}
	for i := range w.model {
		w.model[i] = -1
	}
	nk := 1 + s.Choose(3)
	avail := make([]int, f.nkeys)
	for i := range avail {
		avail[i] = i
	}
	for i := 0; i < nk; i++ {
		j := s.Choose(len(avail))
		w.palette = append(w.palette, avail[j])
		avail = append(avail[:j], avail[j+1:]...)
	}
	w.in = f.open(w.store)
	// some contents to start from (sequential, before the clients exist)
	for _, ki := range w.palette {
		if s.Choose(2) == 1 {
			w.put(ki, int8(s.Choose(len(f.values))))
		}
	}
	init := w.contents()
	nclients := 2 + s.Choose(2)
	var ops []*hx.LinOp
	kinds := []string{"put", "put", "put", "del", "del", "get", "has", "size", "stream", "commit"}
	commits := 0
	for c := 0; c < nclients; c++ {
		n := 1 + s.Choose(simrt.Bound(3, 4))
		script := make([]cop, n)
		for i := range script {
			script[i] = cop{kind: kinds[s.Choose(len(kinds))], ki: w.palette[s.Choose(len(w.palette))], vi: int8(s.Choose(len(f.values)))}
		}
		s.Go(fmt.Sprintf("client%d", c), func() {
			for _, op := range script {
				lo := &hx.LinOp{In: op, Call: s.Tick()}
				ops = append(ops, lo)
				var out cout
				k := universe[op.ki]
				switch op.kind {
				case "put":
					out.err = w.in.put(k, f.values[op.vi]) != nil
					lo.Desc = fmt.Sprintf("put %s=%d", label(op.ki), op.vi)
				case "del":
					ok, err := w.in.del(k)
					out.ok, out.err = ok, err != nil
					lo.Desc = fmt.Sprintf("del %s -> %v", label(op.ki), ok)
				case "get":
					v, ok, err := w.in.get(k)
					out.ok, out.err, out.vi = ok, err != nil, -2
					for i, x := range f.values {
						if ok && x == v {
							out.vi = int8(i)
						}
					}
					if f.isSet {
						out.vi = 0
					}
					lo.Desc = fmt.Sprintf("get %s -> %v %d", label(op.ki), ok, out.vi)
				case "has":
					ok, err := w.in.has(k)
					out.ok, out.err = ok, err != nil
					lo.Desc = fmt.Sprintf("has %s -> %v", label(op.ki), ok)
				case "size":
					out.n = w.in.size()
					lo.Desc = fmt.Sprintf("size -> %d", out.n)
				case "stream":
					seen := make([]int8, f.nkeys)
					for i := range seen {
						seen[i] = -1
					}
					bad := ""
					err := w.in.stream(func(k key, v val) {
						ki := w.keyIndex(k)
						vi := int8(-1)
						for i, x := range f.values {
							if x == v {
								vi = int8(i)
							}
						}
						if ki < 0 || vi < 0 || seen[ki] >= 0 {
							bad = fmt.Sprintf("entry (%x,%q) is foreign, has an unknown value or is reported twice", k[:], string(v))
							return
						}
						seen[ki] = vi
					})
					out.err = err != nil
					if bad != "" {
						s.Fail("linearizability", w.sig("conc", "stream-entry"), "Stream under concurrent writers: %s", bad)
					}
					out.c = f.render(seen)
					lo.Desc = fmt.Sprintf("stream -> %s", f.describe(out.c))
				case "commit":
					out.err = w.in.commit() != nil
					commits++
					s.Probe("commit-concurrent-with-other-callers")
					lo.Desc = "commit"
				}
				if out.err {
					s.Fail("error", w.sig("conc", op.kind), "%s returned an error on a healthy in-memory store", op.kind)
				}
				lo.Out = out
				lo.Ret = s.Tick()
				s.Logf("%s", lo.Desc)
			}
		})
	}
	left := s.Quiesce()
	hx.Stuck(s, "termination", left, nil)
	// the final audit is part of the history: sequential reads of every key and of the size after everybody returned
	for _, ki := range w.palette {
		lo := &hx.LinOp{In: cop{kind: "get", ki: ki}, Call: s.Tick()}
		v, ok, err := w.in.get(universe[ki])
		w.noErr("get", err)
		out := cout{ok: ok, vi: -2}
		for i, x := range f.values {
			if ok && x == v {
				out.vi = int8(i)
			}
		}
		if f.isSet {
			out.vi = 0
		}
		lo.Out, lo.Ret = out, s.Tick()
		lo.Desc = fmt.Sprintf("final get %s -> %v %d", label(ki), ok, out.vi)
		ops = append(ops, lo)
		if ok {
			w.model[ki] = out.vi
		} else {
			w.model[ki] = -1
		}
	}
	lo := &hx.LinOp{In: cop{kind: "size"}, Call: s.Tick()}
	lo.Out, lo.Ret = cout{n: w.in.size()}, s.Tick()
	lo.Desc = fmt.Sprintf("final size -> %d", lo.Out.(cout).n)
	ops = append(ops, lo)

	flat := make([]hx.LinOp, len(ops))
	for i, o := range ops {
		flat[i] = *o
	}
	step := func(st string, o hx.LinOp) (string, bool) {
		in, out := o.In.(cop), o.Out.(cout)
		b := []byte(st)
		present := func() bool { return b[in.ki] != '-' }
		switch in.kind {
		case "put":
			b[in.ki] = '0' + byte(in.vi)
			return string(b), true
		case "del":
			if out.ok != present() {
				return st, false
			}
			b[in.ki] = '-'
			return string(b), true
		case "get":
			if out.ok != present() {
				return st, false
			}
			return st, !out.ok || f.isSet || b[in.ki] == '0'+byte(out.vi)
		case "has":
			return st, out.ok == present()
		case "stream":
			return st, out.c == st
		case "commit":
			return st, true
		default:
			return st, out.n == len(st)-strings.Count(st, "-")
		}
	}
	if !hx.Linearizable(flat, init, step, func(st string) string { return st }) {
		var lines []string
		for _, o := range flat {
			lines = append(lines, fmt.Sprintf("[%d,%d] %s", o.Call, o.Ret, o.Desc))
		}
		sig := w.sig("conc")
		s.Fail("linearizability", sig, "no sequential order of the calls explains the results, starting from contents %s:\n  %s", f.describe(init), strings.Join(lines, "\n  "))
	}
	// a Commit stores the tree together with its root: whatever else is pending, an instance opened over the store
	// after some Commit has returned shows one consistent committed state - every key readable, and the Root that of
	// the contents it reports
	if commits > 0 {
		in2 := f.open(w.store)
		m2 := make([]int8, f.nkeys)
		for i := range m2 {
			m2[i] = -1
		}
		for _, ki := range w.palette {
			v, ok, err := in2.get(universe[ki])
			if err != nil {
				s.Fail("reopen", w.sig("conc", "get-error"), "instance reopened after %d concurrent Commit calls: Get(%s) fails: %v", commits, label(ki), err)
			}
			if ok {
				m2[ki] = -2
				for i, x := range f.values {
					if x == v || f.isSet {
						m2[ki] = int8(i)
						break
					}
				}
			}
		}
		c2 := f.render(m2)
		if r2, cr := in2.root(), f.canon[c2]; r2 != cr {
			s.Fail("reopen", w.sig("conc", "root-of-committed-state"), "instance reopened after %d concurrent Commit calls reports contents %s but root %x; the root of these contents is %x", commits, f.describe(c2), r2[:6], cr[:6])
		}
		if c2 != w.contents() {
			s.Probe("reopened-state-older-than-final-state")
		}
	}
	// Stream lists exactly what the reads found
	w.checkStream("conc-audit")
	// content-only root after a concurrent history (the model now holds what the final reads returned)
	r := w.in.root()
	s.Logf("final contents %s root %x", f.describe(w.contents()), r[:6])
	w.checkRoot("main-after-concurrent-history", r)
	// and a Commit + reopen still reproduces it
	if s.Choose(2) == 1 {
		w.noErr("commit", w.in.commit())
		in2 := f.open(w.store)
		if r2 := in2.root(); r2 != r {
			s.Fail("reopen", w.sig("conc", "root"), "root %x before, %x after Commit and reopen", r[:6], r2[:6])
		}
		if n, n2 := w.in.size(), in2.size(); n != n2 {
			s.Fail("reopen", w.sig("conc", "size"), "size %d before, %d after Commit and reopen", n, n2)
		}
	}
}
