// Package adssim checks C09: authenticated map / set of /repo/ads against a plain map model, with
// content-only roots (twin instances, per-run and per-process root tables) and faithful reopen.
//
// There is one client task and no concurrency clause in C09. What a run draws from the decision
// stream is the history (operations, keys, values), the places of Commit / reopen, and the order and
// detours by which an independent twin instance is filled with the same contents.
package adssim

import (
	"crypto/sha256"
	"errors"
	"fmt"
	"math/bits"
	"sort"
	"strings"
	"testing"

	"github.com/iotaledger/hive.go/ads"
	"github.com/iotaledger/hive.go/kvstore"
	"github.com/iotaledger/hive.go/kvstore/mapdb"
	"github.com/iotaledger/hive.go/serializer/v2/typeutils"
	"verifharness/hx"
	"verifsim/simrt"
)

func TestSim(t *testing.T) {
	simrt.Main(t,
		&simrt.Harness{Name: "map", Body: func(s *simrt.Sim) { body(s, mapFlavour) }},
		&simrt.Harness{Name: "set", Body: func(s *simrt.Sim) { body(s, setFlavour) }},
		&simrt.Harness{Name: "concmap", Body: func(s *simrt.Sim) { conc(s, mapFlavour) }},
		&simrt.Harness{Name: "concset", Body: func(s *simrt.Sim) { conc(s, setFlavour) }},
	)
}

// ---------------------------------------------------------------------------------------------
// keys, values, codecs

type root = [32]byte

// key is a fixed-width (2 byte) key; val is a byte string that may be empty.
type key [2]byte
type val string

// varKeys (config token "varkeys"): keys serialize to a variable number of bytes (trailing zero bytes are stripped), so
// that one key's bytes can be a proper prefix of another's and one key serializes to zero bytes.
var varKeys = simrt.ConfigHas("varkeys")

func keyToBytes(k key) ([]byte, error) {
	if varKeys {
		switch {
		case k[0] == 0 && k[1] == 0:
			return []byte{}, nil
		case k[1] == 0:
			return []byte{k[0]}, nil
		}
	}
	return []byte{k[0], k[1]}, nil
}

func keyFromBytes(b []byte) (key, int, error) {
	if varKeys {
		switch len(b) {
		case 0:
			return key{}, 0, nil
		case 1:
			return key{b[0], 0}, 1, nil
		case 2:
			return key{b[0], b[1]}, 2, nil
		}
		return key{}, 0, fmt.Errorf("key needs at most 2 bytes, got %d", len(b))
	}
	if len(b) < 2 {
		return key{}, 0, fmt.Errorf("key needs 2 bytes, got %d", len(b))
	}
	return key{b[0], b[1]}, 2, nil
}

// refused is a value the value codec turns down: a Set with it fails and, like every failed call, changes nothing.
const refused = val("\xffrefused")

var errRefused = errors.New("value codec refuses this value")

func valToBytes(v val) ([]byte, error) {
	if v == refused {
		return nil, errRefused
	}
	return []byte(v), nil
}

func valFromBytes(b []byte) (val, int, error) { return val(b), len(b), nil }

// The key universe is searched once, deterministically, in the fixed candidate list 0x0000..0xffff
// (ascending): two clusters of keys whose sha256 (the trie path) share leading bits, so that the
// trie has extension nodes that are split in the middle, joined and absorbed by the histories.
//
//	A = 0x0001
//	B : shares >= 14 leading hash bits with A        (long common extension)
//	C : shares 5..9 bits with A                      (branches off inside that extension)
//	D : shares 1..3 bits with A
//	E : shares 0 bits with A                         (other half of the trie)
//	F : shares >= 12 bits with E
//	G : shares 4..8 bits with E
//	H : shares exactly 1 bit with E
var (
	universe  [8]key
	keyLabels = "ABCDEFGH"
)

func commonPrefix(a, b [32]byte) int {
	for i := range a {
		if x := a[i] ^ b[i]; x != 0 {
			return i*8 + bits.LeadingZeros8(x)
		}
	}
	return 256
}

func init() {
	if varKeys {
		// "", "a", "ab", "b", "ba", "aa", "bb", "c": prefixes of one another, and the empty key
		universe = [8]key{{0, 0}, {'a', 0}, {'a', 'b'}, {'b', 0}, {'b', 'a'}, {'a', 'a'}, {'b', 'b'}, {'c', 0}}
		return
	}
	kOf := func(i int) key { return key{byte(i >> 8), byte(i)} }
	hOf := func(k key) [32]byte { return sha256.Sum256(k[:]) }
	universe[0] = kOf(1)
	ha := hOf(universe[0])
	var he [32]byte
	found := [8]bool{0: true}
	missing := 7
	for i := 0; i < 1<<16 && missing > 0; i++ {
		if i == 1 {
			continue
		}
		k := kOf(i)
		h := hOf(k)
		ca := commonPrefix(ha, h)
		slot := -1
		switch {
		case ca >= 14:
			slot = 1
		case ca >= 5 && ca <= 9:
			slot = 2
		case ca >= 1 && ca <= 3:
			slot = 3
		case ca == 0 && !found[4]:
			slot = 4
		case ca == 0:
			ce := commonPrefix(he, h)
			switch {
			case ce >= 12:
				slot = 5
			case ce >= 4 && ce <= 8:
				slot = 6
			case ce == 1:
				slot = 7
			}
		}
		if slot < 0 || found[slot] {
			continue
		}
		found[slot] = true
		universe[slot] = k
		missing--
		if slot == 4 {
			he = h
		}
	}
	if missing > 0 {
		panic("C09 harness: key universe search failed")
	}
}

func label(ki int) string { return keyLabels[ki : ki+1] }

// ---------------------------------------------------------------------------------------------
// the two flavours behind one interface

type inst interface {
	put(k key, v val) error
	get(k key) (val, bool, error)
	has(k key) (bool, error)
	del(k key) (bool, error)
	stream(f func(k key, v val)) error
	commit() error
	root() root
	size() int
	restored() bool
}

type mapInst struct{ m ads.Map[root, key, val] }

func (i mapInst) put(k key, v val) error       { return i.m.Set(k, v) }
func (i mapInst) get(k key) (val, bool, error) { return i.m.Get(k) }
func (i mapInst) has(k key) (bool, error)      { return i.m.Has(k) }
func (i mapInst) del(k key) (bool, error)      { return i.m.Delete(k) }
func (i mapInst) commit() error                { return i.m.Commit() }
func (i mapInst) root() root                   { return i.m.Root() }
func (i mapInst) size() int                    { return i.m.Size() }
func (i mapInst) restored() bool               { return i.m.WasRestoredFromStorage() }
func (i mapInst) stream(f func(k key, v val)) error {
	return i.m.Stream(func(k key, v val) error { f(k, v); return nil })
}

type setInst struct{ m ads.Set[root, key] }

func (i setInst) put(k key, _ val) error       { return i.m.Add(k) }
func (i setInst) get(k key) (val, bool, error) { h, err := i.m.Has(k); return "", h, err }
func (i setInst) has(k key) (bool, error)      { return i.m.Has(k) }
func (i setInst) del(k key) (bool, error)      { return i.m.Delete(k) }
func (i setInst) commit() error                { return i.m.Commit() }
func (i setInst) root() root                   { return i.m.Root() }
func (i setInst) size() int                    { return i.m.Size() }
func (i setInst) restored() bool               { return i.m.WasRestoredFromStorage() }
func (i setInst) stream(f func(k key, v val)) error {
	return i.m.Stream(func(k key) error { f(k, ""); return nil })
}

type flavour struct {
	name   string
	isSet  bool
	nkeys  int   // the first nkeys keys of the universe
	values []val // value alphabet (index 0 is the empty value)
	open   func(store kvstore.KVStore) inst

	// canonical roots of the whole content universe of this flavour, built once per process inside the
	// first run (see ensureCanon). Roots are a pure function of the contents, so the table is the same
	// in every process and a check against it replays from the decision list alone.
	canon     map[string]root
	canonRev  map[root]string
	canonFail string
}

var mapFlavour = &flavour{
	name: "map", nkeys: 5, values: []val{"", "\x00", "v1"},
	open: func(store kvstore.KVStore) inst {
		return mapInst{ads.NewMap[root](store, typeutils.ByteArray32ToBytes, typeutils.ByteArray32FromBytes, keyToBytes, keyFromBytes, valToBytes, valFromBytes)}
	},
}

var setFlavour = &flavour{
	name: "set", isSet: true, nkeys: 8, values: []val{""},
	open: func(store kvstore.KVStore) inst {
		return setInst{ads.NewSet[root](store, typeutils.ByteArray32ToBytes, typeutils.ByteArray32FromBytes, keyToBytes, keyFromBytes)}
	},
}

// contents are written as one character per universe key: '-' absent, otherwise the value index.
func (f *flavour) render(model []int8) string {
	b := make([]byte, f.nkeys)
	for i := range b {
		if model[i] < 0 {
			b[i] = '-'
		} else {
			b[i] = '0' + byte(model[i])
		}
	}
	return string(b)
}

func (f *flavour) describe(c string) string {
	var parts []string
	for i := 0; i < len(c); i++ {
		if c[i] != '-' {
			if f.isSet {
				parts = append(parts, label(i))
			} else {
				parts = append(parts, fmt.Sprintf("%s=%q", label(i), string(f.values[c[i]-'0'])))
			}
		}
	}
	return "{" + strings.Join(parts, " ") + "}"
}

// ensureCanon fills the canonical root table: every contents of the universe, inserted in ascending
// key order into a fresh store, no overwrite, no delete, no commit. It runs without scheduling
// points, logs nothing and takes no decisions, so the run that happens to be first in a process is
// indistinguishable from any other.
func ensureCanon(s *simrt.Sim, f *flavour) {
	if f.canon != nil {
		return
	}
	s.Atomic(func() {
		f.canon = map[string]root{}
		f.canonRev = map[root]string{}
		model := make([]int8, f.nkeys)
		for i := range model {
			model[i] = -1
		}
		for {
			c := f.render(model)
			in := f.open(mapdb.NewMapDB())
			for i, v := range model {
				if v >= 0 {
					if err := in.put(universe[i], f.values[v]); err != nil && f.canonFail == "" {
						f.canonFail = fmt.Sprintf("building %s: put failed: %v", f.describe(c), err)
					}
				}
			}
			r := in.root()
			if other, dup := f.canonRev[r]; dup && f.canonFail == "" {
				f.canonFail = fmt.Sprintf("fresh instances with contents %s and %s report the same root %x", f.describe(other), f.describe(c), r[:6])
			}
			f.canon[c] = r
			f.canonRev[r] = c
			// next assignment
			i := 0
			for ; i < f.nkeys; i++ {
				model[i]++
				if int(model[i]) < len(f.values) {
					break
				}
				model[i] = -1
			}
			if i == f.nkeys {
				break
			}
		}
	})
}

// ---------------------------------------------------------------------------------------------
// one run

type world struct {
	s       *simrt.Sim
	f       *flavour
	store   kvstore.KVStore
	in      inst
	model   []int8 // per universe key: -1 absent, else value index
	palette []int  // universe key indexes used by this run

	commits    int  // Commits that returned on this store
	dirty      bool // a mutating call was made since the last Commit (or since creation)
	commitRoot root // Root() right after the last Commit
	reopens    int

	db       kvstore.KVStore // shared database: the instance lives in one realm of it, twins in sibling realms
	siblings int

	byRoot     map[root]string // per-run table
	byContents map[string]root
}

func (w *world) sig(parts ...string) string { return w.f.name + "-" + strings.Join(parts, "-") }

func (w *world) contents() string { return w.f.render(w.model) }

func (w *world) count() int {
	n := 0
	for _, v := range w.model {
		if v >= 0 {
			n++
		}
	}
	return n
}

func (w *world) noErr(op string, err error) {
	if err != nil {
		w.s.Fail("error", w.sig(op), "%s returned an error on a healthy in-memory store: %v (contents %s)", op, err, w.f.describe(w.contents()))
	}
}

// checkRoot: same contents => same root (per-run table, canonical table), different contents =>
// different root (per-run table; the canonical table is injective by construction, see body).
func (w *world) checkRoot(who string, r root) {
	c := w.contents()
	if c0, ok := w.byRoot[r]; ok && c0 != c {
		w.s.Fail("root-injective", w.sig(who), "root %x was reported for contents %s earlier in this run and now by the %s instance for different contents %s", r[:6], w.f.describe(c0), who, w.f.describe(c))
	}
	if r0, ok := w.byContents[c]; ok && r0 != r {
		w.s.Fail("root-content-only", w.sig(who, "history"), "contents %s had root %x earlier in this run, the %s instance now reports %x for the same contents", w.f.describe(c), r0[:6], who, r[:6])
	}
	if cr := w.f.canon[c]; cr != r {
		w.s.Fail("root-content-only", w.sig(who, "canonical"), "%s instance with contents %s reports root %x, a fresh instance filled in key order reports %x", who, w.f.describe(c), r[:6], cr[:6])
	}
	w.byRoot[r] = c
	w.byContents[c] = r
}

type pair struct {
	k key
	v val
}

func (w *world) keyIndex(k key) int {
	for i := 0; i < w.f.nkeys; i++ {
		if universe[i] == k {
			return i
		}
	}
	return -1
}

// readers, each compared with the model. oracle is "model" for the live instance and "reopen" right
// after a reopen that follows a Commit.

func (w *world) checkHas(oracle string, ki int) {
	h, err := w.in.has(universe[ki])
	w.noErr("has", err)
	w.s.Logf("has %s -> %v", label(ki), h)
	if h != (w.model[ki] >= 0) {
		w.s.Fail(oracle, w.sig("has"), "Has(%s)=%v, model contents %s", label(ki), h, w.f.describe(w.contents()))
	}
}

func (w *world) checkGet(oracle string, ki int) {
	if w.f.isSet {
		w.checkHas(oracle, ki)
		return
	}
	v, ok, err := w.in.get(universe[ki])
	w.noErr("get", err)
	w.s.Logf("get %s -> %q %v", label(ki), string(v), ok)
	if ok != (w.model[ki] >= 0) {
		w.s.Fail(oracle, w.sig("get", "exists"), "Get(%s) exists=%v, model contents %s", label(ki), ok, w.f.describe(w.contents()))
	}
	if ok && v != w.f.values[w.model[ki]] {
		w.s.Fail(oracle, w.sig("get", "value"), "Get(%s)=%q, model contents %s", label(ki), string(v), w.f.describe(w.contents()))
	}
}

func (w *world) checkSize(oracle string) {
	n := w.in.size()
	w.s.Logf("size -> %d", n)
	if n != w.count() {
		w.s.Fail(oracle, w.sig("size"), "Size()=%d, model has %d entries: %s", n, w.count(), w.f.describe(w.contents()))
	}
}

func (w *world) checkStream(oracle string) {
	var got []pair
	err := w.in.stream(func(k key, v val) { got = append(got, pair{k, v}) })
	w.noErr("stream", err)
	seen := make([]int8, w.f.nkeys)
	for i := range seen {
		seen[i] = -1
	}
	var shown []string
	bad := ""
	for _, p := range got {
		ki := w.keyIndex(p.k)
		if ki < 0 {
			shown = append(shown, fmt.Sprintf("%x=%q", p.k[:], string(p.v)))
			bad = "a key that was never inserted"
			continue
		}
		shown = append(shown, fmt.Sprintf("%s=%q", label(ki), string(p.v)))
		if seen[ki] >= 0 {
			bad = "key " + label(ki) + " twice"
			continue
		}
		vi := int8(-1)
		for j, x := range w.f.values {
			if x == p.v {
				vi = int8(j)
			}
		}
		if vi < 0 {
			bad = "a value that was never stored"
			vi = 99
		}
		seen[ki] = vi
	}
	sort.Strings(shown)
	w.s.Logf("stream -> %v", shown)
	if bad == "" {
		for i := range seen {
			if seen[i] != w.model[i] {
				bad = "entry " + label(i) + " differs"
				break
			}
		}
	}
	if bad != "" {
		w.s.Fail(oracle, w.sig("stream"), "Stream delivered %v (%s), model contents %s", shown, bad, w.f.describe(w.contents()))
	}
}

func (w *world) observeRoot(who string) root {
	r := w.in.root()
	w.s.Logf("root -> %x", r[:6])
	w.checkRoot(who, r)
	return r
}

// audit reads everything.
func (w *world) audit(oracle, who string) {
	w.checkSize(oracle)
	for _, ki := range w.palette {
		w.checkHas(oracle, ki)
		if !w.f.isSet {
			w.checkGet(oracle, ki)
		}
	}
	w.checkStream(oracle)
	w.observeRoot(who)
}

// writers

func (w *world) put(ki int, vi int8) {
	err := w.in.put(universe[ki], w.f.values[vi])
	w.s.Logf("put %s=%q", label(ki), string(w.f.values[vi]))
	w.noErr("put", err)
	w.model[ki] = vi
	w.dirty = true
	w.checkSize("model")
}

func (w *world) del(ki int) {
	d, err := w.in.del(universe[ki])
	w.s.Logf("delete %s -> %v", label(ki), d)
	w.noErr("delete", err)
	if d != (w.model[ki] >= 0) {
		w.s.Fail("model", w.sig("delete", "result"), "Delete(%s)=%v, model contents before the call %s", label(ki), d, w.f.describe(w.contents()))
	}
	w.model[ki] = -1
	w.dirty = true
	w.checkSize("model")
}

func (w *world) commit() {
	err := w.in.commit()
	w.s.Logf("commit")
	w.noErr("commit", err)
	w.commits++
	w.dirty = false
	w.commitRoot = w.in.root()
	w.checkRoot("main", w.commitRoot)
}

// reopen drops the instance and opens a new one over the surviving store. It returns false when the
// run has to end (uncommitted changes were pending: the statement says nothing about the contents then).
func (w *world) reopen() bool {
	clean := !w.dirty
	w.reopens++
	w.s.Fault("reopen")
	w.s.Logf("reopen clean=%v commits=%d", clean, w.commits)
	w.in = nil
	if p, v := hx.Try(func() { w.in = w.f.open(w.store) }); p {
		w.s.Fail("reopen", w.sig("open", "panic"), "opening a new instance over the store panicked (pending uncommitted changes: %v): %v", !clean, v)
	}
	rest := w.in.restored()
	w.s.Logf("restored -> %v", rest)
	if rest != (w.commits > 0) {
		w.s.Fail("reopen", w.sig("restored", "flag"), "WasRestoredFromStorage()=%v on a new instance over a store that saw %d Commit(s)", rest, w.commits)
	}
	if clean {
		r := w.in.root()
		w.s.Logf("root -> %x", r[:6])
		if w.commits > 0 && r != w.commitRoot {
			w.s.Fail("reopen", w.sig("root"), "Root() after reopen %x differs from Root() at the Commit %x; contents at the Commit %s", r[:6], w.commitRoot[:6], w.f.describe(w.contents()))
		}
		w.audit("reopen", "reopened")
		return true
	}
	// Uncommitted changes were dropped: only "does not panic" is required of the readers.
	w.s.Probe("reopen-with-uncommitted-changes")
	if p, v := hx.Try(func() {
		w.in.root()
		w.in.size()
		for _, ki := range w.palette {
			w.in.has(universe[ki])
			w.in.get(universe[ki])
		}
		w.in.stream(func(key, val) {})
	}); p {
		w.s.Fail("reopen", w.sig("uncommitted", "panic"), "reading a new instance opened over a store with uncommitted changes panicked: %v", v)
	}
	return false
}

var twinNoise = []string{"plain", "overwrite", "reinsert", "extra", "midcommit"}

// twin fills a fresh store with the model's contents along another history and compares roots.
func (w *world) twin() {
	s := w.s
	var present []int
	for i, v := range w.model {
		if v >= 0 {
			present = append(present, i)
		}
	}
	// decision-chosen order
	for i := len(present) - 1; i > 0; i-- {
		j := i - s.Choose(i+1) // 0 keeps the element in place
		present[i], present[j] = present[j], present[i]
	}
	noise := s.Choose(len(twinNoise))
	at := 0
	if len(present) > 0 {
		at = s.Choose(len(present))
	}
	var order []string
	for _, ki := range present {
		order = append(order, label(ki))
	}
	s.Logf("twin order=%v detour=%s at=%d", order, twinNoise[noise], at)
	// the twin lives in a store of its own or, when the run uses a shared database, in a sibling realm of it
	var tstore kvstore.KVStore = mapdb.NewMapDB()
	sibling := w.db != nil && s.Choose(2) == 1
	if sibling {
		w.siblings++
		var err error
		if tstore, err = w.db.WithExtendedRealm([]byte{'t', byte(w.siblings)}); err != nil {
			s.Fail("error", w.sig("sibling-realm"), "WithExtendedRealm failed: %v", err)
		}
		s.Probe("twin-in-sibling-realm-of-the-same-database")
	}
	t := w.f.open(tstore)
	if t.restored() {
		s.Fail("reopen", w.sig("restored", "flag", "fresh"), "WasRestoredFromStorage()=true on an instance over an empty store")
	}
	if len(present) == 0 && noise == 3 {
		w.noErr("put", t.put(universe[0], w.f.values[0]))
		_, err := t.del(universe[0])
		w.noErr("delete", err)
	}
	for n, ki := range present {
		v := w.f.values[w.model[ki]]
		if n == at {
			switch noise {
			case 1: // another value first (the set flavour adds twice)
				w.noErr("put", t.put(universe[ki], w.f.values[(int(w.model[ki])+1)%len(w.f.values)]))
			case 2: // insert, delete, insert again
				w.noErr("put", t.put(universe[ki], v))
				_, err := t.del(universe[ki])
				w.noErr("delete", err)
			case 3: // a key that is not part of the contents comes and goes
				for x := 0; x < w.f.nkeys; x++ {
					if w.model[x] < 0 {
						w.noErr("put", t.put(universe[x], w.f.values[0]))
						_, err := t.del(universe[x])
						w.noErr("delete", err)
						break
					}
				}
			case 4:
				w.noErr("commit", t.commit())
			}
		}
		w.noErr("put", t.put(universe[ki], v))
	}
	tr := t.root()
	mr := w.in.root()
	s.Logf("twin root -> %x main root -> %x", tr[:6], mr[:6])
	if tr != mr {
		s.Fail("root-content-only", w.sig("twin", twinNoise[noise]), "main instance reports root %x, twin filled with the same contents %s (order %v, detour %s) reports %x", mr[:6], w.f.describe(w.contents()), order, twinNoise[noise], tr[:6])
	}
	w.checkRoot("twin", tr)
	if n := t.size(); n != w.count() {
		s.Fail("model", w.sig("size", "twin"), "twin Size()=%d, contents %s", n, w.f.describe(w.contents()))
	}
	if sibling {
		// the sibling commits, drops one of the entries it shares with the main instance and commits again: instances
		// in different realms of one database are independent, whatever the sibling's tree discards
		w.noErr("commit", t.commit())
		if len(present) > 0 {
			_, err := t.del(universe[present[s.Choose(len(present))]])
			w.noErr("delete", err)
			w.noErr("commit", t.commit())
		}
		w.audit("sibling", "main-after-sibling-commit")
	}
}

const (
	opPut = iota
	opDelete
	opGet
	opHas
	opSize
	opStream
	opRoot
	opTwin
	opCommit
	opCommitReopen
	opReopen
	nOps
)

var mixes = [][nOps]int{
	// put del get has size stream root twin commit commit+reopen reopen
	{6, 3, 1, 1, 1, 1, 1, 2, 1, 2, 1}, // balanced
	{8, 6, 1, 1, 0, 1, 1, 2, 1, 1, 0}, // churn
	{5, 3, 0, 0, 0, 1, 1, 1, 2, 5, 2}, // persistence
}

func body(s *simrt.Sim, f *flavour) {
	ensureCanon(s, f)
	if f.canonFail != "" {
		s.Fail("root-injective", f.name+"-fresh-instances", "%s", f.canonFail)
	}
	w := &world{s: s, f: f, store: mapdb.NewMapDB(), model: make([]int8, f.nkeys), byRoot: map[root]string{}, byContents: map[string]root{}}
	if s.Choose(2) == 1 {
		// the instance lives in a realm of a database it shares with sibling instances (twins)
		w.db = w.store
		var err error
		if w.store, err = w.db.WithExtendedRealm([]byte{'m'}); err != nil {
			s.Fail("error", f.name+"-realm", "WithExtendedRealm failed: %v", err)
		}
	}
	for i := range w.model {
		w.model[i] = -1
	}
	// palette: 2..4 distinct keys of the universe
	nk := 2 + s.Choose(3)
	avail := make([]int, f.nkeys)
	for i := range avail {
		avail[i] = i
	}
	for i := 0; i < nk; i++ {
		j := s.Choose(len(avail))
		w.palette = append(w.palette, avail[j])
		avail = append(avail[:j], avail[j+1:]...)
	}
	nops := 3 + s.Choose(10)
	mix := s.Choose(len(mixes))
	var names []string
	for _, ki := range w.palette {
		names = append(names, fmt.Sprintf("%s:%x", label(ki), universe[ki][:]))
	}
	s.Logf("config %s keys=%v ops=%d mix=%d", f.name, names, nops, mix)

	w.in = f.open(w.store)
	if w.in.restored() {
		s.Fail("reopen", w.sig("restored", "flag", "fresh"), "WasRestoredFromStorage()=true on an instance over an empty store")
	}
	pick := func() int { return w.palette[s.Choose(len(w.palette))] }
	for i := 0; i < nops; i++ {
		switch s.Weighted(mixes[mix][:]...) {
		case opPut:
			ki := pick()
			if !f.isSet && s.Choose(8) == 7 {
				// a Set the value codec refuses: the error is reported, contents, size and root are what they were
				err := w.in.put(universe[ki], refused)
				s.Logf("put %s=<refused value> -> %v", label(ki), err)
				s.Fault("value-codec-refuses")
				if err == nil {
					s.Fail("error", w.sig("set", "refused-value-accepted"), "Set(%s, v) returned nil although the value codec refused v", label(ki))
				}
				w.audit("model", "main")
				continue
			}
			w.put(ki, int8(s.Choose(len(f.values))))
		case opDelete:
			w.del(pick())
		case opGet:
			w.checkGet("model", pick())
		case opHas:
			w.checkHas("model", pick())
		case opSize:
			w.checkSize("model")
		case opStream:
			w.checkStream("model")
		case opRoot:
			w.observeRoot("main")
		case opTwin:
			w.twin()
		case opCommit:
			w.commit()
		case opCommitReopen:
			w.commit()
			w.reopen()
		case opReopen:
			if !w.reopen() {
				return
			}
		}
	}
	w.audit("model", "main")
	w.twin()
}
