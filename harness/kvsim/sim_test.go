// Package kvsim holds the simulation harnesses of C04 (seq: one client, every result compared call by
// call with a single ordered map keyed by realm||key) and C05 (conc: 2..8 clients, history checked for
// linearizability against that same model).
package kvsim

import (
	"errors"
	"fmt"
	"sort"
	"strings"
	"testing"

	"github.com/iotaledger/hive.go/kvstore"
	"github.com/iotaledger/hive.go/kvstore/debug"
	"github.com/iotaledger/hive.go/kvstore/mapdb"
	"verifsim/simrt"
)

func TestSim(t *testing.T) {
	simrt.Main(t,
		&simrt.Harness{Name: "seq", Body: seqBody},
		&simrt.Harness{Name: "conc", Body: concBody},
		&simrt.Harness{Name: "sharedbatch", Body: sharedBatchBody},
	)
}

// C04 --------------------------------------------------------------------------------------------

var realmMenu = []string{"", "a", "ab", "a\xff", "\xff", "b"}

type view struct {
	name  string
	st    kvstore.KVStore
	rawSt kvstore.KVStore // conc: the un-wrapped mapdb view underneath st
	realm string          // model: the realm this view prepends and strips
	depth int
	desc  string
}

type bop struct {
	del bool
	val string
}

type sbatch struct {
	id               int
	v                *view
	b                kvstore.BatchedMutations
	ops              map[string]bop // model: last operation per (stripped) key
	mixed, cancelled bool
	bufs             [][]byte // caller buffers handed to batch.Set / batch.Delete
}

type seqWorld struct {
	s       *simrt.Sim
	model   map[string]string // full key -> value
	closed  bool
	views   []*view
	batches []*sbatch
	nbatch  int
	audit   kvstore.KVStore // un-wrapped realm-"" view used to read the whole store back
	nval    int
	dbgCnt  int
	opno    int
}

const (
	oGet = iota
	oHas
	oSet
	oDelete
	oDeletePrefix
	oClear
	oIterate
	oIterateKeys
	oFlush
	oRealm
	oNewView
	oBatchOpen
	oBatchSet
	oBatchDelete
	oBatchCommit
	oBatchCancel
)

func seqBody(s *simrt.Sim) {
	w := &seqWorld{s: s, model: map[string]string{}}
	stack := s.Choose(len(stackNames))
	wrapAtSub := stack != 0 && s.Choose(2) == 1
	var cb debug.AccessCallback
	if s.Choose(3) != 1 {
		cb = func(debug.Command, ...[]byte) { w.dbgCnt++ }
	}
	base := mapdb.NewMapDB()
	var err error
	if w.audit, err = base.WithRealm([]byte{}); err != nil {
		s.Fail("contract", "WithRealm-error", "WithRealm on a fresh store: %v", err)
	}
	root := &view{name: "v0", st: base, desc: "mapdb"}
	if !wrapAtSub {
		root.st, root.desc = wrap(stack, base, cb), stackNames[stack]
	}
	w.views = append(w.views, root)
	s.Logf("config stack=%s wrapAt=%s callback=%v", stackNames[stack], map[bool]string{false: "root", true: "sub-view"}[wrapAtSub], cb != nil)
	nviews := 1 + s.Choose(3)
	for i := 0; i < nviews; i++ {
		w.newView()
		if i == 0 && wrapAtSub {
			// the wrapper stack sits on top of a sub-view; the plain handle stays usable next to it
			sv := w.views[len(w.views)-1]
			wv := &view{name: fmt.Sprintf("v%d", len(w.views)), st: wrap(stack, sv.st, cb), realm: sv.realm, depth: sv.depth,
				desc: strings.Replace(stackNames[stack], "mapdb", sv.name, 1)}
			w.views = append(w.views, wv)
			s.Logf("%s = %s", wv.name, wv.desc)
		}
	}

	nops := 6 + s.Choose(25)
	if s.Choose(30) == 29 {
		// rarely a bulk of 300 entries below one view's realm: iterations with an early stop, DeletePrefix and Clear then
		// work on many entries at once (whatever a store does in portions has to look like one ordered map all the same)
		bv := w.views[s.Choose(len(w.views))]
		for i := 0; i < 300; i++ {
			k := bv.realm + fmt.Sprintf("~%03d", i)
			if err := base.Set([]byte(k), []byte("b")); err != nil {
				s.Fail("contract", "Set-error", "initial Set failed: %v", err)
			}
			w.model[k] = "b"
		}
		s.Probe("bulk-of-300-entries")
		s.Logf("300 bulk entries %q000..299", bv.realm+"~")
		nops = 4 + s.Choose(6)
	}
	closeAt := -1 // never
	switch s.Choose(4) {
	case 1:
		closeAt = nops // after the last operation
	case 2:
		closeAt = s.Choose(nops)
	case 3:
		closeAt = nops - 1 - s.Choose(5)
	}
	for w.opno = 0; w.opno < nops; w.opno++ {
		if w.opno == closeAt {
			w.doClose()
		}
		w.step()
	}
	if closeAt == nops {
		w.doClose()
	}
	if w.closed {
		w.sweepClosed()
	} else {
		w.check("end")
	}
}

func (w *seqWorld) doClose() {
	s := w.s
	v := w.views[s.Choose(len(w.views))]
	s.Fault("close")
	err := v.st.Close()
	w.closed = true
	s.Logf("%s.Close() -> %v", v.name, err)
}

// check reads the whole store back through the un-wrapped realm-"" view and compares it with the model.
func (w *seqWorld) check(after string) {
	if w.closed {
		return
	}
	var got []kvp
	err := w.audit.Iterate(kvstore.EmptyPrefix, func(k, v []byte) bool {
		got = append(got, kvp{string(k), string(v)})
		return true
	})
	if err != nil {
		w.s.Fail("contract", "Iterate-error", "read-back Iterate failed: %v", err)
	}
	want := sortedOf(w.model)
	if !eqEntries(got, want) {
		w.s.Fail("contract", "state-after-"+after, "after %s the store holds %s, the ordered map holds %s", after, fmtEntries(got), fmtEntries(want))
	}
}

// open handles the error of a call that cannot fail on an open store and must fail with ErrStoreClosed on
// a closed one. It returns true when the call is to be evaluated against the model.
func (w *seqWorld) open(op string, v *view, err error) bool {
	if w.closed {
		if !isClosedErr(err) {
			w.s.Fail("closed", op+"-after-close", "%s on %s (%s, realm %q) after Close returned %v instead of ErrStoreClosed", op, v.name, v.desc, v.realm, err)
		}
		return false
	}
	if err != nil {
		w.s.Fail("contract", op+"-error", "%s on %s (%s, realm %q) of an open store failed: %v", op, v.name, v.desc, v.realm, err)
	}
	return true
}

func (w *seqWorld) newView() {
	s := w.s
	var cands []*view
	for _, v := range w.views {
		if v.depth < 3 {
			cands = append(cands, v)
		}
	}
	p := cands[s.Choose(len(cands))]
	r := realmMenu[s.Choose(len(realmMenu))]
	ext := s.Choose(2) == 1
	var st kvstore.KVStore
	var err error
	nv := &view{name: fmt.Sprintf("v%d", len(w.views)), depth: p.depth + 1, desc: p.desc}
	if ext {
		st, err = p.st.WithExtendedRealm([]byte(r))
		nv.realm = p.realm + r
	} else {
		st, err = p.st.WithRealm([]byte(r))
		nv.realm = r
	}
	op := map[bool]string{false: "WithRealm", true: "WithExtendedRealm"}[ext]
	s.Logf("%s = %s.%s(%q) -> %v", nv.name, p.name, op, r, err)
	if !w.open(op, p, err) {
		if st != nil {
			s.Fail("closed", op+"-after-close", "%s on %s after Close returned a store together with %v", op, p.name, err)
		}
		return
	}
	nv.st = st
	if got := string(st.Realm()); got != nv.realm {
		s.Fail("contract", op+"-realm", "%s.%s(%q): view of %s has realm %q, want %q", p.name, op, r, p.desc, got, nv.realm)
	}
	if len(w.views) < 8 {
		w.views = append(w.views, nv)
	}
}

// pickKey prefers keys that exist inside the view's realm (or just outside of it).
func (w *seqWorld) pickKey(v *view) []byte {
	s := w.s
	if s.Choose(3) != 0 {
		var in []string
		for _, e := range sortedOf(w.model) {
			if strings.HasPrefix(e.k, v.realm) {
				in = append(in, e.k[len(v.realm):])
			}
		}
		if len(in) > 0 {
			return []byte(in[s.Choose(len(in))])
		}
	}
	return genBytes(s)
}

func (w *seqWorld) pickPrefix(v *view) []byte {
	k := w.pickKey(v)
	if len(k) > 0 && w.s.Choose(2) == 1 {
		k = k[:w.s.Choose(len(k)+1)]
	}
	return k
}

func (w *seqWorld) newValue() string {
	s := w.s
	if s.Choose(6) == 1 {
		return ""
	}
	w.nval++
	return fmt.Sprintf("x%d", w.nval) + string(alphabet[s.Choose(len(alphabet)):][:1])
}

func (w *seqWorld) step() {
	s := w.s
	type opt struct{ kind, weight int }
	opts := []opt{{oGet, 4}, {oHas, 2}, {oSet, 7}, {oDelete, 3}, {oDeletePrefix, 2}, {oClear, 1}, {oIterate, 3}, {oIterateKeys, 3},
		{oFlush, 1}, {oRealm, 1}, {oNewView, 1}}
	if len(w.batches) < 2 {
		opts = append(opts, opt{oBatchOpen, 2})
	}
	if len(w.batches) > 0 {
		opts = append(opts, opt{oBatchSet, 5}, opt{oBatchDelete, 3}, opt{oBatchCommit, 3}, opt{oBatchCancel, 1})
	}
	ws := make([]int, len(opts))
	for i, o := range opts {
		ws[i] = o.weight
	}
	kind := opts[s.Weighted(ws...)].kind
	v := w.views[s.Choose(len(w.views))]
	if w.opno < 3 && !w.closed {
		kind = oSet // start from a populated store
	}
	switch kind {
	case oGet:
		k := w.pickKey(v)
		val, err := v.st.Get(k)
		s.Logf("%s.Get(%q) -> %q, %v", v.name, k, val, err)
		want, ok := w.model[v.realm+string(k)]
		if w.closed || ok {
			if !w.open("Get", v, err) {
				return
			}
			if string(val) != want {
				s.Fail("contract", "Get-wrong-value", "%s.Get(%q) (%s, realm %q) = %q, the ordered map holds %q", v.name, k, v.desc, v.realm, val, want)
			}
			if s.Choose(3) == 1 {
				s.Fault("mutate-returned-value")
				scribble(val)
				s.Logf("scribbled over the value returned by Get")
				w.check("mutate-returned-value:Get")
			}
		} else if !errorsIsNotFound(err) {
			s.Fail("contract", "Get-missing-key", "%s.Get(%q) (%s, realm %q) of a missing key returned %q, %v instead of ErrKeyNotFound", v.name, k, v.desc, v.realm, val, err)
		}
	case oHas:
		k := w.pickKey(v)
		has, err := v.st.Has(k)
		s.Logf("%s.Has(%q) -> %v, %v", v.name, k, has, err)
		if !w.open("Has", v, err) {
			return
		}
		if _, ok := w.model[v.realm+string(k)]; ok != has {
			s.Fail("contract", "Has-wrong", "%s.Has(%q) (%s, realm %q) = %v, the ordered map says %v", v.name, k, v.desc, v.realm, has, ok)
		}
	case oSet:
		k := genBytes(s)
		if s.Choose(2) == 1 {
			k = w.pickKey(v)
		}
		val := w.newValue()
		kb, vb := append([]byte{}, k...), []byte(val)
		if val == "" && s.Choose(2) == 1 {
			vb = nil
		}
		err := v.st.Set(kb, vb)
		s.Logf("%s.Set(%q, %q) -> %v", v.name, k, val, err)
		if !w.open("Set", v, err) {
			return
		}
		w.model[v.realm+string(k)] = val
		if s.Choose(3) == 1 {
			s.Fault("mutate-caller-buffer")
			scribble(kb)
			scribble(vb)
			s.Logf("scribbled over the key and value buffers passed to Set")
			w.check("mutate-caller-buffer:Set")
		} else {
			w.check("Set")
		}
	case oDelete:
		k := w.pickKey(v)
		err := v.st.Delete(append([]byte{}, k...))
		s.Logf("%s.Delete(%q) -> %v", v.name, k, err)
		if !w.open("Delete", v, err) {
			return
		}
		delete(w.model, v.realm+string(k))
		w.check("Delete")
	case oDeletePrefix:
		p := w.pickPrefix(v)
		err := v.st.DeletePrefix(append([]byte{}, p...))
		s.Logf("%s.DeletePrefix(%q) -> %v", v.name, p, err)
		if !w.open("DeletePrefix", v, err) {
			return
		}
		w.modelDeletePrefix(v.realm + string(p))
		w.check("DeletePrefix")
	case oClear:
		err := v.st.Clear()
		s.Logf("%s.Clear() -> %v", v.name, err)
		if !w.open("Clear", v, err) {
			return
		}
		w.modelDeletePrefix(v.realm)
		w.check("Clear")
	case oIterate, oIterateKeys:
		w.iterate(v, kind == oIterateKeys)
	case oFlush:
		err := v.st.Flush()
		s.Logf("%s.Flush() -> %v", v.name, err)
		if w.open("Flush", v, err) {
			w.check("Flush")
		}
	case oRealm:
		r := v.st.Realm()
		s.Logf("%s.Realm() -> %q", v.name, r)
		if string(r) != v.realm {
			s.Fail("contract", "Realm-wrong", "%s.Realm() (%s) = %q, want %q", v.name, v.desc, r, v.realm)
		}
	case oNewView:
		w.newView()
	case oBatchOpen:
		b, err := v.st.Batched()
		s.Logf("b%d = %s.Batched() -> %v", w.nbatch, v.name, err)
		if !w.open("Batched", v, err) {
			if b != nil {
				s.Fail("closed", "Batched-after-close", "Batched on %s after Close returned a batch together with %v", v.name, err)
			}
			return
		}
		w.batches = append(w.batches, &sbatch{id: w.nbatch, v: v, b: b, ops: map[string]bop{}})
		w.nbatch++
	case oBatchSet, oBatchDelete:
		b := w.batches[s.Choose(len(w.batches))]
		var k []byte
		if len(b.ops) > 0 && s.Choose(2) == 1 {
			// the same key again: Set after Delete, Delete after Set, Set after Set
			var ks []string
			for x := range b.ops {
				ks = append(ks, x)
			}
			sort.Strings(ks)
			k = []byte(ks[s.Choose(len(ks))])
		} else {
			k = w.pickKey(b.v)
		}
		kb := append([]byte{}, k...)
		b.bufs = append(b.bufs, kb)
		if kind == oBatchSet {
			val := w.newValue()
			vb := []byte(val)
			b.bufs = append(b.bufs, vb)
			err := b.b.Set(kb, vb)
			s.Logf("b%d(%s).Set(%q, %q) -> %v", b.id, b.v.name, k, val, err)
			// batch.Set / batch.Delete are not among the calls that must fail after Close
			if err != nil && !(w.closed && isClosedErr(err)) {
				s.Fail("contract", "batch.Set-error", "batch.Set on %s failed: %v", b.v.name, err)
			}
			if err == nil {
				if o, ok := b.ops[string(k)]; ok && o.del {
					b.mixed = true
				}
				b.ops[string(k)] = bop{val: val}
			}
		} else {
			err := b.b.Delete(kb)
			s.Logf("b%d(%s).Delete(%q) -> %v", b.id, b.v.name, k, err)
			if err != nil && !(w.closed && isClosedErr(err)) {
				s.Fail("contract", "batch.Delete-error", "batch.Delete on %s failed: %v", b.v.name, err)
			}
			if err == nil {
				if o, ok := b.ops[string(k)]; ok && !o.del {
					b.mixed = true
				}
				b.ops[string(k)] = bop{del: true}
			}
		}
		w.check("batch-op-before-Commit")
	case oBatchCommit:
		i := s.Choose(len(w.batches))
		b := w.batches[i]
		w.batches = append(w.batches[:i:i], w.batches[i+1:]...)
		err := b.b.Commit()
		s.Logf("b%d(%s).Commit() -> %v", b.id, b.v.name, err)
		if !w.open("Commit", b.v, err) {
			return
		}
		if b.mixed {
			s.Probe("commit-set-and-delete-of-one-key")
		}
		if b.cancelled && len(b.ops) > 0 {
			s.Probe("commit-after-cancel")
		}
		if len(w.batches) > 0 {
			s.Probe("commit-while-second-batch-open")
		}
		for k, o := range b.ops {
			if o.del {
				delete(w.model, b.v.realm+k)
			} else {
				w.model[b.v.realm+k] = o.val
			}
		}
		if s.Choose(3) == 1 {
			s.Fault("mutate-caller-buffer")
			for _, buf := range b.bufs {
				scribble(buf)
			}
			s.Logf("scribbled over the %d buffers passed to the committed batch", len(b.bufs))
			w.check("mutate-caller-buffer:Commit")
		} else {
			w.check("Commit")
		}
	case oBatchCancel:
		b := w.batches[s.Choose(len(w.batches))]
		b.b.Cancel()
		s.Logf("b%d(%s).Cancel()", b.id, b.v.name)
		if len(b.ops) > 0 {
			b.cancelled = true
		}
		b.ops = map[string]bop{}
		w.check("Cancel")
	}
}

func errorsIsNotFound(err error) bool {
	return err != nil && errors.Is(err, kvstore.ErrKeyNotFound)
}

func (w *seqWorld) modelDeletePrefix(full string) {
	for k := range w.model {
		if strings.HasPrefix(k, full) {
			delete(w.model, k)
		}
	}
}

func (w *seqWorld) iterate(v *view, keysOnly bool) {
	s := w.s
	p := w.pickPrefix(v)
	given := s.Choose(3) != 0
	back := given && s.Choose(2) == 1
	limit := s.Choose(4) // 0: consume everything
	scrib := s.Choose(3) == 1
	name := map[bool]string{false: "Iterate", true: "IterateKeys"}[keysOnly]
	var got []kvp
	var kept [][2][]byte // what the consumer was handed, looked at again after the iteration
	calls := 0
	stopped := false
	visit := func(k, val []byte) bool {
		calls++
		if stopped {
			return false
		}
		got = append(got, kvp{string(k), string(val)})
		kept = append(kept, [2][]byte{k, val})
		if scrib {
			scribble(k)
			scribble(val)
		}
		if limit > 0 && len(got) == limit {
			stopped = true
			return false
		}
		return true
	}
	var err error
	if keysOnly {
		err = v.st.IterateKeys(append([]byte{}, p...), func(k []byte) bool { return visit(k, nil) }, dirArgs(given, back)...)
	} else {
		err = v.st.Iterate(append([]byte{}, p...), visit, dirArgs(given, back)...)
	}
	s.Logf("%s.%s(%q, %s, stop after %d) -> %s, %v", v.name, name, p, dirName(given, back), limit, fmtEntries(got), err)
	if !w.open(name, v, err) {
		if calls > 0 {
			s.Fail("closed", name+"-after-close", "%s on %s after Close called the consumer %d times", name, v.name, calls)
		}
		return
	}
	if !scrib {
		// what a read hands out is a private copy: it still reads the same when the iteration is over
		for i, kv := range kept {
			if string(kv[0]) != got[i].k || string(kv[1]) != got[i].v {
				s.Fail("contract", name+"-handed-out-memory-changed-later", "%s.%s(%q): entry %d was reported as %q=%q; after the iteration the slices the consumer was handed read %q=%q", v.name, name, p, i, got[i].k, got[i].v, kv[0], kv[1])
			}
		}
	}
	if calls > len(got) {
		s.Fail("contract", name+"-continued-after-stop", "%s.%s(%q): the consumer returned false after %d entries and was called %d times", v.name, name, p, len(got), calls)
	}
	want := selectEntries(sortedOf(w.model), v.realm+string(p), back, limit, len(v.realm))
	if keysOnly {
		for i := range want {
			want[i].v = ""
		}
	}
	if !eqEntries(got, want) {
		s.Fail("contract", name+"-entries", "%s.%s(%q, %s, stop after %d) (%s, realm %q) reported %s, the ordered map gives %s", v.name, name, p, dirName(given, back), limit, v.desc, v.realm, fmtEntries(got), fmtEntries(want))
	}
	if len(p) > 0 && len(got) > 0 {
		full := v.realm + string(p)
		for _, u := range w.views {
			if len(u.realm) > len(v.realm) && (strings.HasPrefix(u.realm, full) || strings.HasPrefix(full, u.realm)) {
				s.Probe("iteration-prefix-reaches-into-longer-realm")
				break
			}
		}
	}
	if limit > 0 && len(got) == limit {
		s.Probe("consumer-stopped-iteration")
	}
	if scrib && len(got) > 0 {
		s.Fault("mutate-returned-value")
		s.Logf("scribbled over every key/value handed to the consumer")
		w.check("mutate-returned-value:" + name)
	}
}

// sweepClosed: after Close every listed call on every view must fail with ErrStoreClosed.
func (w *seqWorld) sweepClosed() {
	s := w.s
	for _, v := range w.views {
		k := []byte("a")
		_, err := v.st.Get(k)
		w.open("Get", v, err)
		_, err = v.st.Has(k)
		w.open("Has", v, err)
		w.open("Set", v, v.st.Set(k, []byte("z")))
		w.open("Delete", v, v.st.Delete(k))
		w.open("DeletePrefix", v, v.st.DeletePrefix(k))
		w.open("Clear", v, v.st.Clear())
		calls := 0
		w.open("Iterate", v, v.st.Iterate(kvstore.EmptyPrefix, func(_, _ []byte) bool { calls++; return true }))
		w.open("IterateKeys", v, v.st.IterateKeys(kvstore.EmptyPrefix, func(_ []byte) bool { calls++; return true }))
		if calls > 0 {
			s.Fail("closed", "Iterate-after-close", "iteration on %s after Close called the consumer", v.name)
		}
		_, err = v.st.WithRealm([]byte("a"))
		w.open("WithRealm", v, err)
		_, err = v.st.WithExtendedRealm([]byte("a"))
		w.open("WithExtendedRealm", v, err)
		_, err = v.st.Batched()
		w.open("Batched", v, err)
		w.open("Flush", v, v.st.Flush())
	}
	for _, b := range w.batches {
		s.Probe("commit-of-pending-batch-after-close")
		w.open("Commit", b.v, b.b.Commit())
	}
	s.Logf("closed sweep over %d views and %d pending batches: every call failed with ErrStoreClosed", len(w.views), len(w.batches))
}
