package kvsim

import (
	"errors"
	"fmt"
	"sort"
	"strings"

	"github.com/anishathalye/porcupine"
	"github.com/iotaledger/hive.go/kvstore"
	"github.com/iotaledger/hive.go/kvstore/debug"
	"github.com/iotaledger/hive.go/kvstore/mapdb"
	"verifharness/hx"
	"verifsim/simrt"
)

// C05 --------------------------------------------------------------------------------------------
//
// History operations are expressed on the single ordered map of the C04 model: every key / prefix is the
// full realm||key string, so operations issued through different views meet on the same state.

const (
	mGet = iota
	mHas
	mSet
	mDelete
	mDeletePrefix // also Clear (prefix = the view's realm)
	mIterate      // also IterateKeys
	mClose
	mBatched // creation of a batch: only observes the closed flag
)

type cin struct {
	kind      int
	name      string // API name, for traces and signatures
	key       string // full key or full prefix
	val       string
	back      bool
	limit     int
	keysOnly  bool
	strip     int
	closeRace bool // the call returned ErrStoreClosed and overlapped a Close call in time
}

type cout struct {
	closed  bool // the call failed with ErrStoreClosed
	found   bool
	val     string
	entries []kvp
}

type cstate struct {
	closed bool
	kv     []kvp // ascending by key, never modified in place
}

func (in cin) write() bool { return in.kind == mSet || in.kind == mDelete || in.kind == mDeletePrefix }

func kvFind(kv []kvp, k string) (int, bool) {
	i := sort.Search(len(kv), func(i int) bool { return kv[i].k >= k })
	return i, i < len(kv) && kv[i].k == k
}

func applyWrite(kv []kvp, in cin) []kvp {
	switch in.kind {
	case mSet:
		i, ok := kvFind(kv, in.key)
		out := make([]kvp, 0, len(kv)+1)
		out = append(out, kv[:i]...)
		out = append(out, kvp{in.key, in.val})
		if ok {
			i++
		}
		return append(out, kv[i:]...)
	case mDelete:
		i, ok := kvFind(kv, in.key)
		if !ok {
			return kv
		}
		out := make([]kvp, 0, len(kv))
		out = append(out, kv[:i]...)
		return append(out, kv[i+1:]...)
	case mDeletePrefix:
		out := make([]kvp, 0, len(kv))
		for _, e := range kv {
			if !strings.HasPrefix(e.k, in.key) {
				out = append(out, e)
			}
		}
		return out
	}
	return kv
}

// cstep is the sequential specification: the C04 model plus the one concession for Close racing with a
// writer (see DESIGN 5/C05): a write that reported ErrStoreClosed while a Close call was in flight may
// or may not have reached the map before the store closed.
func cstep(st cstate, in cin, out cout) (bool, cstate) {
	if in.kind == mClose {
		return true, cstate{closed: true, kv: st.kv}
	}
	if out.closed {
		if st.closed {
			return true, st
		}
		if in.closeRace && in.write() {
			return true, cstate{kv: applyWrite(st.kv, in)}
		}
		return false, st
	}
	if st.closed {
		return false, st
	}
	switch in.kind {
	case mGet:
		i, ok := kvFind(st.kv, in.key)
		return ok == out.found && (!ok || st.kv[i].v == out.val), st
	case mHas:
		_, ok := kvFind(st.kv, in.key)
		return ok == out.found, st
	case mIterate:
		want := selectEntries(st.kv, in.key, in.back, in.limit, in.strip)
		if in.keysOnly {
			for i := range want {
				want[i].v = ""
			}
		}
		return eqEntries(want, out.entries), st
	case mBatched:
		return true, st
	}
	return true, cstate{kv: applyWrite(st.kv, in)}
}

func concModel(init []kvp) porcupine.Model {
	return porcupine.Model{
		Init: func() interface{} { return cstate{kv: init} },
		Step: func(state, input, output interface{}) (bool, interface{}) {
			return cstep(state.(cstate), input.(cin), output.(cout))
		},
		Equal: func(a, b interface{}) bool {
			x, y := a.(cstate), b.(cstate)
			return x.closed == y.closed && eqEntries(x.kv, y.kv)
		},
	}
}

func describe(in cin, out cout) string {
	var b strings.Builder
	switch in.kind {
	case mGet, mHas, mDelete:
		fmt.Fprintf(&b, "%s(%q)", in.name, in.key)
	case mSet:
		fmt.Fprintf(&b, "%s(%q,%q)", in.name, in.key, in.val)
	case mDeletePrefix:
		fmt.Fprintf(&b, "%s(prefix %q)", in.name, in.key)
	case mIterate:
		fmt.Fprintf(&b, "%s(prefix %q, back=%v, stop after %d)", in.name, in.key, in.back, in.limit)
	default:
		b.WriteString(in.name + "()")
	}
	switch {
	case out.closed:
		b.WriteString(" -> ErrStoreClosed")
	case in.kind == mGet && out.found:
		fmt.Fprintf(&b, " -> %q", out.val)
	case in.kind == mGet:
		b.WriteString(" -> ErrKeyNotFound")
	case in.kind == mHas:
		fmt.Fprintf(&b, " -> %v", out.found)
	case in.kind == mIterate:
		b.WriteString(" -> " + fmtEntries(out.entries))
	default:
		b.WriteString(" -> ok")
	}
	return b.String()
}

// script --------------------------------------------------------------------------------------------

const (
	sGet = iota
	sHas
	sSet
	sDelete
	sDeletePrefix
	sClear
	sIterate
	sIterateKeys
	sCommit
	sClose
)

var sNames = []string{"Get", "Has", "Set", "Delete", "DeletePrefix", "Clear", "Iterate", "IterateKeys", "Commit", "Close"}

type bent struct {
	key []byte
	val string
	del bool
}

type cop struct {
	kind        int
	view        int
	key         []byte
	val         string
	given, back bool
	limit       int
	yield       bool
	nested      bool // the iteration consumer reads from the same view
	badDir      bool // the iteration is asked for a direction that does not exist: the call is turned down (panic or error) and nothing else happens
	fresh       bool // Get/Has/Set/Delete go through a view derived right now (while other clients use the parent)
	ents        []bent
}

func (o cop) String() string {
	switch o.kind {
	case sGet, sHas, sDelete, sDeletePrefix:
		return fmt.Sprintf("v%d.%s(%q)", o.view, sNames[o.kind], o.key)
	case sSet:
		return fmt.Sprintf("v%d.Set(%q,%q)", o.view, o.key, o.val)
	case sIterate, sIterateKeys:
		return fmt.Sprintf("v%d.%s(%q,%s,stop=%d,yield=%v)", o.view, sNames[o.kind], o.key, dirName(o.given, o.back), o.limit, o.yield)
	case sCommit:
		var l []string
		for _, e := range o.ents {
			if e.del {
				l = append(l, fmt.Sprintf("Delete(%q)", e.key))
			} else {
				l = append(l, fmt.Sprintf("Set(%q,%q)", e.key, e.val))
			}
		}
		return fmt.Sprintf("v%d.Batched{%s}.Commit", o.view, strings.Join(l, " "))
	}
	return fmt.Sprintf("v%d.%s()", o.view, sNames[o.kind])
}

type hop struct {
	client    int
	in        cin
	out       cout
	call, ret int64
	done      bool
}

type concWorld struct {
	s     *simrt.Sim
	views []*view
	hist  []*hop
	dbg   int
}

func (c *concWorld) begin(client int, in cin) *hop {
	h := &hop{client: client, in: in, call: int64(c.s.Tick())}
	c.hist = append(c.hist, h)
	return h
}

func (c *concWorld) end(h *hop, out cout, err error) {
	h.ret = int64(c.s.Tick())
	if err != nil {
		if !isClosedErr(err) {
			c.s.Fail("contract", h.in.name+"-error", "client%d %s failed with %v", h.client, describe(h.in, out), err)
		}
		out = cout{closed: true}
	}
	h.out = out
	h.done = true
	c.s.Logf("client%d [%d,%d] %s", h.client, h.call, h.ret, describe(h.in, h.out))
}

var concRealms = []string{"", "a", "ab", "b"}
var concSuffixes = []string{"", "a", "b"}

func concBody(s *simrt.Sim) {
	c := &concWorld{s: s}
	wide := simrt.ConfigHas("wide")
	base := mapdb.NewMapDB()
	cb := func(debug.Command, ...[]byte) { c.dbg++ }

	// several views / wrappers of ONE store; realms overlap and are prefixes of each other
	nviews := 2 + s.Choose(3)
	for i := 0; i < nviews; i++ {
		nv := &view{name: fmt.Sprintf("v%d", i)}
		var st kvstore.KVStore
		var err error
		if i > 0 && s.Choose(3) == 1 {
			p := c.views[s.Choose(len(c.views))]
			r := concSuffixes[s.Choose(len(concSuffixes))]
			if len(p.realm)+len(r) > 2 {
				r = ""
			}
			// extend the un-wrapped handle of the parent and wrap afresh
			st, err = p.raw().WithExtendedRealm([]byte(r))
			nv.realm = p.realm + r
			nv.desc = fmt.Sprintf("%s.WithExtendedRealm(%q)", p.name, r)
		} else {
			r := concRealms[s.Choose(len(concRealms))]
			st, err = base.WithRealm([]byte(r))
			nv.realm = r
			nv.desc = fmt.Sprintf("WithRealm(%q)", r)
		}
		if err != nil {
			s.Fail("contract", "WithRealm-error", "view creation on an open store failed: %v", err)
		}
		nv.rawSt = st
		k := s.Choose(len(stackNames))
		nv.st = wrap(k, st, cb)
		nv.desc = strings.Replace(stackNames[k], "mapdb", nv.desc, 1)
		c.views = append(c.views, nv)
		s.Logf("%s = %s realm %q", nv.name, nv.desc, nv.realm)
	}

	// a small pool of full keys, each reachable through at least one view
	var cands []string
	seen := map[string]bool{}
	for _, v := range c.views {
		for _, suf := range concSuffixes {
			if k := v.realm + suf; !seen[k] {
				seen[k] = true
				cands = append(cands, k)
			}
		}
	}
	sort.Strings(cands)
	var pool []string
	npool := 2 + s.Choose(3)
	for len(pool) < npool && len(cands) > 0 {
		i := s.Choose(len(cands))
		pool = append(pool, cands[i])
		cands = append(cands[:i:i], cands[i+1:]...)
	}
	sort.Strings(pool)
	var init []kvp
	for i, k := range pool {
		if s.Choose(2) == 1 {
			val := fmt.Sprintf("i%d", i)
			if err := base.Set([]byte(k), []byte(val)); err != nil {
				s.Fail("contract", "Set-error", "initial Set failed: %v", err)
			}
			init = append(init, kvp{k, val})
		}
	}
	s.Logf("pool %q initial %s", pool, fmtEntries(init))
	if s.Choose(40) == 39 {
		// rarely a bulk of 600 entries below the first view's realm, so that DeletePrefix / Clear / Iterate of that realm
		// work on many entries at once (whatever a store does in portions has to stay one atomic step)
		for i := 0; i < 600; i++ {
			k := c.views[0].realm + fmt.Sprintf("~%03d", i)
			if err := base.Set([]byte(k), []byte("b")); err != nil {
				s.Fail("contract", "Set-error", "initial Set failed: %v", err)
			}
			init = append(init, kvp{k, "b"})
		}
		sort.Slice(init, func(i, j int) bool { return init[i].k < init[j].k })
		s.Probe("bulk-of-600-entries")
		s.Logf("plus 600 bulk entries %q000..599", c.views[0].realm+"~")
	}

	nclients := 2 + s.Choose(3)
	if wide {
		nclients = 5 + s.Choose(4)
	}
	scripts := make([][]cop, nclients)
	for ci := range scripts {
		nops := 3 + s.Choose(6)
		if wide {
			nops = 2
		}
		for j := 0; j < nops; j++ {
			scripts[ci] = append(scripts[ci], c.genOp(pool, fmt.Sprintf("c%d.%d", ci, j)))
		}
	}
	if s.Choose(4) == 1 {
		ci := s.Choose(nclients)
		j := s.Choose(len(scripts[ci]))
		scripts[ci][j] = cop{kind: sClose, view: s.Choose(len(c.views))}
	}
	for ci, sc := range scripts {
		var l []string
		for _, o := range sc {
			l = append(l, o.String())
		}
		s.Logf("script client%d: %s", ci, strings.Join(l, "; "))
	}
	for ci, sc := range scripts {
		s.Go(fmt.Sprintf("client%d", ci), func() { c.run(ci, sc) })
	}
	left := s.Quiesce()
	hx.Stuck(s, "deadlock", left, nil)
	c.verdict(init)
}

func (v *view) raw() kvstore.KVStore { return v.rawSt }

func (c *concWorld) genOp(pool []string, tag string) cop {
	s := c.s
	o := cop{view: s.Choose(len(c.views)), val: tag}
	v := c.views[o.view]
	pick := func() []byte {
		var in []string
		for _, k := range pool {
			if strings.HasPrefix(k, v.realm) {
				in = append(in, k[len(v.realm):])
			}
		}
		if len(in) > 0 && s.Choose(8) != 1 {
			return []byte(in[s.Choose(len(in))])
		}
		return []byte(concSuffixes[s.Choose(len(concSuffixes))])
	}
	prefix := func() []byte {
		k := pick()
		return k[:s.Choose(len(k)+1)]
	}
	o.kind = []int{sGet, sHas, sSet, sDelete, sDeletePrefix, sClear, sIterate, sIterateKeys, sCommit}[s.Weighted(5, 2, 6, 3, 2, 1, 3, 2, 3)]
	switch o.kind {
	case sGet, sHas, sSet, sDelete:
		o.key = pick()
		o.fresh = s.Choose(4) == 3
	case sDeletePrefix:
		o.key = prefix()
	case sIterate, sIterateKeys:
		o.key = prefix()
		o.given = s.Choose(3) != 0
		o.back = o.given && s.Choose(2) == 1
		o.limit = s.Choose(3)
		o.yield = s.Choose(2) == 1
		o.nested = s.Choose(3) == 2
		o.badDir = s.Choose(12) == 11
	case sCommit:
		n := s.Choose(4) // 0: an empty batch is committed
		for i := 0; i < n; i++ {
			e := bent{key: pick(), val: fmt.Sprintf("%s.%d", tag, i), del: s.Choose(3) == 1}
			if i > 0 && s.Choose(4) == 1 {
				e.key = o.ents[i-1].key // mixed Set/Delete of one key: the last one wins
			}
			o.ents = append(o.ents, e)
		}
	}
	return o
}

func (c *concWorld) run(ci int, script []cop) {
	for _, o := range script {
		v := c.views[o.view]
		full := v.realm + string(o.key)
		key := append([]byte{}, o.key...)
		st := v.st
		if o.fresh {
			// a view of the same realm derived while other clients are inside operations on the parent
			nv, err := v.st.WithExtendedRealm([]byte{})
			if err != nil {
				if !isClosedErr(err) {
					c.s.Fail("contract", "WithRealm-error", "client%d: deriving a view failed: %v", ci, err)
				}
				continue
			}
			c.s.Probe("operation-through-freshly-derived-view")
			st = nv
		}
		switch o.kind {
		case sGet:
			h := c.begin(ci, cin{kind: mGet, name: "Get", key: full})
			val, err := st.Get(key)
			if err != nil && errors.Is(err, kvstore.ErrKeyNotFound) {
				c.end(h, cout{}, nil)
			} else {
				c.end(h, cout{found: true, val: string(val)}, err)
			}
		case sHas:
			h := c.begin(ci, cin{kind: mHas, name: "Has", key: full})
			has, err := st.Has(key)
			c.end(h, cout{found: has}, err)
		case sSet:
			h := c.begin(ci, cin{kind: mSet, name: "Set", key: full, val: o.val})
			buf := []byte(o.val)
			err := st.Set(key, buf)
			c.end(h, cout{}, err)
			// the caller re-uses its buffers once the call has returned
			for i := range buf {
				buf[i] = '!'
			}
			for i := range key {
				key[i] = '!'
			}
		case sDelete:
			h := c.begin(ci, cin{kind: mDelete, name: "Delete", key: full})
			err := st.Delete(key)
			c.end(h, cout{}, err)
		case sDeletePrefix:
			h := c.begin(ci, cin{kind: mDeletePrefix, name: "DeletePrefix", key: full})
			err := v.st.DeletePrefix(key)
			c.end(h, cout{}, err)
		case sClear:
			h := c.begin(ci, cin{kind: mDeletePrefix, name: "Clear", key: v.realm})
			err := v.st.Clear()
			c.end(h, cout{}, err)
		case sIterate, sIterateKeys:
			keysOnly := o.kind == sIterateKeys
			if o.badDir {
				// not part of the history: a caller that recovers from the refusal goes on using the store, and so does
				// everybody else (whatever the call held when it gave up is released)
				fed := 0
				var err error
				panicked, _ := hx.Try(func() {
					if keysOnly {
						err = v.st.IterateKeys(key, func([]byte) bool { fed++; return true }, kvstore.IterDirection(7))
					} else {
						err = v.st.Iterate(key, func(_, _ []byte) bool { fed++; return true }, kvstore.IterDirection(7))
					}
				})
				c.s.Probe("iteration-with-unknown-direction-turned-down")
				c.s.Logf("client%d %s(%q, direction 7) -> panicked=%v err=%v fed=%d", ci, sNames[o.kind], full, panicked, err, fed)
				continue
			}
			h := c.begin(ci, cin{kind: mIterate, name: sNames[o.kind], key: full, back: o.back, limit: o.limit, keysOnly: keysOnly, strip: len(v.realm)})
			var got []kvp
			calls := 0
			visit := func(k, val []byte) bool {
				calls++
				got = append(got, kvp{string(k), string(val)})
				if o.yield {
					simrt.Yield() // writers run while the consumer is still being fed
				}
				if o.nested {
					// a consumer that reads from the same view while it is being fed (not part of the recorded history: the
					// point is that the call returns)
					_, _ = v.st.Has(key)
				}
				return !(o.limit > 0 && len(got) >= o.limit)
			}
			var err error
			if keysOnly {
				err = v.st.IterateKeys(key, func(k []byte) bool { return visit(k, nil) }, dirArgs(o.given, o.back)...)
			} else {
				err = v.st.Iterate(key, visit, dirArgs(o.given, o.back)...)
			}
			if o.limit > 0 && calls > o.limit {
				c.s.Fail("contract", sNames[o.kind]+"-continued-after-stop", "client%d: consumer said stop after %d entries and was called %d times", ci, o.limit, calls)
			}
			c.end(h, cout{entries: got}, err)
		case sClose:
			h := c.begin(ci, cin{kind: mClose, name: "Close"})
			err := v.st.Close()
			c.end(h, cout{}, err)
		case sCommit:
			h := c.begin(ci, cin{kind: mBatched, name: "Batched"})
			b, err := v.st.Batched()
			c.end(h, cout{}, err)
			if err != nil {
				continue
			}
			last := map[string]bent{}
			var order []string
			var bufs [][]byte
			for _, e := range o.ents {
				var berr error
				kb := append([]byte{}, e.key...)
				bufs = append(bufs, kb)
				if e.del {
					berr = b.Delete(kb)
				} else {
					vb := []byte(e.val)
					bufs = append(bufs, vb)
					berr = b.Set(kb, vb)
				}
				if berr != nil {
					c.s.Fail("contract", "batch-op-error", "client%d: batch operation failed: %v", ci, berr)
				}
				if _, ok := last[string(e.key)]; !ok {
					order = append(order, string(e.key))
				}
				last[string(e.key)] = e
			}
			// one sub-operation per key, all sharing the interval of the Commit call
			call := int64(c.s.Tick())
			err = b.Commit()
			ret := int64(c.s.Tick())
			// the caller re-uses its buffers once Commit has returned
			for _, bb := range bufs {
				for i := range bb {
					bb[i] = '!'
				}
			}
			if err != nil && !isClosedErr(err) {
				c.s.Fail("contract", "Commit-error", "client%d: Commit failed with %v", ci, err)
			}
			for _, k := range order {
				e := last[k]
				in := cin{kind: mSet, name: "Commit.Set", key: v.realm + k, val: e.val}
				if e.del {
					in = cin{kind: mDelete, name: "Commit.Delete", key: v.realm + k}
				}
				hh := &hop{client: ci, in: in, out: cout{closed: err != nil}, call: call, ret: ret, done: true}
				c.hist = append(c.hist, hh)
				c.s.Logf("client%d [%d,%d] %s", ci, call, ret, describe(hh.in, hh.out))
			}
		}
	}
}

// verdict ---------------------------------------------------------------------------------------------

func (c *concWorld) verdict(init []kvp) {
	s := c.s
	var done []*hop
	for _, h := range c.hist {
		if h.done {
			done = append(done, h)
		}
	}
	// a call that reported ErrStoreClosed while a Close call was in flight may go either way
	for _, h := range done {
		if !h.out.closed {
			continue
		}
		for _, x := range done {
			if x.in.kind == mClose && x.call < h.ret && h.call < x.ret {
				h.in.closeRace = true
			}
		}
		if h.in.closeRace {
			s.Probe("ErrStoreClosed-from-call-overlapping-Close")
		}
	}
	for _, h := range done {
		if h.in.kind != mIterate || h.out.closed {
			continue
		}
		for _, x := range done {
			if x.client != h.client && x.in.write() && x.call < h.ret && h.call < x.ret {
				s.Probe("iteration-overlapped-by-write")
				break
			}
		}
	}
	model := concModel(init)
	switch check(model, done, 1<<62) {
	case porcupine.Ok:
		return
	case porcupine.Unknown:
		s.Probe("porcupine-unknown")
		return
	}
	// name the violation: the first call (by return) at which the history stops being explainable
	sort.SliceStable(done, func(i, j int) bool { return done[i].ret < done[j].ret })
	wit := done[len(done)-1]
	for _, h := range done {
		if check(model, done, h.ret) == porcupine.Illegal {
			wit = h
			break
		}
	}
	// the signature names only the call that completes the contradiction (a handful of values); the calls
	// of other clients that were in flight during it go into the detail
	var during []string
	for _, x := range done {
		if x.client != wit.client && x.call < wit.ret && wit.call < x.ret {
			during = append(during, fmt.Sprintf("client%d %s", x.client, x.in.name))
		}
	}
	sig := wit.in.name
	var b strings.Builder
	for _, h := range done {
		fmt.Fprintf(&b, "\n  client%d [%d,%d] %s", h.client, h.call, h.ret, describe(h.in, h.out))
	}
	s.Fail("linearizability", sig, "no sequential order of the ordered-map model explains the history once client%d's %s [%d,%d] has returned (in flight during it: %s); initial %s; history by return:%s",
		wit.client, describe(wit.in, wit.out), wit.call, wit.ret, strings.Join(during, ", "), fmtEntries(init), b.String())
}

// check runs porcupine on the calls that returned by time upto; writes in flight at that time are kept
// with an open end (they may already have taken effect), reads in flight are dropped.
func check(model porcupine.Model, done []*hop, upto int64) porcupine.CheckResult {
	var ops []porcupine.Operation
	for _, h := range done {
		switch {
		case h.ret <= upto:
			ops = append(ops, porcupine.Operation{ClientId: h.client, Input: h.in, Output: h.out, Call: h.call, Return: h.ret})
		case h.call < upto && (h.in.write() || h.in.kind == mClose):
			ops = append(ops, porcupine.Operation{ClientId: h.client, Input: h.in, Output: h.out, Call: h.call, Return: 1 << 62})
		}
	}
	r, _ := hx.CheckBounded(model, ops, 2000000)
	return r
}

// shared batch ----------------------------------------------------------------------------------------
//
// One BatchedMutations object used by several tasks at once (it guards itself with a lock, so that is a use it is
// built for): fillers record writes of keys nobody else touches while committers commit the same batch. A write
// whose Set/Delete call had returned before a Commit call was invoked is part of that committed batch: it has taken
// effect when the Commit returns - and every recorded write has taken effect once a last Commit, invoked after
// everything has come to rest, has returned. (Whether a batch keeps or drops its writes after a Commit is not
// judged: the keys are written once and by the batch only, so re-applying them changes nothing.)

type sbWrite struct {
	key      string
	val      string
	del      bool
	inv, ret uint64
	err      error
}

func sharedBatchBody(s *simrt.Sim) {
	base := mapdb.NewMapDB()
	var dbg int
	realm := concRealms[s.Choose(len(concRealms))]
	raw, err := base.WithRealm([]byte(realm))
	if err != nil {
		s.Fail("contract", "WithRealm-error", "view creation on an open store failed: %v", err)
	}
	k := s.Choose(len(stackNames))
	st := wrap(k, raw, func(debug.Command, ...[]byte) { dbg++ })
	s.Logf("store = %s realm %q", stackNames[k], realm)
	b, err := st.Batched()
	if err != nil {
		s.Fail("contract", "Batched-error", "Batched on an open store failed: %v", err)
	}
	var writes []*sbWrite
	nf := 2 + s.Choose(2)
	for fi := 0; fi < nf; fi++ {
		n := 1 + s.Choose(3)
		var mine []*sbWrite
		for j := 0; j < n; j++ {
			w := &sbWrite{key: fmt.Sprintf("f%d.%d", fi, j), val: fmt.Sprintf("v%d.%d", fi, j), del: s.Choose(4) == 3}
			if w.del {
				// the key exists before anybody starts
				if err := st.Set([]byte(w.key), []byte("old")); err != nil {
					s.Fail("contract", "Set-error", "initial Set failed: %v", err)
				}
			}
			mine = append(mine, w)
			writes = append(writes, w)
		}
		yields := s.Choose(3)
		s.Go(fmt.Sprintf("filler%d", fi), func() {
			for _, w := range mine {
				for i := 0; i < yields; i++ {
					simrt.Yield()
				}
				w.inv = s.Tick()
				if w.del {
					w.err = b.Delete([]byte(w.key))
				} else {
					w.err = b.Set([]byte(w.key), []byte(w.val))
				}
				w.ret = s.Tick()
				s.Logf("[%d,%d] batch write %s del=%v err=%v", w.inv, w.ret, w.key, w.del, w.err)
				if w.err != nil {
					s.Fail("contract", "batch-op-error", "batch operation on an open store failed: %v", w.err)
				}
			}
		})
	}
	visible := func(w *sbWrite) (bool, string) {
		got, err := st.Get([]byte(w.key))
		if w.del {
			return errors.Is(err, kvstore.ErrKeyNotFound), fmt.Sprintf("Get = (%q,%v), want it deleted", got, err)
		}
		return err == nil && string(got) == w.val, fmt.Sprintf("Get = (%q,%v), want %q", got, err, w.val)
	}
	commit := func(who string) {
		inv := s.Tick()
		err := b.Commit()
		s.Logf("[%d,%d] %s: Commit err=%v", inv, s.Tick(), who, err)
		if err != nil {
			s.Fail("contract", "Commit-error", "%s: Commit failed with %v", who, err)
		}
		for _, w := range writes {
			if w.ret != 0 && w.ret < inv {
				if ok, what := visible(w); !ok {
					s.Fail("batch-write-lost", "recorded-before-commit-invoked", "%s: the batch write of %s had returned (step %d) before this Commit was invoked (step %d), but after the Commit %s", who, w.key, w.ret, inv, what)
				}
			}
		}
	}
	nc := 1 + s.Choose(2)
	for ci := 0; ci < nc; ci++ {
		n := 1 + s.Choose(3)
		yields := s.Choose(4)
		s.Go(fmt.Sprintf("committer%d", ci), func() {
			for j := 0; j < n; j++ {
				for i := 0; i < yields; i++ {
					simrt.Yield()
				}
				commit(fmt.Sprintf("committer%d", ci))
			}
		})
	}
	left := s.Quiesce()
	hx.Stuck(s, "deadlock", left, nil)
	commit("last")
	for _, w := range writes {
		if ok, what := visible(w); !ok {
			s.Fail("batch-write-lost", "after-last-commit", "the batch write of %s (call [%d,%d], no error) never took effect: after a last Commit, invoked when everything had come to rest, %s", w.key, w.inv, w.ret, what)
		}
	}
}
