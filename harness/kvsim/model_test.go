package kvsim

import (
	"errors"
	"fmt"
	"sort"
	"strings"

	"github.com/iotaledger/hive.go/kvstore"
	"github.com/iotaledger/hive.go/kvstore/debug"
	"github.com/iotaledger/hive.go/kvstore/flushkv"
	"verifsim/simrt"
)

// The reference model of C04 (and therefore of C05): ONE ordered map keyed by realm||key plus a closed
// flag. A view is nothing but the realm it prepends and strips.

type kvp struct{ k, v string }

func fmtEntries(l []kvp) string {
	var b strings.Builder
	b.WriteByte('[')
	for i, e := range l {
		if i > 0 {
			b.WriteByte(' ')
		}
		fmt.Fprintf(&b, "%q=%q", e.k, e.v)
	}
	b.WriteByte(']')
	return b.String()
}

func eqEntries(a, b []kvp) bool {
	if len(a) != len(b) {
		return false
	}
	for i := range a {
		if a[i] != b[i] {
			return false
		}
	}
	return true
}

// selectEntries is the model of Iterate/IterateKeys on a list sorted ascending by full key: the entries
// whose full key carries fullPrefix, in the requested direction, the first limit of them (0 = all), with
// strip bytes removed from the front of every key.
func selectEntries(sorted []kvp, fullPrefix string, backward bool, limit int, strip int) []kvp {
	var out []kvp
	for _, e := range sorted {
		if strings.HasPrefix(e.k, fullPrefix) {
			out = append(out, kvp{e.k[strip:], e.v})
		}
	}
	if backward {
		for i, j := 0, len(out)-1; i < j; i, j = i+1, j-1 {
			out[i], out[j] = out[j], out[i]
		}
	}
	if limit > 0 && len(out) > limit {
		out = out[:limit]
	}
	return out
}

func sortedOf(m map[string]string) []kvp {
	out := make([]kvp, 0, len(m))
	for k, v := range m {
		out = append(out, kvp{k, v})
	}
	sort.Slice(out, func(i, j int) bool { return out[i].k < out[j].k })
	return out
}

func isClosedErr(err error) bool { return err != nil && errors.Is(err, kvstore.ErrStoreClosed) }

// wrapper stacks ---------------------------------------------------------------------------------

var stackNames = []string{"mapdb", "flushkv(mapdb)", "debug(mapdb)", "flushkv(debug(mapdb))", "debug(flushkv(mapdb))"}

func wrap(kind int, st kvstore.KVStore, cb debug.AccessCallback) kvstore.KVStore {
	switch kind {
	case 1:
		return flushkv.New(st)
	case 2:
		return debug.New(st, cb)
	case 3:
		return flushkv.New(debug.New(st, cb))
	case 4:
		return debug.New(flushkv.New(st), cb)
	}
	return st
}

// generators --------------------------------------------------------------------------------------

var alphabet = []byte{0x00, 'a', 'b', 0xff}

// genBytes draws a key / prefix of length 0..3 over the alphabet.
func genBytes(s *simrt.Sim) []byte {
	n := s.Weighted(2, 4, 3, 1)
	b := make([]byte, n)
	for i := range b {
		b[i] = alphabet[s.Choose(len(alphabet))]
	}
	return b
}

func dirArgs(given, back bool) []kvstore.IterDirection {
	if !given {
		return nil
	}
	if back {
		return []kvstore.IterDirection{kvstore.IterDirectionBackward}
	}
	return []kvstore.IterDirection{kvstore.IterDirectionForward}
}

func dirName(given, back bool) string {
	if !given {
		return "default"
	}
	if back {
		return "backward"
	}
	return "forward"
}

// scribble overwrites a buffer the store handed out (or that the caller handed in) over its whole
// capacity.
func scribble(b []byte) {
	b = b[:cap(b)]
	for i := range b {
		b[i] ^= 0x5a
	}
}
