package timeheap

// C12, restricted to ds/timeheap.TimeHeap (the only container of that property with an environment seam: the clock).
//
// Reference semantics, read from timeheap.go and stated independently here:
//   - Add(c) stores (now, c); now is read while the heap's lock is held.
//   - Clear() removes every stored entry.
//   - AveragePerSecond(w), at instant now: an entry counts iff now-ts < w (an entry whose age equals w exactly does
//     not count; exact-boundary instants are never generated: all clock advances are multiples of 100ms, all windows
//     are odd multiples of 50ms). The result is (sum of the counts of the counting entries) / w.Seconds() as float32.
//     As the method documents ("older elements are removed from the container") entries that do not count for a
//     query are removed by it and do not reappear for a later, wider window.
//
// Configurations: "seq" (one task, exact reference, op by op) and "conc" (2-3 adders + queriers, interval bounds per
// entry: counts are distinct powers of two, so the reported sum identifies exactly which entries were counted).
// VERIF_CONFIG token "noclear": Clear is never called (keeps a defect of Clear from masking everything else).

import (
	"fmt"
	"math"
	"strings"
	"testing"
	"time"

	"github.com/iotaledger/hive.go/ds/timeheap"
	"verifharness/hx"
	"verifsim/simrt"
)

const grid = 100 * time.Millisecond

var (
	sleepMenu  = []time.Duration{0, grid, 3 * grid, 10 * grid, 25 * grid}
	windowMenu = []time.Duration{grid/2 + 2*grid, grid/2 + 10*grid, grid/2 + 30*grid, grid/2 + 100*grid}
)

func TestSim(t *testing.T) {
	simrt.Main(t,
		&simrt.Harness{Name: "seq", Body: seq},
		&simrt.Harness{Name: "conc", Body: conc, Cfg: simrt.Config{StallMenu: []time.Duration{grid, 10 * grid}}},
	)
}

// close32 reports whether the float32 result equals sum/w up to float32 rounding (two roundings: <= 2.4e-7 relative).
func close32(got float32, sum uint64, w time.Duration) bool {
	want := float64(sum) / w.Seconds()
	return math.Abs(float64(got)-want) <= 1e-6*math.Max(1, math.Abs(want))
}

// ---------------------------------------------------------------------------------------------
// sequential: exact reference

type entry struct {
	ts    time.Time
	count uint64
	gone  string // "", "cleared", "expired"
}

func seq(s *simrt.Sim) {
	withClear := !simrt.ConfigHas("noclear")
	h := timeheap.NewTimeHeap()
	var model []*entry
	cleared := false
	nops := 3 + s.Choose(12)
	s.Logf("config seq ops=%d clear=%v", nops, withClear)
	for i := 0; i < nops; i++ {
		wClear := 0
		if withClear {
			wClear = 1
		}
		switch s.Weighted(4, 3, 4, wClear) {
		case 0:
			c := uint64(s.Choose(6)) // 0 is a legal count
			if s.Choose(8) == 7 {
				c = 1 << 20
			}
			model = append(model, &entry{ts: time.Now(), count: c})
			h.Add(c)
			s.Logf("Add(%d) at %v", c, s.Now())
		case 1:
			d := simrt.Knob(s, sleepMenu...)
			simrt.Sleep(d)
			s.Logf("advance %v", d)
		case 2:
			w := simrt.Knob(s, windowMenu...)
			if s.Choose(10) == 9 {
				// a query with a negative window: nothing is inside it, so every entry is older than the window and is
				// removed like by any other query (its own return value - a sum of nothing over a negative time - is not
				// judged; what is judged is that the removed entries do not come back for a later, wider window)
				for _, e := range model {
					if e.gone == "" {
						e.gone = "expired"
					}
				}
				got := h.AveragePerSecond(-grid)
				s.Probe("query-with-negative-window")
				s.Logf("AveragePerSecond(%v) at %v = %v", -grid, s.Now(), got)
				continue
			}
			now := time.Now()
			var sum uint64
			revived := false
			for _, e := range model {
				if e.gone == "cleared" {
					continue
				}
				age := now.Sub(e.ts)
				if e.gone == "expired" {
					if age < w {
						revived = true // would count under a reading without removal; documented: removed
					}
					continue
				}
				if age < w {
					sum += e.count
				} else {
					e.gone = "expired"
				}
			}
			if revived {
				s.Probe("wider-window-after-narrower")
			}
			got := h.AveragePerSecond(w)
			s.Logf("AveragePerSecond(%v) at %v = %v (reference sum %d)", w, s.Now(), got, sum)
			if !close32(got, sum, w) {
				sig := "average-too-low"
				if float64(got) > float64(sum)/w.Seconds() {
					sig = "average-too-high"
				}
				if cleared {
					sig += ":after-clear"
				}
				s.Fail("windowed-sum", sig, "AveragePerSecond(%v) at %v returned %v = sum %.3f; reference: sum %d -> %v; entries: %s",
					w, s.Now(), got, float64(got)*w.Seconds(), sum, float64(sum)/w.Seconds(), fmtModel(model, now))
			}
		case 3:
			for _, e := range model {
				if e.gone == "" {
					e.gone = "cleared"
				}
			}
			cleared = true
			h.Clear()
			s.Logf("Clear at %v", s.Now())
		}
	}
}

func fmtModel(m []*entry, now time.Time) string {
	var b strings.Builder
	for _, e := range m {
		fmt.Fprintf(&b, "[count %d age %v %s] ", e.count, now.Sub(e.ts), e.gone)
	}
	return b.String()
}

// ---------------------------------------------------------------------------------------------
// concurrent: interval bounds per entry

type iv struct {
	inv, ret uint64    // steps (ret == 0: not returned)
	t0, t1   time.Time // fake clock at invocation / return
}

func (a *iv) begin(s *simrt.Sim) { a.inv, a.t0 = s.Tick(), time.Now() }
func (a *iv) end(s *simrt.Sim)   { a.t1, a.ret = time.Now(), s.Tick() }

type addOp struct {
	iv
	bit int
}

type remOp struct { // Clear (w == 0) or AveragePerSecond(w)
	iv
	w time.Duration
}

type cworld struct {
	s    *simrt.Sim
	t0   time.Time
	h    *timeheap.TimeHeap
	adds []*addOp
	rems []*remOp
}

// certainlyBefore: x returned before y was invoked.
func certainlyBefore(x, y *iv) bool { return x.ret != 0 && x.ret < y.inv }

// possiblyBefore: x may have taken effect before y did.
func possiblyBefore(x, y *iv) bool { return y.ret == 0 || x.inv < y.ret }

// minAge / maxAge of the entry of add a at the instant removal/query q took effect.
func minAge(a *addOp, q *iv) time.Duration {
	if a.ret == 0 {
		return 0
	}
	if d := q.t0.Sub(a.t1); d > 0 {
		return d
	}
	return 0
}

func maxAge(a *addOp, q *iv) time.Duration {
	t1 := q.t1
	if q.ret == 0 {
		t1 = time.Now()
	}
	return t1.Sub(a.t0)
}

// query performs AveragePerSecond(w) and checks the reported sum entry by entry.
func (cw *cworld) query(w time.Duration) {
	s := cw.s
	q := &remOp{w: w}
	q.begin(s)
	cw.rems = append(cw.rems, q)
	got := cw.h.AveragePerSecond(w)
	q.end(s)
	raw := float64(got) * w.Seconds()
	sum := uint64(math.Round(raw))
	s.Logf("AveragePerSecond(%v) in [%v,%v] = %v (sum %d)", w, q.t0.Sub(cw.start()), q.t1.Sub(cw.start()), got, sum)
	afterClear := false
	for _, x := range cw.rems {
		if x.w == 0 && possiblyBefore(&x.iv, &q.iv) {
			afterClear = true
		}
	}
	suffix := ""
	if afterClear {
		suffix = ":after-clear"
	}
	var invoked uint64
	for _, a := range cw.adds {
		invoked |= 1 << uint(a.bit)
	}
	if raw < -0.01 || math.Abs(raw-float64(sum)) > 0.01 || !close32(got, sum, w) || sum&^invoked != 0 {
		s.Fail("windowed-sum", "not-a-sum-of-added-counts"+suffix, "AveragePerSecond(%v) = %v is %.4f per window: not a sum of counts whose Add was invoked (mask %b)", w, got, raw, invoked)
	}
	for _, a := range cw.adds {
		counted := sum&(1<<uint(a.bit)) != 0
		must, may, why := cw.bounds(a, q)
		if counted && !may {
			s.Fail("windowed-sum", "average-too-high"+suffix, "AveragePerSecond(%v) in steps [%d,%d] counted add#%d (steps [%d,%d], age %v..%v) which %s; sum %d", w, q.inv, q.ret, a.bit, a.inv, a.ret, minAge(a, &q.iv), maxAge(a, &q.iv), why, sum)
		}
		if !counted && must {
			s.Fail("windowed-sum", "average-too-low"+suffix, "AveragePerSecond(%v) in steps [%d,%d] did not count add#%d (steps [%d,%d], age %v..%v) which was added before, is inside the window and was neither cleared nor expired; sum %d", w, q.inv, q.ret, a.bit, a.inv, a.ret, minAge(a, &q.iv), maxAge(a, &q.iv), sum)
		}
	}
}

func (cw *cworld) start() time.Time { return cw.t0 }

// bounds: must = the entry certainly counts for q; may = it possibly counts; why explains !may.
func (cw *cworld) bounds(a *addOp, q *remOp) (must, may bool, why string) {
	must = certainlyBefore(&a.iv, &q.iv) && maxAge(a, &q.iv) < q.w
	may = true
	switch {
	case !possiblyBefore(&a.iv, &q.iv):
		may, why = false, "was invoked after the query returned"
	case minAge(a, &q.iv) >= q.w:
		may, why = false, "is older than the window"
	}
	for _, x := range cw.rems {
		if x == q {
			continue
		}
		// x certainly took effect between a and q
		if certainlyBefore(&a.iv, &x.iv) && certainlyBefore(&x.iv, &q.iv) {
			if x.w == 0 {
				may, why = false, "was cleared before"
			} else if minAge(a, &x.iv) >= x.w {
				may, why = false, fmt.Sprintf("was already older than the window of an earlier AveragePerSecond(%v) (documented: removed)", x.w)
			}
		}
		// x possibly took effect between a and q
		if !certainlyBefore(&x.iv, &a.iv) && possiblyBefore(&x.iv, &q.iv) {
			if x.w == 0 || maxAge(a, &x.iv) >= x.w {
				must = false
			}
		}
	}
	return
}

func (cw *cworld) clear() {
	c := &remOp{}
	c.begin(cw.s)
	cw.rems = append(cw.rems, c)
	cw.h.Clear()
	c.end(cw.s)
	cw.s.Logf("Clear")
}

func conc(s *simrt.Sim) {
	withClear := !simrt.ConfigHas("noclear")
	cw := &cworld{s: s, t0: time.Now(), h: timeheap.NewTimeHeap()}
	nadd := 2 + s.Choose(2)
	s.Logf("config conc adders=%d clear=%v", nadd, withClear)
	bit := 0
	for i := 0; i < nadd; i++ {
		n := 1 + s.Choose(4)
		type step struct {
			sleep time.Duration
			a     *addOp
		}
		steps := make([]step, n)
		for j := range steps {
			steps[j] = step{simrt.Knob(s, sleepMenu...), &addOp{bit: bit}}
			bit++
		}
		s.Go(fmt.Sprintf("adder%d", i), func() {
			for _, st := range steps {
				if st.sleep > 0 {
					simrt.Sleep(st.sleep)
				}
				st.a.begin(s)
				cw.adds = append(cw.adds, st.a)
				cw.h.Add(1 << uint(st.a.bit))
				st.a.end(s)
				s.Logf("Add(1<<%d) in [%v,%v]", st.a.bit, st.a.t0.Sub(cw.start()), st.a.t1.Sub(cw.start()))
			}
		})
	}
	nq := 1 + s.Choose(2)
	for i := 0; i < nq; i++ {
		n := 1 + s.Choose(4)
		type step struct {
			sleep time.Duration
			w     time.Duration // 0 = Clear
		}
		steps := make([]step, n)
		for j := range steps {
			steps[j] = step{simrt.Knob(s, sleepMenu...), simrt.Knob(s, windowMenu...)}
			if withClear && s.Choose(5) == 4 {
				steps[j].w = 0
			}
		}
		s.Go(fmt.Sprintf("querier%d", i), func() {
			for _, st := range steps {
				if st.sleep > 0 {
					simrt.Sleep(st.sleep)
				}
				if st.w == 0 {
					cw.clear()
				} else {
					cw.query(st.w)
				}
			}
		})
	}
	left := s.Quiesce()
	hx.Stuck(s, "termination", left, nil)
	// everything has returned: a final narrow-to-wide pair of queries decides every entry up to its timestamp interval
	cw.query(simrt.Knob(s, windowMenu...))
	simrt.Sleep(simrt.Knob(s, sleepMenu...))
	cw.query(windowMenu[len(windowMenu)-1])
}
