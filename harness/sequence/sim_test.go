package sequence

import (
	"fmt"
	"sort"
	"testing"

	"github.com/iotaledger/hive.go/kvstore"
	"verifharness/faultkv"
	"verifsim/simrt"
)

func TestSim(t *testing.T) {
	simrt.Main(t,
		&simrt.Harness{Name: "enum", Body: enum},
		&simrt.Harness{Name: "conc", Body: conc},
	)
}

// A scenario is a series of lifetimes of Sequence objects over one persistent store.
type opKind int

const (
	opNext opKind = iota
	opRelease
)

type lifetime struct {
	interval uint64
	scripts  [][]opKind // one script per task
	end      int        // 0 clean (tasks finish), 1 crash (chosen site), 2 abandon after the scripts finished without Release
}

type result struct {
	val      uint64
	inv, ret uint64
	life     int
}

type world struct {
	s         *simrt.Sim
	store     *faultkv.Store
	results   []result
	allowance uint64 // numbers that may legitimately be skipped before the next returned number
	maxRet    uint64
	anyRet    bool
	sites     int // store-call boundaries seen in the watched lifetime
	watch     int // lifetime whose boundaries are counted / crashed
	crashAt   int // boundary index at which the watched lifetime crashes (-1 none)
	failAt    int // boundary index (before-sites only) at which the store call fails (-1 none)
	curLife   int
	crashed   bool
	failed    bool
	tag       string
}

var key = []byte("seq")

func (w *world) sig(kind string) string { return kind + w.tag }

func (w *world) record(life int, v uint64, inv, ret uint64) {
	s := w.s
	for _, r := range w.results {
		if r.val == v {
			s.Fail("unique", w.sig("number-reused"), "number %d returned twice (lifetime %d call [%d,%d] and lifetime %d call [%d,%d])", v, r.life, r.inv, r.ret, life, inv, ret)
		}
		if r.ret < inv && r.val >= v {
			s.Fail("monotonic", w.sig("not-increasing"), "Next returned %d (lifetime %d) after an earlier call had already returned %d (lifetime %d)", v, life, r.val, r.life)
		}
	}
	w.results = append(w.results, result{v, inv, ret, life})
}

// runLife executes one lifetime; returns after its tasks finished or were frozen.
func (w *world) runLife(li int, l *lifetime) {
	s := w.s
	w.curLife = li
	w.crashed = false
	group := 100 + li
	// the constructor runs as a task of the lifetime: an implementation may already touch the store there (reserve the
	// first interval eagerly), so it can be hit by the crash or by the failing store call like any other call
	var seq *kvstore.Sequence
	var err error
	constructed := false
	s.GoGroup(fmt.Sprintf("life%d.new", li), group, func() {
		seq, err = kvstore.NewSequence(w.store, key, l.interval)
		constructed = true
	})
	s.Quiesce()
	if !constructed {
		// crashed inside the constructor: whatever it had reserved is lost, at most one interval
		w.allowance += l.interval
		return
	}
	if err != nil {
		if !w.failed {
			s.Fail("api", "newsequence-error", "NewSequence failed without an injected store failure: %v", err)
		}
		s.Probe("constructor-returned-injected-error")
		return
	}
	var got []uint64
	type iv struct{ inv, ret uint64 }
	var nexts, releases []*iv // call intervals (ret == 0: never returned)
	for ti, script := range l.scripts {
		name := fmt.Sprintf("life%d.task%d", li, ti)
		s.GoGroup(name, group, func() {
			for _, op := range script {
				switch op {
				case opNext:
					c := &iv{inv: s.Tick()}
					nexts = append(nexts, c)
					v, err := seq.Next()
					c.ret = s.Tick()
					if err != nil {
						if !w.failed {
							s.Fail("api", w.sig("next-spurious-error"), "Next failed without an injected store failure: %v", err)
						}
						s.Probe("next-returned-injected-error")
						s.Logf("%s Next -> error %v", name, err)
						continue
					}
					s.Logf("%s Next -> %d", name, v)
					w.record(li, v, c.inv, c.ret)
					got = append(got, v)
				case opRelease:
					c := &iv{inv: s.Tick()}
					err := seq.Release()
					s.Logf("%s Release -> %v", name, err)
					if err == nil {
						c.ret = s.Tick()
						releases = append(releases, c)
					}
				}
			}
		})
	}
	s.Quiesce()
	// accounting for the waste bound
	sort.Slice(got, func(i, j int) bool { return got[i] < got[j] })
	inflight := uint64(0) // Next calls that never returned (crash): their numbers are assigned but unobserved
	for _, n := range nexts {
		if n.ret == 0 {
			inflight++
		}
	}
	if inflight > 0 {
		s.Probe("crash-with-next-in-flight")
	}
	if uint64(len(got)) > l.interval {
		s.Probe("lease-renewed-inside-lifetime")
	}
	if len(got) > 0 && len(w.results) > len(got) {
		s.Probe("lifetime-continues-an-earlier-one")
	}
	if len(got) > 0 {
		first := got[0]
		limit := w.allowance + inflight
		if w.anyRet {
			limit += w.maxRet + 1
		}
		if first > limit {
			s.Fail("waste", w.sig("too-many-skipped"), "lifetime %d starts at %d but at most %d is allowed (largest number returned before: %d (any=%v), allowance %d)", li, first, limit, w.maxRet, w.anyRet, w.allowance)
		}
		w.allowance = 0
		if !w.failed && !w.crashed {
			for i := 1; i < len(got); i++ {
				if got[i] != got[i-1]+1 {
					s.Fail("waste", w.sig("gap-inside-lifetime"), "lifetime %d handed out %v: numbers skipped without a crash", li, got)
				}
			}
		}
		if got[len(got)-1] > w.maxRet || !w.anyRet {
			w.maxRet = got[len(got)-1]
		}
		w.anyRet = true
	}
	// clean end: some successful Release was invoked after every Next call of the lifetime had returned
	clean := false
	if !w.crashed {
		for _, r := range releases {
			ok := true
			for _, n := range nexts {
				if n.ret == 0 || n.ret > r.inv {
					ok = false
				}
			}
			if ok {
				clean = true
			}
		}
	}
	if clean {
		s.Probe("lifetime-ended-with-clean-release")
	} else if !w.crashed {
		s.Probe("lifetime-abandoned-without-release")
	}
	if len(nexts) == 0 && len(releases) > 0 {
		s.Probe("release-on-object-that-never-called-next")
	}
	if !clean {
		// crash / abandon: at most one interval is wasted, plus the numbers already assigned to calls that were in
		// flight when the process stopped (no implementation can hand those out again safely)
		w.allowance += l.interval + inflight
	}
}

func (w *world) hooks() {
	w.store.Before = func(op string) bool {
		if w.curLife != w.watch {
			return false
		}
		site := w.sites
		w.sites++
		if site == w.crashAt {
			w.s.Fault("crash-before-store-call")
			w.s.Logf("CRASH before %s", op)
			w.crashed = true
			w.s.FreezeGroup(100 + w.curLife)
		}
		if site == w.failAt {
			w.s.Fault("store-call-fails")
			w.s.Logf("FAIL %s", op)
			w.failed = true
			return true
		}
		return false
	}
	w.store.After = func(op string) {
		if w.curLife != w.watch {
			return
		}
		site := w.sites
		w.sites++
		if site == w.crashAt {
			w.s.Fault("crash-after-store-call")
			w.s.Logf("CRASH after %s", op)
			w.crashed = true
			w.s.FreezeGroup(100 + w.curLife)
		}
	}
}

func genScript(s *simrt.Sim, maxOps int) []opKind {
	n := 1 + s.Choose(maxOps)
	sc := make([]opKind, n)
	for i := range sc {
		if s.Choose(4) == 3 {
			sc[i] = opRelease
		}
	}
	return sc
}

func genScenario(s *simrt.Sim, maxTasks, maxOps int) []*lifetime {
	n := 2 + s.Choose(simrt.Bound(3, 5))
	var ls []*lifetime
	// one scenario in three does not start at zero: an earlier deployment with a huge interval handed out one number and
	// was abandoned, which leaves the stored counter just below a power of 256 (the numbers of the following lifetimes
	// then cross a byte, word or double-word boundary of the stored representation inside one lease)
	if s.Choose(3) == 2 {
		shift := []uint{8, 16, 32, 48}[s.Choose(4)]
		ls = append(ls, &lifetime{interval: uint64(1)<<shift - uint64(1+s.Choose(3)), scripts: [][]opKind{{opNext}}})
		s.Probe("counter-starts-just-below-a-power-of-256")
	}
	for i := 0; i < n; i++ {
		l := &lifetime{interval: simrt.Knob[uint64](s, 1, 2, 3, 5, 8)}
		nt := 1 + s.Choose(maxTasks)
		for t := 0; t < nt; t++ {
			l.scripts = append(l.scripts, genScript(s, maxOps))
		}
		// frequently: a lifetime that only releases (object that never called Next)
		if s.Choose(5) == 4 {
			l.scripts = [][]opKind{{opRelease}}
		}
		ls = append(ls, l)
	}
	return ls
}

func (w *world) runAll(ls []*lifetime) {
	for i, l := range ls {
		w.runLife(i, l)
		if w.s.Failed() {
			return
		}
	}
}

func describe(ls []*lifetime) string {
	out := ""
	for i, l := range ls {
		out += fmt.Sprintf("[life%d interval=%d", i, l.interval)
		for _, sc := range l.scripts {
			out += " "
			for _, o := range sc {
				if o == opNext {
					out += "N"
				} else {
					out += "R"
				}
			}
		}
		out += "]"
	}
	return out
}

// enum: single-task lifetimes; for one chosen lifetime EVERY store-call boundary is tried as crash point and every
// store call as failing call (complete enumeration for the generated scenario), each in a fresh world.
func enum(s *simrt.Sim) {
	ls := genScenario(s, 1, 4)
	watch := s.Choose(len(ls))
	s.Logf("scenario %s watch=life%d", describe(ls), watch)
	// dry run: no faults
	dry := &world{s: s, store: faultkv.New(s), watch: watch, crashAt: -1, failAt: -1, tag: ""}
	dry.store.AtomicOps = true
	dry.hooks()
	dry.runAll(ls)
	sites := dry.sites
	s.Logf("dry run done: %d boundaries in life%d", sites, watch)
	for c := 0; c < sites; c++ {
		w := &world{s: s, store: faultkv.New(s), watch: watch, crashAt: c, failAt: -1, tag: ":after-crash"}
		w.store.AtomicOps = true
		w.hooks()
		s.Logf("--- world crash at boundary %d", c)
		w.runAll(ls)
	}
	for f := 0; f < sites; f += 2 { // before-sites only
		w := &world{s: s, store: faultkv.New(s), watch: watch, crashAt: -1, failAt: f, tag: ":after-store-error"}
		w.store.AtomicOps = true
		w.hooks()
		s.Logf("--- world store failure at boundary %d", f)
		w.runAll(ls)
	}
}

// conc: 1-3 tasks per lifetime share one Sequence; crash points and schedules are sampled.
func conc(s *simrt.Sim) {
	ls := genScenario(s, 3, 5)
	watch := s.Choose(len(ls))
	w := &world{s: s, store: faultkv.New(s), watch: watch, crashAt: -1, failAt: -1}
	w.store.AtomicOps = true
	switch s.Choose(3) {
	case 1:
		w.crashAt = s.Choose(12)
		w.tag = ":after-crash"
	case 2:
		w.failAt = 2 * s.Choose(6)
		w.tag = ":after-store-error"
	}
	s.Logf("scenario %s watch=life%d crashAt=%d failAt=%d", describe(ls), watch, w.crashAt, w.failAt)
	w.hooks()
	w.runAll(ls)
}
