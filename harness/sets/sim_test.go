// Package sets holds the C11 harnesses: ds.Set and ds/orderedmap.OrderedMap (with
// SerializableOrderedMap, SetMutations, SetArithmetic) against an insertion-ordered model.
//
//	seqset  (1 task)     every ds.Set method, op by op, against the model           (validates the model)
//	seqmap  (1 task)     every OrderedMap method + SerializableOrderedMap round trip (validates the model)
//	concset (2..4 tasks) one shared ds.Set: deadlock oracle, linearizability of the apply-lock users
//	                     (check A) and of the per-element sub-operations incl. readers (check B)
//	concmap (2..4 tasks) one shared OrderedMap: linearizability incl. order, iteration under mutation
//
// VERIF_CONFIG token "nodeleteall" removes DeleteAll from the concset mix (DeleteAll re-acquires the apply
// read lock it already holds; the resulting deadlock would otherwise end many runs before their
// histories are checked).
package sets

import (
	"errors"
	"fmt"
	"math/bits"
	"sort"
	"strings"
	"testing"

	"github.com/anishathalye/porcupine"
	"github.com/iotaledger/hive.go/ds"
	"github.com/iotaledger/hive.go/ds/orderedmap"
	"github.com/iotaledger/hive.go/ds/serializableorderedmap"
	"github.com/iotaledger/hive.go/serializer/v2/serix"
	"verifharness/hx"
	"verifsim/simrt"
)

func TestSim(t *testing.T) {
	simrt.Main(t,
		&simrt.Harness{Name: "seqset", Body: seqSet},
		&simrt.Harness{Name: "seqmap", Body: seqMap},
		&simrt.Harness{Name: "concset", Body: concSet},
		&simrt.Harness{Name: "concmap", Body: concMap},
	)
}

// E is the element / key type (serix encodes fixed-size integers, not int).
type E = int32

// ---------------------------------------------------------------------------------------------
// insertion-ordered model: a slice without duplicates, oldest first

func has(l []E, e E) bool {
	for _, x := range l {
		if x == e {
			return true
		}
	}
	return false
}

func clone(l []E) []E { return append([]E{}, l...) }

func without(l []E, e E) []E {
	out := make([]E, 0, len(l))
	for _, x := range l {
		if x != e {
			out = append(out, x)
		}
	}
	return out
}

func eq(a, b []E) bool {
	if len(a) != len(b) {
		return false
	}
	for i := range a {
		if a[i] != b[i] {
			return false
		}
	}
	return true
}

func sorted(l []E) []E {
	out := clone(l)
	sort.Slice(out, func(i, j int) bool { return out[i] < out[j] })
	return out
}

func sameSet(a, b []E) bool { return eq(sorted(a), sorted(b)) }

// subsetOf: every element of a occurs in b, none twice in a.
func subsetOf(a, b []E) bool {
	seen := map[E]bool{}
	for _, e := range a {
		if seen[e] || !has(b, e) {
			return false
		}
		seen[e] = true
	}
	return true
}

// subseq: sub appears in of in the same relative order.
func subseq(sub, of []E) bool {
	i := 0
	for _, x := range of {
		if i < len(sub) && sub[i] == x {
			i++
		}
	}
	return i == len(sub)
}

func keep(l []E, pred func(E) bool) []E {
	out := []E{}
	for _, x := range l {
		if pred(x) {
			out = append(out, x)
		}
	}
	return out
}

func reversed(l []E) []E {
	out := make([]E, len(l))
	for i, x := range l {
		out[len(l)-1-i] = x
	}
	return out
}

func maskOf(l []E) uint8 {
	var m uint8
	for _, e := range l {
		m |= 1 << uint(e)
	}
	return m
}

func enc(l []E) string {
	b := make([]byte, len(l))
	for i, e := range l {
		b[i] = byte(e)
	}
	return string(b)
}

func dec(s string) []E {
	out := make([]E, len(s))
	for i := 0; i < len(s); i++ {
		out[i] = E(s[i])
	}
	return out
}

// applyModel is Apply on the model: add every element (in order), then delete every element (in
// order), reporting each membership change.
func applyModel(model, add, del []E) (nm, added, removed []E) {
	nm, added, removed = clone(model), []E{}, []E{}
	for _, e := range add {
		if !has(nm, e) {
			nm = append(nm, e)
			added = append(added, e)
		}
	}
	for _, e := range del {
		if has(nm, e) {
			nm = without(nm, e)
			removed = append(removed, e)
		}
	}
	return
}

// diffOK: the change-set a bulk write reports for (add, del) on model. An element that was absent and is named as both
// added and deleted ends up absent: its membership did not change, and whether the report mentions the transient
// insertion (in both lists) or not (in neither) is open; everything else is exactly the membership change.
func diffOK(model, add, del, gotAdded, gotRemoved []E) bool {
	_, wa, wd := applyModel(model, add, del)
	contradicting := func(e E) bool { return has(add, e) && has(del, e) && !has(model, e) }
	strip := func(l []E) []E { return keep(l, func(e E) bool { return !contradicting(e) }) }
	if !sameSet(strip(gotAdded), strip(wa)) || !sameSet(strip(gotRemoved), strip(wd)) {
		return false
	}
	for _, e := range add {
		if contradicting(e) && has(gotAdded, e) != has(gotRemoved, e) {
			return false
		}
	}
	return true
}

// replaceOrders: the two iteration orders the statement permits after Replace(l) on prev (the given
// order; or retained elements at their old positions followed by the new ones).
func replaceOrders(prev, l []E) (a, b []E) {
	a = clone(l)
	b = keep(prev, func(e E) bool { return has(l, e) })
	for _, e := range l {
		if !has(prev, e) {
			b = append(b, e)
		}
	}
	return
}

// drawList draws up to max distinct elements of the universe [0,u) in a drawn order.
func drawList(s *simrt.Sim, u, max int) []E {
	n := s.Choose(max + 1)
	l := []E{}
	for i := 0; i < n; i++ {
		if e := E(s.Choose(u)); !has(l, e) {
			l = append(l, e)
		}
	}
	return l
}

// private returns the contents of a set that no other task can reach, without scheduling points.
func private(s *simrt.Sim, r ds.ReadableSet[E]) (out []E) {
	s.Atomic(func() { out = r.ToSlice() })
	return
}

type deferredFailure struct{ oracle, sig, detail string }

// ---------------------------------------------------------------------------------------------
// seqset

func otherSet(s *simrt.Sim, l []E) ds.ReadableSet[E] {
	if s.Choose(2) == 1 {
		return ds.NewReadableSet(l...)
	}
	return ds.NewSet(l...)
}

func checkSet(s *simrt.Sim, what string, set ds.ReadableSet[E], model []E, u int) {
	if got := set.ToSlice(); !eq(got, model) {
		sig := "contents"
		if sameSet(got, model) {
			sig = "order"
		}
		s.Fail("seq-model", "Set-"+sig, "%s: ToSlice()=%v, model %v", what, got, model)
	}
	if n := set.Size(); n != len(model) {
		s.Fail("seq-model", "Set-Size", "%s: Size()=%d, model %v", what, n, model)
	}
	if set.IsEmpty() != (len(model) == 0) {
		s.Fail("seq-model", "Set-IsEmpty", "%s: IsEmpty()=%v, model %v", what, set.IsEmpty(), model)
	}
	for e := E(0); e < E(u); e++ {
		if set.Has(e) != has(model, e) {
			s.Fail("seq-model", "Set-Has", "%s: Has(%d)=%v, model %v", what, e, set.Has(e), model)
		}
	}
}

func seqSet(s *simrt.Sim) {
	const u = 5
	bad := func(sig, format string, args ...any) { s.Fail("seq-model", sig, format, args...) }
	init := drawList(s, u, 3)
	set := ds.NewSet(init...)
	model := clone(init)
	s.Logf("NewSet(%v)", init)
	checkSet(s, "NewSet", set, model, u)

	var known *deferredFailure
	var view ds.ReadableSet[E]
	arith := ds.NewSetArithmetic[E]()
	counts := map[E]int{}
	thresholds := func() (arg []int, thr int) {
		switch k := s.Choose(4); k {
		case 0:
			return nil, 1
		default:
			return []int{k}, k
		}
	}

	nops := 4 + s.Choose(9)
	for i := 0; i < nops; i++ {
		switch s.Weighted(3, 3, 1, 2, 2, 3, 2, 2, 1, 1, 1, 1, 1, 1, 1, 2, 1, 1, 1, 2, 2, 1) {
		case 0:
			e := E(s.Choose(u))
			got := set.Add(e)
			s.Logf("Add(%d) -> %v", e, got)
			if got == has(model, e) {
				bad("Add-result", "Add(%d)=%v on %v", e, got, model)
			}
			if got {
				model = append(model, e)
			}
		case 1:
			e := E(s.Choose(u))
			got := set.Delete(e)
			s.Logf("Delete(%d) -> %v", e, got)
			if got != has(model, e) {
				bad("Delete-result", "Delete(%d)=%v on %v", e, got, model)
			}
			model = without(model, e)
		case 2:
			e := E(s.Choose(u))
			got := set.Has(e)
			s.Logf("Has(%d) -> %v", e, got)
			if got != has(model, e) {
				bad("Set-Has", "Has(%d)=%v on %v", e, got, model)
			}
		case 3:
			l := drawList(s, u, 4)
			got := set.AddAll(otherSet(s, l)).ToSlice()
			nm, want, _ := applyModel(model, l, nil)
			s.Logf("AddAll(%v) -> %v", l, got)
			// ("exactly the elements whose membership changed": a set - the order in which the result lists them is open)
			if !sameSet(got, want) {
				bad("AddAll-added", "AddAll(%v) on %v returned %v, want %v", l, model, got, want)
			}
			model = nm
		case 4:
			l := drawList(s, u, 4)
			got := set.DeleteAll(otherSet(s, l)).ToSlice()
			nm, _, want := applyModel(model, nil, l)
			s.Logf("DeleteAll(%v) -> %v", l, got)
			if !sameSet(got, want) {
				bad("DeleteAll-removed", "DeleteAll(%v) on %v returned %v, want %v", l, model, got, want)
			}
			model = nm
		case 5:
			add, del := drawList(s, u, 3), drawList(s, u, 3)
			var m ds.SetMutations[E]
			switch s.Choose(3) {
			case 0:
				m = ds.NewSetMutations(add...).WithDeletedElements(ds.NewSet(del...))
			case 1:
				m = ds.NewSetMutations[E]().WithAddedElements(ds.NewSet(add...)).WithDeletedElements(ds.NewSet(del...))
			default:
				m, del = ds.NewSetMutations(add...), []E{}
			}
			if !eq(m.AddedElements().ToSlice(), add) || !eq(m.DeletedElements().ToSlice(), del) || m.IsEmpty() != (len(add)+len(del) == 0) {
				bad("SetMutations-accessors", "mutations(+%v -%v): AddedElements=%v DeletedElements=%v IsEmpty=%v", add, del, m.AddedElements().ToSlice(), m.DeletedElements().ToSlice(), m.IsEmpty())
			}
			applied := set.Apply(m)
			ga, gd := applied.AddedElements().ToSlice(), applied.DeletedElements().ToSlice()
			nm, wa, wd := applyModel(model, add, del)
			s.Logf("Apply(+%v -%v) -> +%v -%v", add, del, ga, gd)
			if !diffOK(model, add, del, ga, gd) {
				bad("Apply-diff", "Apply(+%v -%v) on %v returned +%v -%v, want +%v -%v", add, del, model, ga, gd, wa, wd)
			}
			if applied.IsEmpty() != (len(ga)+len(gd) == 0) {
				bad("Apply-diff", "applied mutations IsEmpty()=%v for +%v -%v", applied.IsEmpty(), ga, gd)
			}
			model = nm
		case 6:
			l := drawList(s, u, 3)
			var add, del, snap []E
			applied := set.Compute(func(r ds.ReadableSet[E]) ds.SetMutations[E] {
				snap = r.ToSlice()
				add, del = []E{}, []E{}
				for _, e := range l { // toggle
					if r.Has(e) {
						del = append(del, e)
					} else {
						add = append(add, e)
					}
				}
				return ds.NewSetMutations(add...).WithDeletedElements(ds.NewSet(del...))
			})
			ga, gd := applied.AddedElements().ToSlice(), applied.DeletedElements().ToSlice()
			s.Logf("Compute(toggle %v) saw %v -> +%v -%v", l, snap, ga, gd)
			if !eq(snap, model) {
				bad("Compute-view", "Compute's factory saw %v, model %v", snap, model)
			}
			nm, wa, wd := applyModel(model, add, del)
			if !diffOK(model, add, del, ga, gd) {
				bad("Compute-diff", "Compute(+%v -%v) on %v returned +%v -%v, want +%v -%v", add, del, model, ga, gd, wa, wd)
			}
			model = nm
		case 7:
			l := drawList(s, u, 4)
			prev := model
			got := set.Replace(otherSet(s, l)).ToSlice()
			want := keep(prev, func(e E) bool { return !has(l, e) })
			now := set.ToSlice()
			s.Logf("Replace(%v) -> %v, now %v", l, got, now)
			if !sameSet(got, want) {
				if !sameSet(got, prev) {
					bad("Replace-removed", "Replace(%v) on %v returned %v, want the removed elements %v", l, prev, got, want)
				}
				// exactly the previous contents: recorded, reported after the rest of the run has been checked
				s.Probe("replace-returned-previous-contents")
				if known == nil {
					known = &deferredFailure{"seq-model", "Replace-removed:returns-previous-contents", fmt.Sprintf("Replace(%v) on %v returned %v (all previous elements), want the removed elements %v", l, prev, got, want)}
				}
			}
			a, b := replaceOrders(prev, l)
			switch {
			case eq(now, a):
				model = a
			case eq(now, b):
				model = b
			default:
				bad("Replace-contents", "after Replace(%v) on %v the set is %v", l, prev, now)
			}
		case 8:
			l := drawList(s, u, 3)
			got := set.HasAll(otherSet(s, l))
			want := len(keep(l, func(e E) bool { return !has(model, e) })) == 0
			s.Logf("HasAll(%v) -> %v", l, got)
			if got != want {
				bad("HasAll", "HasAll(%v)=%v on %v", l, got, model)
			}
		case 9:
			l := drawList(s, u, 4)
			if s.Choose(3) == 0 {
				l = reversed(model) // equal contents, other order
			}
			got := set.Equals(otherSet(s, l))
			s.Logf("Equals(%v) -> %v", l, got)
			if got != sameSet(l, model) {
				bad("Equals", "Equals(%v)=%v on %v", l, got, model)
			}
			if !set.Equals(set) {
				bad("Equals", "set does not equal itself")
			}
		case 10:
			l := drawList(s, u, 4)
			got := set.Intersect(otherSet(s, l)).ToSlice()
			want := keep(model, func(e E) bool { return has(l, e) })
			s.Logf("Intersect(%v) -> %v", l, got)
			// (the statement fixes the members of the result - "matches the mathematical definition" -, not the order
			// in which the result set lists them: intersection is symmetric)
			if !sameSet(got, want) {
				bad("Intersect", "Intersect(%v) on %v = %v, want %v", l, model, got, want)
			}
		case 11:
			k := E(s.Choose(u))
			pred := func(e E) bool { return e%2 == k%2 || e > k }
			got := set.Filter(pred).ToSlice()
			want := keep(model, pred)
			s.Logf("Filter(k=%d) -> %v", k, got)
			if !sameSet(got, want) {
				bad("Filter", "Filter on %v = %v, want %v", model, got, want)
			}
		case 12:
			c := set.Clone()
			got := c.ToSlice()
			s.Logf("Clone -> %v", got)
			if !sameSet(got, model) {
				bad("Clone", "Clone of %v = %v", model, got)
			}
			// the clone is independent (the original is compared with the model below)
			e := E(s.Choose(u))
			c.Add(e)
			c.Delete(E(s.Choose(u)))
		case 13:
			e := E(s.Choose(u))
			got := set.Is(e)
			s.Logf("Is(%d) -> %v", e, got)
			if got != (len(model) == 1 && model[0] == e) {
				bad("Is", "Is(%d)=%v on %v", e, got, model)
			}
		case 14:
			e, ok := set.Any()
			s.Logf("Any -> %d %v", e, ok)
			if ok != (len(model) > 0) || ok && !has(model, e) {
				bad("Any", "Any()=%d,%v on %v", e, ok, model)
			}
		case 15:
			var got []E
			compare := true
			switch s.Choose(4) {
			case 0:
				err := set.ForEach(func(e E) error { got = append(got, e); return nil })
				if err != nil {
					bad("ForEach", "ForEach returned %v", err)
				}
			case 1:
				stop := s.Choose(u)
				boom := errors.New("stop")
				err := set.ForEach(func(e E) error {
					got = append(got, e)
					if len(got) == stop+1 {
						return boom
					}
					return nil
				})
				want := model
				if stop < len(model) {
					want = model[:stop+1]
				}
				if (err == boom) != (stop < len(model)) || err != nil && err != boom || !eq(got, want) {
					bad("ForEach-abort", "ForEach aborting at index %d of %v visited %v, err=%v", stop, model, got, err)
				}
				compare = false
			case 2:
				set.Range(func(e E) { got = append(got, e) })
			default:
				for it := set.Iterator(); it.HasNext(); {
					got = append(got, it.Next())
				}
			}
			s.Logf("iterate -> %v", got)
			if compare && !eq(got, model) {
				bad("iteration-order", "iteration over %v visited %v", model, got)
			}
		case 16:
			set.Clear()
			model = []E{}
			s.Logf("Clear")
		case 17:
			b, err := set.Encode(serix.DefaultAPI)
			if err != nil {
				bad("Encode", "Encode of %v: %v", model, err)
			}
			fresh := ds.NewSet[E]()
			n, err := fresh.Decode(serix.DefaultAPI, b)
			got := fresh.ToSlice()
			s.Logf("Encode -> %d bytes; Decode -> %v", len(b), got)
			if err != nil || n != len(b) || !eq(got, model) {
				bad("Encode-Decode", "round trip of %v: %d bytes, Decode read %d err=%v -> %v", model, len(b), n, err, got)
			}
			// the same contents as a set of one-byte elements (an entry is then a single byte on the wire: the element, and a
			// value that encodes to nothing)
			small := ds.NewSet[uint8]()
			for _, e := range model {
				small.Add(uint8(e))
			}
			sb, err := small.Encode(serix.DefaultAPI)
			if err != nil {
				bad("Encode", "Encode of the uint8 set %v: %v", model, err)
			}
			freshSmall := ds.NewSet[uint8]()
			n, err = freshSmall.Decode(serix.DefaultAPI, sb)
			var gotSmall []E
			for _, e := range freshSmall.ToSlice() {
				gotSmall = append(gotSmall, E(e))
			}
			if err != nil || n != len(sb) || !eq(gotSmall, model) {
				bad("Encode-Decode:one-byte-elements", "round trip of the uint8 set %v: %d bytes %x, Decode read %d err=%v -> %v", model, len(sb), sb, n, err, gotSmall)
			}
		case 18:
			view = set.ReadOnly()
			s.Logf("ReadOnly")
		case 19, 20:
			add, del := drawList(s, u, 3), drawList(s, u, 3)
			arg, thr := thresholds()
			sub := s.Choose(2) == 1
			m := ds.NewSetMutations(add...).WithDeletedElements(ds.NewSet(del...))
			before := map[E]int{}
			for e := E(0); e < u; e++ {
				before[e] = counts[e]
			}
			inc, dcr := add, del
			var res ds.SetMutations[E]
			if sub {
				inc, dcr = del, add
				res = arith.Subtract(m, arg...)
			} else {
				res = arith.Add(m, arg...)
			}
			for _, e := range inc {
				counts[e]++
			}
			for _, e := range dcr {
				counts[e]--
			}
			ga, gd := res.AddedElements().ToSlice(), res.DeletedElements().ToSlice()
			wa, wd := []E{}, []E{}
			for e := E(0); e < u; e++ {
				up, was := counts[e] >= thr, before[e] >= thr
				if up && !was {
					wa = append(wa, e)
				}
				if was && !up {
					wd = append(wd, e)
				}
			}
			s.Logf("arith sub=%v (+%v -%v) thr=%v -> +%v -%v", sub, add, del, arg, ga, gd)
			if !sameSet(ga, wa) || !sameSet(gd, wd) || !subseq(ga, inc) || !subseq(gd, dcr) {
				bad("SetArithmetic", "subtract=%v (+%v -%v) threshold %d with counts %v returned +%v -%v, want +%v -%v", sub, add, del, thr, before, ga, gd, wa, wd)
			}
		case 21:
			arg, thr := thresholds()
			m := ds.NewSetMutations[E]()
			before := map[E]int{}
			for e := E(0); e < u; e++ {
				before[e] = counts[e]
			}
			var script []string
			for k, n := 0, 1+s.Choose(3); k < n; k++ {
				e := E(s.Choose(u))
				if s.Choose(2) == 0 {
					arith.AddedElementsCollector(m, arg...)(e)
					counts[e]++
					script = append(script, fmt.Sprintf("+%d", e))
				} else {
					arith.SubtractedElementsCollector(m, arg...)(e)
					counts[e]--
					script = append(script, fmt.Sprintf("-%d", e))
				}
			}
			ga, gd := m.AddedElements().ToSlice(), m.DeletedElements().ToSlice()
			wa, wd := []E{}, []E{}
			for e := E(0); e < u; e++ {
				up, was := counts[e] >= thr, before[e] >= thr
				if up && !was {
					wa = append(wa, e)
				}
				if was && !up {
					wd = append(wd, e)
				}
			}
			s.Logf("collectors %v thr=%v -> +%v -%v", script, arg, ga, gd)
			if !sameSet(ga, wa) || !sameSet(gd, wd) {
				bad("SetArithmetic-collectors", "collectors %v threshold %d with counts %v collected +%v -%v, want +%v -%v", script, thr, before, ga, gd, wa, wd)
			}
		}
		checkSet(s, "after operation", set, model, u)
		if view != nil {
			if got := view.ToSlice(); !eq(got, model) || view.Size() != len(model) {
				bad("ReadOnly-view", "ReadOnly view shows %v, set %v", got, model)
			}
		}
	}
	if known != nil {
		s.Fail(known.oracle, known.sig, "%s", known.detail)
	}
}

// ---------------------------------------------------------------------------------------------
// seqmap

type kv struct {
	k E
	v uint8
}

func kvIndex(l []kv, k E) int {
	for i, x := range l {
		if x.k == k {
			return i
		}
	}
	return -1
}

func kvEq(a, b []kv) bool {
	if len(a) != len(b) {
		return false
	}
	for i := range a {
		if a[i] != b[i] {
			return false
		}
	}
	return true
}

func kvRev(l []kv) []kv {
	out := make([]kv, len(l))
	for i, x := range l {
		out[len(l)-1-i] = x
	}
	return out
}

func kvAll(m *orderedmap.OrderedMap[E, uint8], reverse bool) ([]kv, bool) {
	out := []kv{}
	f := func(k E, v uint8) bool { out = append(out, kv{k, v}); return true }
	var completed bool
	if reverse {
		completed = m.ForEachReverse(f)
	} else {
		completed = m.ForEach(f)
	}
	return out, completed
}

func checkMap(s *simrt.Sim, what string, m *orderedmap.OrderedMap[E, uint8], model []kv, u int) {
	bad := func(sig, format string, args ...any) { s.Fail("seq-model", sig, what+": "+format, args...) }
	fw, ok1 := kvAll(m, false)
	if !kvEq(fw, model) || !ok1 {
		bad("Map-ForEach", "ForEach visited %v (completed=%v), model %v", fw, ok1, model)
	}
	bw := []kv{}
	ok2 := m.ForEachReverse(func(k E, v uint8) bool { bw = append(bw, kv{k, v}); return true })
	if !kvEq(bw, kvRev(model)) || !ok2 {
		bad("Map-ForEachReverse", "ForEachReverse visited %v (completed=%v), model %v", bw, ok2, model)
	}
	if m.Size() != len(model) || m.IsEmpty() != (len(model) == 0) {
		bad("Map-Size", "Size()=%d IsEmpty()=%v, model %v", m.Size(), m.IsEmpty(), model)
	}
	hk, hv, hok := m.Head()
	tk, tv, tok := m.Tail()
	if len(model) == 0 {
		if hok || tok || hk != 0 || hv != 0 || tk != 0 || tv != 0 {
			bad("Map-Head-Tail", "Head()=%d,%d,%v Tail()=%d,%d,%v on the empty map", hk, hv, hok, tk, tv, tok)
		}
	} else {
		h, t := model[0], model[len(model)-1]
		if !hok || !tok || (kv{hk, hv}) != h || (kv{tk, tv}) != t {
			bad("Map-Head-Tail", "Head()=%d,%d,%v Tail()=%d,%d,%v, model %v", hk, hv, hok, tk, tv, tok, model)
		}
	}
	for k := E(0); k < E(u); k++ {
		v, ok := m.Get(k)
		i := kvIndex(model, k)
		if ok != (i >= 0) || m.Has(k) != ok || ok && v != model[i].v || !ok && v != 0 {
			bad("Map-Get-Has", "Get(%d)=%d,%v Has=%v, model %v", k, v, ok, m.Has(k), model)
		}
	}
}

func seqMap(s *simrt.Sim) {
	const u = 4
	bad := func(sig, format string, args ...any) { s.Fail("seq-model", sig, format, args...) }
	sm := serializableorderedmap.New[E, uint8]()
	m := sm.OrderedMap
	model := []kv{}
	checkMap(s, "New", m, model, u)
	nops := 4 + s.Choose(9)
	for i := 0; i < nops; i++ {
		switch s.Weighted(5, 3, 1, 1, 2, 2, 1, 1, 1, 1, 2) {
		case 10:
			// the consumer deletes the key it is standing on (and optionally a key still ahead) in the middle of the
			// iteration: every other live key must still be visited, in order. A key deleted before it was reached may or may
			// not be visited ("live keys": live when the iteration began - a snapshot - or live when it is reached; the
			// statement fixes neither)
			if len(model) == 0 {
				continue
			}
			rev := s.Choose(2) == 1
			order := clone2(model)
			if rev {
				order = kvRev(order)
			}
			at := s.Choose(len(order))
			ahead := -1
			// (not the immediate successor: the element being deleted keeps its link to it, so the unchanged code visits that
			// key although it was just deleted — an edge the statement does not clearly decide, not judged here)
			if at+2 < len(order) && s.Choose(2) == 1 {
				ahead = at + 2 + s.Choose(len(order)-at-2)
			}
			var want, got []kv
			for j, e := range order {
				if j != ahead {
					want = append(want, e)
				}
			}
			f := func(k E, v uint8) bool {
				got = append(got, kv{k, v})
				if len(got) > 64 {
					bad("Map-ForEach-delete-inside", "iteration does not terminate")
				}
				if k == order[at].k {
					m.Delete(k)
					if ahead >= 0 {
						m.Delete(order[ahead].k)
					}
				}
				return true
			}
			var completed bool
			if rev {
				completed = m.ForEachReverse(f)
			} else {
				completed = m.ForEach(f)
			}
			s.Logf("ForEach(reverse=%v) deleting current key %d (and ahead index %d) -> %v", rev, order[at].k, ahead, got)
			withAhead := clone2(order)
			if (!kvEq(got, want) && !kvEq(got, withAhead)) || !completed {
				bad("Map-ForEach-delete-inside", "ForEach(reverse=%v) over %v whose consumer deletes the current key %d (and the key at iteration index %d) visited %v, expected %v (completed=%v)", rev, order, order[at].k, ahead, got, want, completed)
			}
			var nm []kv
			for _, e := range model {
				if e.k == order[at].k || (ahead >= 0 && e.k == order[ahead].k) {
					continue
				}
				nm = append(nm, e)
			}
			if nm == nil {
				nm = []kv{}
			}
			model = nm
		case 0:
			k, v := E(s.Choose(u)), uint8(1+s.Choose(5))
			pv, existed := m.Set(k, v)
			s.Logf("Set(%d,%d) -> %d %v", k, v, pv, existed)
			if j := kvIndex(model, k); j >= 0 {
				if !existed || pv != model[j].v {
					bad("Map-Set-result", "Set(%d,%d)=%d,%v on %v", k, v, pv, existed, model)
				}
				model[j].v = v
			} else {
				if existed || pv != 0 {
					bad("Map-Set-result", "Set(%d,%d)=%d,%v on %v", k, v, pv, existed, model)
				}
				model = append(model, kv{k, v})
			}
		case 1:
			k := E(s.Choose(u))
			got := m.Delete(k)
			s.Logf("Delete(%d) -> %v", k, got)
			j := kvIndex(model, k)
			if got != (j >= 0) {
				bad("Map-Delete-result", "Delete(%d)=%v on %v", k, got, model)
			}
			if j >= 0 {
				model = append(clone2(model[:j]), model[j+1:]...)
			}
		case 2:
			k := E(s.Choose(u))
			v, ok := m.Get(k)
			s.Logf("Get(%d) -> %d %v", k, v, ok)
			j := kvIndex(model, k)
			if ok != (j >= 0) || ok && v != model[j].v {
				bad("Map-Get-Has", "Get(%d)=%d,%v on %v", k, v, ok, model)
			}
		case 3:
			m.Clear()
			model = []kv{}
			s.Logf("Clear")
		case 4, 5:
			rev := s.Choose(2) == 1
			stop := s.Choose(u + 1)
			got := []kv{}
			f := func(k E, v uint8) bool { got = append(got, kv{k, v}); return len(got) != stop }
			var completed bool
			want := model
			if rev {
				completed = m.ForEachReverse(f)
				want = kvRev(model)
			} else {
				completed = m.ForEach(f)
			}
			wantCompleted := true
			if stop >= 1 && stop <= len(want) {
				want, wantCompleted = want[:stop], false
			}
			s.Logf("ForEach reverse=%v stop=%d -> %v %v", rev, stop, got, completed)
			if !kvEq(got, want) || completed != wantCompleted {
				bad("Map-ForEach-abort", "ForEach(reverse=%v) aborting after %d of %v visited %v, returned %v", rev, stop, model, got, completed)
			}
		case 6:
			c := m.Clone()
			got, _ := kvAll(c, false)
			s.Logf("Clone -> %v", got)
			if !kvEq(got, model) {
				bad("Map-Clone", "Clone of %v = %v", model, got)
			}
			checkMap(s, "Clone", c, model, u)
			c.Set(E(s.Choose(u)), 9) // independent of the original (checked below)
			c.Delete(E(s.Choose(u)))
		case 7:
			b, err := sm.Encode(serix.DefaultAPI)
			if err != nil {
				bad("Map-Encode", "Encode of %v: %v", model, err)
			}
			fresh := serializableorderedmap.New[E, uint8]()
			n, err := fresh.Decode(serix.DefaultAPI, b)
			got, _ := kvAll(fresh.OrderedMap, false)
			s.Logf("Encode -> %d bytes; Decode -> %v", len(b), got)
			if err != nil || n != len(b) || !kvEq(got, model) {
				bad("Map-Encode-Decode", "round trip of %v: %d bytes, Decode read %d err=%v -> %v", model, len(b), n, err, got)
			}
			checkMap(s, "Decode", fresh.OrderedMap, model, u)
		case 8:
			// nil receivers are explicitly supported by these methods
			var nilm *orderedmap.OrderedMap[E, uint8]
			nilm.Clear()
			if nilm.Size() != 0 || !nilm.IsEmpty() || nilm.Clone() != nil || !nilm.ForEach(func(E, uint8) bool { return false }) || !nilm.ForEachReverse(func(E, uint8) bool { return false }) {
				bad("Map-nil", "nil map: Size=%d IsEmpty=%v", nilm.Size(), nilm.IsEmpty())
			}
			s.Logf("nil receiver")
		case 9:
			k := E(s.Choose(u))
			got := m.Has(k)
			s.Logf("Has(%d) -> %v", k, got)
			if got != (kvIndex(model, k) >= 0) {
				bad("Map-Get-Has", "Has(%d)=%v on %v", k, got, model)
			}
		}
		checkMap(s, "after operation", m, model, u)
	}
}

func clone2(l []kv) []kv { return append([]kv{}, l...) }

// ---------------------------------------------------------------------------------------------
// concset: observation seams. The argument sets / mutations handed to the shared set are the library's
// own sets behind a wrapper that stamps every per-element callback, so that the per-element
// sub-operations of AddAll/DeleteAll/Apply/Compute/Replace get their own call/return steps.

type stamp struct {
	e      E
	t0, t1 int64
}

type stampSet struct {
	ds.Set[E]
	s      *simrt.Sim
	stamps []stamp
}

func newStampSet(s *simrt.Sim, l []E) *stampSet { return &stampSet{Set: ds.NewSet(l...), s: s} }

func (w *stampSet) Range(cb func(E)) {
	w.Set.Range(func(e E) {
		t0 := int64(w.s.Tick())
		cb(e)
		w.stamps = append(w.stamps, stamp{e, t0, int64(w.s.Tick())})
	})
}

func (w *stampSet) ForEach(cb func(E) error) error {
	return w.Set.ForEach(func(e E) error {
		t0 := int64(w.s.Tick())
		err := cb(e)
		w.stamps = append(w.stamps, stamp{e, t0, int64(w.s.Tick())})
		return err
	})
}

type stampMut struct{ add, del *stampSet }

func (m *stampMut) WithAddedElements(ds.Set[E]) ds.SetMutations[E]   { panic("not used") }
func (m *stampMut) WithDeletedElements(ds.Set[E]) ds.SetMutations[E] { panic("not used") }
func (m *stampMut) AddedElements() ds.Set[E]                         { return m.add }
func (m *stampMut) DeletedElements() ds.Set[E]                       { return m.del }
func (m *stampMut) IsEmpty() bool                                    { return m.add.IsEmpty() && m.del.IsEmpty() }

// history operations --------------------------------------------------------------------------

const (
	aAdd = iota
	aDel
	aApply
	aCompute
	aReplace
	aSnap
)

type aIn struct {
	kind     int
	e        E
	add, del []E
}

type aOut struct {
	ok                   bool
	added, removed, snap []E
}

const (
	bAdd = iota
	bDel
	bClear
	bHas
	bSize
	bEmpty
	bSnap
)

type bIn struct {
	kind int
	e    E
}

type bOut struct {
	ok, known bool
	n         int
	mask      uint8
}

type ival struct{ call, ret int64 }

type setHist struct {
	s      *simrt.Sim
	a, b   []porcupine.Operation
	lines  []string // readable history
	writes []ival   // top-level calls that may change the set
	reads  []func() // whole-set reads, turned into snapshot operations if no write overlapped them
}

func (h *setHist) tick() int64 { return int64(h.s.Tick()) }

func (h *setHist) opA(c int, call, ret int64, in aIn, out aOut) {
	h.a = append(h.a, porcupine.Operation{ClientId: c, Input: in, Call: call, Output: out, Return: ret})
}

func (h *setHist) opB(c int, call, ret int64, in bIn, out bOut) {
	h.b = append(h.b, porcupine.Operation{ClientId: c, Input: in, Call: call, Output: out, Return: ret})
}

func (h *setHist) line(c int, call, ret int64, format string, args ...any) {
	l := fmt.Sprintf("client%d [%d,%d] ", c, call, ret) + fmt.Sprintf(format, args...)
	h.lines = append(h.lines, l)
	h.s.Logf("%s", l)
}

func (h *setHist) quiet(call, ret int64) bool {
	for _, w := range h.writes {
		if w.call <= ret && call <= w.ret {
			return false
		}
	}
	return true
}

// wholeRead registers the result of a read of the whole set.
func (h *setHist) wholeRead(c int, call, ret int64, got []E) {
	h.reads = append(h.reads, func() {
		if h.quiet(call, ret) {
			h.s.Probe("quiet-read")
			h.opA(c, call, ret, aIn{kind: aSnap}, aOut{snap: got})
			h.opB(c, call, ret, bIn{kind: bSnap}, bOut{mask: maskOf(got)})
		}
	})
}

const (
	cAdd = iota
	cDelete
	cHas
	cSize
	cAddAll
	cDeleteAll
	cApply
	cCompute
	cReplace
	cIter
	cRead
	cClear
)

var copNames = []string{"Add", "Delete", "Has", "Size", "AddAll", "DeleteAll", "Apply", "Compute", "Replace", "iterate", "read", "Clear"}

type cop struct {
	kind    int
	e       E
	l, l2   []E
	variant int
	yields  int
}

func (o cop) String() string {
	switch o.kind {
	case cAdd, cDelete, cHas:
		return fmt.Sprintf("%s(%d)", copNames[o.kind], o.e)
	case cAddAll, cDeleteAll, cReplace:
		return fmt.Sprintf("%s(%v)", copNames[o.kind], o.l)
	case cApply:
		return fmt.Sprintf("Apply(+%v -%v)", o.l, o.l2)
	case cCompute:
		return fmt.Sprintf("Compute(v%d %v %v y%d)", o.variant, o.l, o.l2, o.yields)
	case cIter, cRead:
		return fmt.Sprintf("%s(v%d y%d)", copNames[o.kind], o.variant, o.yields)
	}
	return copNames[o.kind]
}

func drawCop(s *simrt.Sim, u int, deleteAll, clear bool) cop {
	wDeleteAll, wClear := 0, 0
	if deleteAll {
		wDeleteAll = 3
	}
	if clear {
		wClear = 2
	}
	o := cop{kind: s.Weighted(3, 3, 2, 1, 2, wDeleteAll, 3, 2, 2, 2, 1, wClear)}
	switch o.kind {
	case cAdd, cDelete, cHas:
		o.e = E(s.Choose(u))
	case cAddAll, cDeleteAll, cReplace:
		o.l = drawList(s, u, 3)
	case cApply:
		o.l, o.l2 = drawList(s, u, 2), drawList(s, u, 2)
	case cCompute:
		o.variant = s.Weighted(4, 4, 1) // 2: the factory panics and the caller recovers
		o.l, o.l2 = drawList(s, u, 2), drawList(s, u, 2)
		o.yields = s.Choose(3)
	case cIter:
		o.variant = s.Choose(5)
		o.yields = s.Choose(2)
	case cRead:
		o.variant = s.Choose(8)
		o.l = drawList(s, u, 2)
		o.e = E(s.Choose(u))
	}
	return o
}

const iterationBound = 200 // far above the number of elements ever inserted in one run

func (h *setHist) run(c int, set ds.Set[E], o cop, u int) {
	s := h.s
	write := func(call int64) { h.writes = append(h.writes, ival{call, 1 << 62}) }
	switch o.kind {
	case cAdd, cDelete:
		call := h.tick()
		wi := len(h.writes)
		write(call)
		var ok bool
		ak, bk := aAdd, bAdd
		if o.kind == cAdd {
			ok = set.Add(o.e)
		} else {
			ok = set.Delete(o.e)
			ak, bk = aDel, bDel
		}
		ret := h.tick()
		h.writes[wi].ret = ret
		h.opA(c, call, ret, aIn{kind: ak, e: o.e}, aOut{ok: ok})
		h.opB(c, call, ret, bIn{bk, o.e}, bOut{ok: ok, known: true})
		h.line(c, call, ret, "%v -> %v", o, ok)
	case cHas:
		call := h.tick()
		ok := set.Has(o.e)
		ret := h.tick()
		h.opB(c, call, ret, bIn{bHas, o.e}, bOut{ok: ok})
		h.line(c, call, ret, "%v -> %v", o, ok)
	case cSize:
		call := h.tick()
		n := set.Size()
		ret := h.tick()
		h.opB(c, call, ret, bIn{kind: bSize}, bOut{n: n})
		h.line(c, call, ret, "Size -> %d", n)
	case cClear:
		call := h.tick()
		wi := len(h.writes)
		write(call)
		set.Clear()
		ret := h.tick()
		h.writes[wi].ret = ret
		h.opB(c, call, ret, bIn{kind: bClear}, bOut{})
		h.line(c, call, ret, "Clear")
	case cAddAll, cDeleteAll:
		arg := newStampSet(s, o.l)
		call := h.tick()
		wi := len(h.writes)
		write(call)
		var res ds.Set[E]
		ak, bk := aAdd, bAdd
		if o.kind == cAddAll {
			res = set.AddAll(arg)
		} else {
			res = set.DeleteAll(arg)
			ak, bk = aDel, bDel
		}
		ret := h.tick()
		h.writes[wi].ret = ret
		changed := private(s, res)
		// one single-element operation per element of the argument, each taking effect somewhere inside the call (when and
		// in which order the implementation walks its argument, or whether it walks the receiver instead, is its business)
		seenArg := map[E]bool{}
		for _, e := range o.l {
			if seenArg[e] {
				continue
			}
			seenArg[e] = true
			ok := has(changed, e)
			h.opA(c, call, ret, aIn{kind: ak, e: e}, aOut{ok: ok})
			h.opB(c, call, ret, bIn{bk, e}, bOut{ok: ok, known: true})
		}
		h.line(c, call, ret, "%v -> %v", o, changed)
		seenRes := map[E]bool{}
		for _, e := range changed {
			if !seenArg[e] || seenRes[e] {
				s.Fail("diff", copNames[o.kind]+"-result", "%v returned %v: an element that was not asked for, or one element twice", o, changed)
			}
			seenRes[e] = true
		}
	case cApply, cCompute:
		if o.kind == cCompute && o.variant == 2 {
			// a mutation factory that gives up with a panic which its caller recovers: the call changes nothing, and the set
			// stays usable for everybody (whatever Compute holds while the factory runs is released on the way out)
			call := h.tick()
			panicked, _ := hx.Try(func() {
				set.Compute(func(r ds.ReadableSet[E]) ds.SetMutations[E] {
					for i := 0; i < o.yields; i++ {
						simrt.Yield()
					}
					panic("the mutation factory gives up")
				})
			})
			s.Probe("compute-factory-panicked")
			h.line(c, call, h.tick(), "Compute(factory panics) -> recovered=%v", panicked)
			return
		}
		var m *stampMut
		var snap []E
		add, del := o.l, o.l2
		call := h.tick()
		wi := len(h.writes)
		write(call)
		var applied ds.SetMutations[E]
		if o.kind == cApply {
			m = &stampMut{newStampSet(s, add), newStampSet(s, del)}
			applied = set.Apply(m)
		} else {
			applied = set.Compute(func(r ds.ReadableSet[E]) ds.SetMutations[E] {
				snap = r.ToSlice()
				for i := 0; i < o.yields; i++ {
					simrt.Yield()
				}
				if o.variant == 0 { // toggle the elements of o.l
					add, del = []E{}, []E{}
					for _, e := range o.l {
						if r.Has(e) {
							del = append(del, e)
						} else {
							add = append(add, e)
						}
					}
				}
				m = &stampMut{newStampSet(s, add), newStampSet(s, del)}
				return m
			})
		}
		ret := h.tick()
		h.writes[wi].ret = ret
		ga, gd := private(s, applied.AddedElements()), private(s, applied.DeletedElements())
		if o.kind == cApply {
			h.opA(c, call, ret, aIn{kind: aApply, add: add, del: del}, aOut{added: ga, removed: gd})
			h.line(c, call, ret, "%v -> +%v -%v", o, ga, gd)
		} else {
			h.opA(c, call, ret, aIn{kind: aCompute, add: add, del: del}, aOut{added: ga, removed: gd, snap: snap})
			h.line(c, call, ret, "%v saw %v asked +%v -%v -> +%v -%v", o, snap, add, del, ga, gd)
		}
		for _, e := range add {
			// (an element named as both added and deleted: what the report says about it is not judged, see diffOK)
			h.opB(c, call, ret, bIn{bAdd, e}, bOut{ok: has(ga, e), known: !has(del, e)})
		}
		for _, e := range del {
			h.opB(c, call, ret, bIn{bDel, e}, bOut{ok: has(gd, e), known: !has(add, e)})
		}
		if !subsetOf(ga, add) || !subsetOf(gd, del) {
			s.Fail("diff", copNames[o.kind]+"-result", "%v asked +%v -%v, returned +%v -%v", o, add, del, ga, gd)
		}
	case cReplace:
		arg := newStampSet(s, o.l)
		call := h.tick()
		wi := len(h.writes)
		write(call)
		res := set.Replace(arg)
		ret := h.tick()
		h.writes[wi].ret = ret
		removed := private(s, res)
		h.opA(c, call, ret, aIn{kind: aReplace, add: o.l}, aOut{removed: removed})
		// for the single-element view a Replace is a removal of every element and an insertion of every element of its
		// argument, each somewhere inside the call (C11 makes Replace atomic only with respect to Apply/Compute/Replace:
		// whether the old contents vanish at once or one by one, and whether kept elements vanish at all, is open)
		for e := 0; e < u; e++ {
			h.opB(c, call, ret, bIn{bDel, E(e)}, bOut{})
		}
		for _, e := range o.l {
			h.opB(c, call, ret, bIn{bAdd, e}, bOut{}) // whether it was new is not reported
		}
		h.line(c, call, ret, "%v -> %v", o, removed)
	case cIter:
		var got []E
		n := 0
		visit := func(e E) {
			got = append(got, e)
			if n++; n > iterationBound {
				s.Fail("iteration", "Set-nonterminating", "%v visited %d elements: %v ...", o, n, got[:12])
			}
			for i := 0; i < o.yields; i++ {
				simrt.Yield()
			}
		}
		call := h.tick()
		switch o.variant {
		case 0:
			_ = set.ForEach(func(e E) error { visit(e); return nil })
		case 1:
			set.Range(visit)
		case 2:
			got = set.ToSlice()
		case 3:
			for it := set.Iterator(); it.HasNext(); {
				visit(it.Next())
			}
		default:
			cl := set.Clone()
			got = private(s, cl)
		}
		ret := h.tick()
		got = clone(got)
		for _, e := range got {
			if e < 0 || int(e) >= u {
				s.Fail("iteration", "Set-foreign-element", "%v visited %v", o, got)
			}
		}
		h.wholeRead(c, call, ret, got)
		h.line(c, call, ret, "%v -> %v", o, got)
	case cRead:
		other := ds.NewSet(o.l...)
		call := h.tick()
		var res string
		switch o.variant {
		case 0:
			res = fmt.Sprint(set.HasAll(other))
		case 1:
			res = fmt.Sprint(set.Equals(other))
		case 2:
			res = fmt.Sprint(private(s, set.Intersect(other)))
		case 3:
			res = fmt.Sprint(private(s, set.Filter(func(e E) bool { simrt.Yield(); return e != o.e })))
		case 4:
			res = fmt.Sprint(set.Is(o.e))
		case 5:
			e, ok := set.Any()
			res = fmt.Sprint(e, ok)
			if ok && (e < 0 || int(e) >= u) {
				s.Fail("iteration", "Set-foreign-element", "Any() = %d", e)
			}
		case 6:
			ok := set.IsEmpty()
			ret := h.tick()
			h.opB(c, call, ret, bIn{kind: bEmpty}, bOut{ok: ok})
			res = fmt.Sprint(ok)
		default:
			res = fmt.Sprint(set.ReadOnly().Has(o.e), len(set.String()) > 0)
		}
		ret := h.tick()
		h.line(c, call, ret, "%v %v %d -> %s", o, o.l, o.e, res)
	}
}

func modelA(init []E, acceptPreviousContents bool) porcupine.Model {
	one := func(l []E) []interface{} { return []interface{}{enc(l)} }
	nm := porcupine.NondeterministicModel{
		Init: func() []interface{} { return one(init) },
		Step: func(st, in, out interface{}) []interface{} {
			l, i, o := dec(st.(string)), in.(aIn), out.(aOut)
			switch i.kind {
			case aAdd:
				if o.ok == has(l, i.e) {
					return nil
				}
				if o.ok {
					l = append(l, i.e)
				}
				return one(l)
			case aDel:
				if o.ok != has(l, i.e) {
					return nil
				}
				return one(without(l, i.e))
			case aApply, aCompute:
				if i.kind == aCompute && !eq(o.snap, l) {
					return nil
				}
				nl, _, _ := applyModel(l, i.add, i.del)
				if !diffOK(l, i.add, i.del, o.added, o.removed) {
					return nil
				}
				return one(nl)
			case aReplace:
				want := keep(l, func(e E) bool { return !has(i.add, e) })
				if !eq(o.removed, want) && !(acceptPreviousContents && eq(o.removed, l)) {
					return nil
				}
				a, b := replaceOrders(l, i.add)
				if eq(a, b) {
					return one(a)
				}
				return []interface{}{enc(a), enc(b)}
			default: // aSnap
				if !eq(o.snap, l) {
					return nil
				}
				return one(l)
			}
		},
	}
	return nm.ToModel()
}

func modelB(init []E) porcupine.Model {
	return porcupine.Model{
		Init: func() interface{} { return maskOf(init) },
		Step: func(st, in, out interface{}) (bool, interface{}) {
			m, i, o := st.(uint8), in.(bIn), out.(bOut)
			bit := uint8(1) << uint(i.e)
			present := m&bit != 0
			switch i.kind {
			case bAdd:
				return !o.known || o.ok != present, m | bit
			case bDel:
				return !o.known || o.ok == present, m &^ bit
			case bClear:
				return true, uint8(0)
			case bHas:
				return o.ok == present, m
			case bSize:
				return o.n == bits.OnesCount8(m), m
			case bEmpty:
				return o.ok == (m == 0), m
			default: // bSnap
				return o.mask == m, m
			}
		},
	}
}

func lineariz(s *simrt.Sim, m porcupine.Model, ops []porcupine.Operation) porcupine.CheckResult {
	if len(ops) == 0 {
		return porcupine.Ok
	}
	r, steps := hx.CheckBounded(m, ops, 2000000)
	s.Probe("porcupine-model-steps" + hx.StepBucket(steps))
	if r == porcupine.Unknown {
		s.Probe("porcupine-unknown")
	}
	return r
}

func concSet(s *simrt.Sim) {
	const u = 4
	withDeleteAll := !simrt.ConfigHas("nodeleteall")
	// Clear (a ReadableSet method) does not take the apply lock: runs that use it are not held to the
	// atomicity of Apply/Compute/Replace (check A), only to the per-element view (check B)
	withClear := s.Choose(4) == 3
	init := drawList(s, u, 3)
	set := ds.NewSet(init...)
	n := 2 + s.Choose(3)
	s.Logf("config init=%v clients=%d deleteall=%v clear=%v", init, n, withDeleteAll, withClear)
	scripts := make([][]cop, n)
	for i := range scripts {
		for j, k := 0, 1+s.Choose(4); j < k; j++ {
			scripts[i] = append(scripts[i], drawCop(s, u, withDeleteAll, withClear))
		}
		s.Logf("script client%d %v", i, scripts[i])
	}
	h := &setHist{s: s}
	current := make([]string, n) // method each client is in
	pending := make([]string, n) // ... with its arguments
	for i := range scripts {
		s.Go(fmt.Sprintf("client%d", i), func() {
			for _, o := range scripts[i] {
				current[i], pending[i] = copNames[o.kind], o.String()
				s.Logf("client%d invokes %v", i, o)
				h.run(i, set, o, u)
				current[i], pending[i] = "", ""
			}
		})
	}
	left := s.Quiesce()

	// every call returns
	if len(left) > 0 {
		nested, writer := false, false
		var desc []string
		for _, t := range left {
			var i int
			fmt.Sscanf(t.Name, "client%d", &i)
			desc = append(desc, fmt.Sprintf("%s in %s: %s on %s", t.Name, pending[i], t.State, t.WaitOn))
			if current[i] == "DeleteAll" && t.WaitOn == "RWMutex.RLock" {
				nested = true
			}
			if (current[i] == "Apply" || current[i] == "Compute" || current[i] == "Replace") && t.WaitOn == "RWMutex.Lock(readers)" {
				writer = true
			}
		}
		if nested && writer {
			s.Fail("deadlock", "DeleteAll:RWMutex.RLock+Apply/Compute/Replace:RWMutex.Lock(readers)", "blocked forever at quiescence: %s\ncompleted calls:\n%s", strings.Join(desc, "; "), strings.Join(h.lines, "\n"))
		}
		hx.Stuck(s, "deadlock", left, nil)
	}

	call := h.tick()
	final := set.ToSlice()
	ret := h.tick()
	s.Logf("final %v", final)
	for _, f := range h.reads {
		f()
	}
	h.opA(n, call, ret, aIn{kind: aSnap}, aOut{snap: final})
	h.opB(n, call, ret, bIn{kind: bSnap}, bOut{mask: maskOf(final)})

	var known *deferredFailure
	if !withClear {
		if lineariz(s, modelA(init, false), h.a) == porcupine.Illegal {
			detail := fmt.Sprintf("no linearization of Add/Delete/AddAll+DeleteAll sub-operations/Apply/Compute/Replace (atomic, with their returned diffs) from %v explains the history:\n%s\nfinal %v", init, strings.Join(h.lines, "\n"), final)
			if lineariz(s, modelA(init, true), h.a) == porcupine.Illegal {
				s.Fail("linearizability", "Set-apply-lock-operations", "%s", detail)
			}
			s.Probe("replace-returned-previous-contents")
			known = &deferredFailure{"linearizability", "Set-apply-lock-operations:Replace-returns-previous-contents", "explained only if Replace may return the previous contents instead of the removed elements; " + detail}
		}
	}
	if lineariz(s, modelB(init), h.b) == porcupine.Illegal {
		s.Fail("linearizability", "Set-element-operations", "no linearization of the per-element operations (Add/Delete/Has/Size/IsEmpty and the per-element steps of the multi-element writers) from %v explains the history:\n%s\nfinal %v", init, strings.Join(h.lines, "\n"), final)
	}
	if known != nil {
		s.Fail(known.oracle, known.sig, "%s", known.detail)
	}
}

// ---------------------------------------------------------------------------------------------
// concmap

const (
	mSet = iota
	mGet
	mHas
	mDelete
	mSize
	mEmpty
	mHead
	mTail
	mClear
	mClone
	mForEach
	mForEachReverse
)

var mopNames = []string{"Set", "Get", "Has", "Delete", "Size", "IsEmpty", "Head", "Tail", "Clear", "Clone", "ForEach", "ForEachReverse"}

type mop struct {
	kind   int
	k      E
	v      uint8
	yields int
}

func (o mop) String() string {
	switch o.kind {
	case mSet:
		return fmt.Sprintf("Set(%d,%d)", o.k, o.v)
	case mGet, mHas, mDelete:
		return fmt.Sprintf("%s(%d)", mopNames[o.kind], o.k)
	case mForEach, mForEachReverse:
		return fmt.Sprintf("%s(y%d)", mopNames[o.kind], o.yields)
	}
	return mopNames[o.kind]
}

type mOut struct {
	ok   bool
	k    E
	v    uint8
	n    int
	list string
}

func kvEnc(l []kv) string {
	b := make([]byte, 0, 2*len(l))
	for _, x := range l {
		b = append(b, byte(x.k), x.v)
	}
	return string(b)
}

func kvDec(s string) []kv {
	out := make([]kv, 0, len(s)/2)
	for i := 0; i+1 < len(s); i += 2 {
		out = append(out, kv{E(s[i]), s[i+1]})
	}
	return out
}

func modelMap() porcupine.Model {
	return porcupine.Model{
		Init: func() interface{} { return "" },
		Step: func(st, in, out interface{}) (bool, interface{}) {
			l, i, o := kvDec(st.(string)), in.(mop), out.(mOut)
			j := kvIndex(l, i.k)
			switch i.kind {
			case mSet:
				if j >= 0 {
					ok := o.ok && o.v == l[j].v
					l[j].v = i.v
					return ok, kvEnc(l)
				}
				return !o.ok && o.v == 0, kvEnc(append(l, kv{i.k, i.v}))
			case mGet:
				if j >= 0 {
					return o.ok && o.v == l[j].v, st
				}
				return !o.ok && o.v == 0, st
			case mHas:
				return o.ok == (j >= 0), st
			case mDelete:
				if j < 0 {
					return !o.ok, st
				}
				return o.ok, kvEnc(append(l[:j:j], l[j+1:]...))
			case mSize:
				return o.n == len(l), st
			case mEmpty:
				return o.ok == (len(l) == 0), st
			case mHead, mTail:
				if len(l) == 0 {
					return !o.ok, st
				}
				x := l[0]
				if i.kind == mTail {
					x = l[len(l)-1]
				}
				return o.ok && o.k == x.k && o.v == x.v, st
			case mClear:
				return true, ""
			case mForEachReverse:
				return o.list == kvEnc(kvRev(l)), st
			default: // mClone, mForEach: the whole map in order
				return o.list == st.(string), st
			}
		},
	}
}

func concMap(s *simrt.Sim) {
	const u = 4
	m := orderedmap.New[E, uint8]()
	n := 2 + s.Choose(3)
	scripts := make([][]mop, n)
	next := uint8(0)
	for i := range scripts {
		for j, k := 0, 1+s.Choose(5); j < k; j++ {
			o := mop{kind: s.Weighted(6, 2, 1, 4, 1, 1, 1, 1, 1, 1, 2, 2)}
			switch o.kind {
			case mSet:
				next++
				o.k, o.v = E(s.Choose(u)), next
			case mGet, mHas, mDelete:
				o.k = E(s.Choose(u))
			case mForEach, mForEachReverse:
				o.yields = s.Choose(3)
			}
			scripts[i] = append(scripts[i], o)
		}
		s.Logf("script client%d %v", i, scripts[i])
	}
	var ops []porcupine.Operation
	var lines []string
	var writes []ival
	var iters []func()
	record := func(c int, call, ret int64, o mop, out mOut, res string) {
		ops = append(ops, porcupine.Operation{ClientId: c, Input: o, Call: call, Output: out, Return: ret})
		l := fmt.Sprintf("client%d [%d,%d] %v -> %s", c, call, ret, o, res)
		lines = append(lines, l)
		s.Logf("%s", l)
	}
	for i := range scripts {
		s.Go(fmt.Sprintf("client%d", i), func() {
			for _, o := range scripts[i] {
				s.Logf("client%d invokes %v", i, o)
				call := int64(s.Tick())
				wi := -1
				if o.kind == mSet || o.kind == mDelete || o.kind == mClear {
					wi = len(writes)
					writes = append(writes, ival{call, 1 << 62})
				}
				var out mOut
				var res string
				switch o.kind {
				case mSet:
					out.v, out.ok = m.Set(o.k, o.v)
					res = fmt.Sprint(out.v, out.ok)
				case mGet:
					out.v, out.ok = m.Get(o.k)
					res = fmt.Sprint(out.v, out.ok)
				case mHas:
					out.ok = m.Has(o.k)
					res = fmt.Sprint(out.ok)
				case mDelete:
					out.ok = m.Delete(o.k)
					res = fmt.Sprint(out.ok)
				case mSize:
					out.n = m.Size()
					res = fmt.Sprint(out.n)
				case mEmpty:
					out.ok = m.IsEmpty()
					res = fmt.Sprint(out.ok)
				case mHead:
					out.k, out.v, out.ok = m.Head()
					res = fmt.Sprint(out.k, out.v, out.ok)
				case mTail:
					out.k, out.v, out.ok = m.Tail()
					res = fmt.Sprint(out.k, out.v, out.ok)
				case mClear:
					m.Clear()
				case mClone:
					c := m.Clone() // holds the read lock for the whole copy: an atomic snapshot
					var l []kv
					s.Atomic(func() { l, _ = kvAll(c, false) })
					out.list = kvEnc(l)
					res = fmt.Sprint(l)
				case mForEach, mForEachReverse:
					var l []kv
					f := func(k E, v uint8) bool {
						l = append(l, kv{k, v})
						if len(l) > iterationBound {
							s.Fail("iteration", "Map-nonterminating", "%v visited %d entries: %v ...", o, len(l), l[:12])
						}
						if k < 0 || int(k) >= u || v == 0 || v > next {
							s.Fail("iteration", "Map-foreign-entry", "%v visited %d=%d", o, k, v)
						}
						for y := 0; y < o.yields; y++ {
							simrt.Yield()
						}
						return true
					}
					var completed bool
					if o.kind == mForEach {
						completed = m.ForEach(f)
					} else {
						completed = m.ForEachReverse(f)
					}
					if !completed {
						s.Fail("iteration", "Map-aborted", "%v returned false although the consumer never did", o)
					}
					ret := int64(s.Tick())
					out.list = kvEnc(l)
					l2 := fmt.Sprintf("client%d [%d,%d] %v -> %v", i, call, ret, o, l)
					lines = append(lines, l2)
					s.Logf("%s", l2)
					iters = append(iters, func() {
						for _, w := range writes {
							if w.call <= ret && call <= w.ret {
								return
							}
						}
						// no Set/Delete/Clear overlapped: the iteration must show the map as it was
						s.Probe("quiet-read")
						ops = append(ops, porcupine.Operation{ClientId: i, Input: o, Call: call, Output: out, Return: ret})
					})
					continue
				}
				ret := int64(s.Tick())
				if wi >= 0 {
					writes[wi].ret = ret
				}
				record(i, call, ret, o, out, res)
			}
		})
	}
	left := s.Quiesce()
	hx.Stuck(s, "deadlock", left, nil)
	call := int64(s.Tick())
	final, _ := kvAll(m, false)
	back, _ := kvAll(m, true)
	ret := int64(s.Tick())
	s.Logf("final %v", final)
	for _, f := range iters {
		f()
	}
	ops = append(ops, porcupine.Operation{ClientId: n, Input: mop{kind: mForEach}, Call: call, Output: mOut{list: kvEnc(final)}, Return: ret})
	ops = append(ops, porcupine.Operation{ClientId: n, Input: mop{kind: mForEachReverse}, Call: call, Output: mOut{list: kvEnc(back)}, Return: ret})
	if lineariz(s, modelMap(), ops) == porcupine.Illegal {
		s.Fail("linearizability", "OrderedMap-operations", "no linearization of Set/Get/Has/Delete/Size/IsEmpty/Head/Tail/Clear/Clone explains the history:\n%s\nfinal %v (reverse %v)", strings.Join(lines, "\n"), final, back)
	}
}
