package batchwriter

import (
	"encoding/binary"
	"fmt"
	"testing"
	"time"

	"github.com/iotaledger/hive.go/kvstore"
	"github.com/iotaledger/hive.go/kvstore/mapdb"
	"verifharness/hx"
	"verifsim/simrt"
)

func TestSim(t *testing.T) {
	simrt.Main(t, &simrt.Harness{Name: "writer", Body: writer,
		Cfg: simrt.Config{StallMenu: []time.Duration{5 * time.Millisecond, 100 * time.Millisecond, time.Second}}})
}

type world struct {
	s     *simrt.Sim
	store kvstore.KVStore
	objs  []*obj
}

// obj is a harness-owned BatchWriteObject: BatchWriteScheduled is a test-and-set like the historical callers.
type obj struct {
	w       *world
	id      int
	version uint64 // set by the producer before Enqueue; BatchWrite persists the value current at write time
	deleted bool   // set by the producer together with the version: BatchWrite deletes the key instead of setting it
	// what the last BatchWrite did, and what was committed when BatchWriteDone was last called
	lastWriteDeleted bool
	committed        uint64
	scheduled        bool
	writes           int
	dones            int
	lastWrite        uint64
	// enqueues that actually returned, with the version they carried
	enq []*enq
}

type enq struct {
	version  uint64
	inv, ret uint64
}

func key(id int) []byte { return []byte{byte('k'), byte(id)} }

func (o *obj) BatchWrite(m kvstore.BatchedMutations) {
	o.writes++
	o.lastWrite = o.version
	o.lastWriteDeleted = o.deleted
	if o.deleted {
		if err := m.Delete(key(o.id)); err != nil {
			o.w.s.Fail("store", "batch-delete-error", "batch Delete failed: %v", err)
		}
	} else {
		var b [8]byte
		binary.LittleEndian.PutUint64(b[:], o.version)
		if err := m.Set(key(o.id), b[:]); err != nil {
			o.w.s.Fail("store", "batch-set-error", "batch Set failed: %v", err)
		}
	}
	o.w.s.Logf("BatchWrite obj%d v%d deleted=%v", o.id, o.version, o.deleted)
}

func (o *obj) BatchWriteDone() {
	o.dones++
	s := o.w.s
	s.Logf("BatchWriteDone obj%d", o.id)
	if o.dones > o.writes {
		s.Fail("done-once", "done-without-write", "obj%d: BatchWriteDone called %d times for %d BatchWrite calls", o.id, o.dones, o.writes)
	}
	if !o.w.storeMatches(o) {
		v, err := o.w.store.Get(key(o.id))
		s.Fail("commit-before-done", "store-not-committed", "obj%d: BatchWriteDone called but store holds %v (err %v), last BatchWrite wrote v%d (deleted=%v)", o.id, v, err, o.lastWrite, o.lastWriteDeleted)
	}
	o.committed = o.lastWrite
}

func (o *obj) BatchWriteScheduled() bool {
	if o.scheduled {
		o.w.s.Probe("enqueue-piggybacked-on-scheduled-object")
		return true
	}
	o.scheduled = true
	return false
}

func (o *obj) ResetBatchWriteScheduled() { o.scheduled = false }

// brokenObj panics when it is asked whether it is scheduled already (a typed nil pointer in real life).
type brokenObj struct{ w *world }

func (b *brokenObj) BatchWrite(kvstore.BatchedMutations) {
	b.w.s.Fail("exactly-once", "broken-object-written", "BatchWrite called for an object whose Enqueue panicked")
}
func (b *brokenObj) BatchWriteDone()           {}
func (b *brokenObj) BatchWriteScheduled() bool { panic("BatchWriteScheduled gives up") }
func (b *brokenObj) ResetBatchWriteScheduled() {}

func (w *world) stored(id int) (uint64, bool) {
	v, err := w.store.Get(key(id))
	if err != nil {
		return 0, false
	}
	return binary.LittleEndian.Uint64(v), true
}

// storeMatches: the store holds exactly what the last BatchWrite of the object did.
func (w *world) storeMatches(o *obj) bool {
	got, ok := w.stored(o.id)
	if o.lastWriteDeleted {
		return !ok
	}
	return ok && got == o.lastWrite
}

func writer(s *simrt.Sim) {
	w := &world{s: s, store: mapdb.NewMapDB()}
	qs := s.Choose(4)
	bs := 1 + s.Choose(3)
	to := simrt.Knob(s, 5*time.Millisecond, 100*time.Millisecond, time.Second)
	bw := kvstore.NewBatchedWriter(w.store, kvstore.WithQueueSize(qs), kvstore.WithBatchSize(bs), kvstore.WithBatchTimeout(to))
	s.Logf("config queue=%d batch=%d timeout=%v", qs, bs, to)
	nobj := 1 + s.Choose(3)
	for i := 0; i < nobj; i++ {
		w.objs = append(w.objs, &obj{w: w, id: i})
	}
	var nextVersion uint64
	prodLeft := 0
	var finalStop func()
	var firstEnqInv, racingRet, firstStopInv uint64
	nprod := 1 + s.Choose(simrt.Bound(4, 5))
	for p := 0; p < nprod; p++ {
		n := 1 + s.Choose(simrt.Bound(4, 7))
		type step struct {
			obj    int
			del    bool
			broken bool // an object whose BatchWriteScheduled panics; the producer recovers and goes on
			sleep  time.Duration
		}
		steps := make([]step, n)
		for i := range steps {
			steps[i].obj = s.Choose(nobj)
			steps[i].del = s.Choose(4) == 3
			steps[i].broken = s.Choose(16) == 15
			if s.Choose(4) == 3 {
				steps[i].sleep = simrt.Knob(s, to/4, to, 3*to)
			}
		}
		prodLeft++
		s.Go(fmt.Sprintf("producer%d", p), func() {
			defer func() {
				if !s.Failed() {
					prodLeft--
					if finalStop != nil {
						finalStop()
					}
				}
			}()
			for _, st := range steps {
				if st.sleep > 0 {
					simrt.Sleep(st.sleep)
				}
				if st.broken {
					// the caller's own object gives up inside Enqueue: the panic reaches the caller, who recovers; the writer
					// stays usable for everybody (whatever Enqueue held at that moment is released)
					if firstEnqInv == 0 {
						firstEnqInv = s.Tick() // (the first Enqueue starts the writer, whatever becomes of the call)
					}
					panicked, _ := hx.Try(func() { bw.Enqueue(&brokenObj{w}) })
					s.Probe("enqueue-of-an-object-whose-BatchWriteScheduled-panics")
					s.Logf("Enqueue of a broken object: panicked=%v", panicked)
					continue
				}
				o := w.objs[st.obj]
				nextVersion++
				o.version = nextVersion
				o.deleted = st.del
				if st.del {
					s.Probe("enqueue-of-deleted-object")
				}
				e := &enq{version: o.version, inv: s.Tick()}
				if firstEnqInv == 0 {
					firstEnqInv = e.inv
				}
				s.Logf("Enqueue obj%d v%d", o.id, e.version)
				bw.Enqueue(o)
				e.ret = s.Tick()
				switch {
				case firstStopInv != 0 && e.inv > firstStopInv:
					s.Probe("enqueue-invoked-after-stop")
				case firstStopInv != 0 && e.ret > firstStopInv:
					s.Probe("enqueue-overlaps-stop")
				}
				o.enq = append(o.enq, e)
				s.Logf("Enqueue obj%d v%d returned", o.id, e.version)
			}
		})
	}
	nflush := s.Choose(3)
	for f := 0; f < nflush; f++ {
		d := s.Choose(4)
		s.Go(fmt.Sprintf("flusher%d", f), func() {
			for i := 0; i < d; i++ {
				simrt.Yield()
			}
			s.Probe("flush")
			s.Logf("Flush")
			bw.Flush()
		})
	}
	stopDelay := s.Choose(8)
	stopSleep := time.Duration(0)
	if s.Choose(3) == 2 {
		stopSleep = simrt.Knob(s, to/4, to, 4*to)
	}
	stopped := false
	checkAtStop := func(stopInv uint64, final bool) {
		if final {
			// the racing Stop was certainly a no-op (writer never started) only if no Enqueue had been invoked when it
			// returned; otherwise it may have stopped the writer for good and later Enqueues are legitimately dropped
			if !(firstEnqInv == 0 || firstEnqInv > racingRet) {
				return
			}
			s.Probe("final-stop-after-noop-stop")
		}
		// every Enqueue that returned before Stop was invoked must be written, committed and done by now
		for _, o := range w.objs {
			var need uint64
			for _, e := range o.enq {
				if e.ret != 0 && e.ret < stopInv && e.version > need {
					need = e.version
				}
			}
			if need == 0 {
				continue
			}
			if o.committed < need {
				got, ok := w.stored(o.id)
				s.Fail("stop-waits", "enqueued-before-stop-not-written", "StopBatchWriter returned but obj%d v%d (Enqueue returned before Stop was invoked) is not committed: last commit seen v%d, store has v%d (present=%v)", o.id, need, o.committed, got, ok)
			}
			// (o.committed is only advanced by BatchWriteDone, after the commit was verified: committed >= need says that the
			// write, its commit and its BatchWriteDone have all happened; a BatchWrite of a LATER Enqueue may be in
			// progress at this moment - e.g. an implementation that writes late Enqueues through directly)
		}
	}
	doStop := func(what string) {
		inv := s.Tick()
		if firstStopInv == 0 {
			firstStopInv = inv
		}
		if what != "final" {
			// an Enqueue invoked after an earlier Stop may legitimately have been dropped: every Stop call is held to
			// what was enqueued before the FIRST Stop call was invoked
			inv = firstStopInv
		}
		s.Logf("StopBatchWriter (%s)", what)
		bw.StopBatchWriter()
		s.Logf("StopBatchWriter returned (%s)", what)
		if what != "final" {
			racingRet = s.Tick() // the latest return of a non-final Stop call
		}
		checkAtStop(inv, what == "final")
	}
	// a Stop issued before the first Enqueue is a no-op and a later Enqueue auto-starts the writer: the last task to
	// finish issues a final Stop so that every run ends with a stopped writer
	finalIssued := false
	extraLeft := s.Choose(3)
	finalStop = func() {
		if prodLeft == 0 && stopped && extraLeft == 0 && !finalIssued {
			finalIssued = true
			doStop("final")
		}
	}
	// 0-2 further Stop callers racing with the first one: every Stop call has to wait for what was enqueued before it
	nextra := extraLeft
	for x := 0; x < nextra; x++ {
		d := s.Choose(10)
		s.Go(fmt.Sprintf("stopper-extra%d", x), func() {
			for i := 0; i < d; i++ {
				simrt.Yield()
			}
			doStop("extra")
			extraLeft--
			finalStop()
		})
	}
	s.Go("stopper", func() {
		for i := 0; i < stopDelay; i++ {
			simrt.Yield()
		}
		if stopSleep > 0 {
			simrt.Sleep(stopSleep)
		}
		doStop("racing")
		stopped = true
		finalStop()
	})
	left := s.Quiesce()
	hx.Stuck(s, "termination", left, nil)
	if !stopped {
		s.Fail("termination", "stop", "stopper did not finish")
	}
	// all-or-nothing and final contents
	for _, o := range w.objs {
		if o.dones != o.writes {
			s.Fail("done-once", "write-done-mismatch", "obj%d: %d BatchWrite calls but %d BatchWriteDone calls at quiescence", o.id, o.writes, o.dones)
		}
		got, ok := w.stored(o.id)
		if o.writes == 0 {
			if ok {
				s.Fail("final-contents", "stored-without-write", "obj%d never passed to BatchWrite but store holds v%d", o.id, got)
			}
			continue
		}
		if !w.storeMatches(o) {
			s.Fail("final-contents", "not-last-write", "obj%d: store holds v%d (present=%v) but the last BatchWrite wrote v%d (deleted=%v)", o.id, got, ok, o.lastWrite, o.lastWriteDeleted)
		}
	}
}
