package typed

import (
	"bytes"
	"encoding/binary"
	"errors"
	"fmt"
	"sort"
	"strings"
	"testing"

	"github.com/iotaledger/hive.go/kvstore"
	"verifharness/faultkv"
	"verifharness/hx"
	"verifsim/simrt"
)

func TestSim(t *testing.T) {
	simrt.Main(t,
		&simrt.Harness{Name: "valueseq", Body: valueSeq},
		&simrt.Harness{Name: "storeseq", Body: storeSeq},
		&simrt.Harness{Name: "valueconc", Body: valueConc},
	)
}

var errCodec = errors.New("injected codec failure")
var errCompute = errors.New("compute function failed")

// faults numbers every call site that can fail (store calls and codec calls) and fails exactly one of them.
type faults struct {
	s      *simrt.Sim
	site   int
	failAt int // -1: none
	fired  string
	inOp   bool
	hitOp  bool // a fault fired during the current operation
}

func (f *faults) hit(kind string) bool {
	i := f.site
	f.site++
	if i == f.failAt {
		f.fired = kind
		f.hitOp = true
		f.s.Fault(kind)
		f.s.Logf("  FAULT at site %d: %s", i, kind)
		return true
	}
	return false
}

func enc64(f *faults, what string) kvstore.ObjectToBytes[uint64] {
	return func(v uint64) ([]byte, error) {
		if f.hit(what + "-encode-fails") {
			return nil, errCodec
		}
		var b [8]byte
		binary.LittleEndian.PutUint64(b[:], v)
		return b[:], nil
	}
}

func dec64(f *faults, what string) kvstore.BytesToObject[uint64] {
	return func(b []byte) (uint64, int, error) {
		if f.hit(what + "-decode-fails") {
			return 0, 0, errCodec
		}
		if len(b) != 8 {
			return 0, 0, fmt.Errorf("stored bytes have length %d, not 8", len(b))
		}
		return binary.LittleEndian.Uint64(b), 8, nil
	}
}

func enc16(f *faults) kvstore.ObjectToBytes[uint16] {
	return func(v uint16) ([]byte, error) {
		if f.hit("key-encode-fails") {
			return nil, errCodec
		}
		return []byte{byte(v >> 8), byte(v)}, nil
	}
}

func dec16(f *faults) kvstore.BytesToObject[uint16] {
	return func(b []byte) (uint16, int, error) {
		if f.hit("key-decode-fails") {
			return 0, 0, errCodec
		}
		if len(b) != 2 {
			return 0, 0, fmt.Errorf("stored key has length %d, not 2", len(b))
		}
		return uint16(b[0])<<8 | uint16(b[1]), 2, nil
	}
}

func newStore(s *simrt.Sim, f *faults) *faultkv.Store {
	st := faultkv.New(s)
	st.Before = func(op string) bool { return f.hit("store-" + op + "-fails") }
	return st
}

// tvAPI is what the sequential harness drives: a TypedValue over uint64 (a value type with a fixed-width encoding) or,
// in the "ref" configuration, over *cell - a reference type whose compute functions update the object they were handed
// in place (the common idiom) and whose value 0 encodes to zero bytes.
type tvAPI struct {
	Get     func() (uint64, error)
	Has     func() (bool, error)
	Set     func(uint64) error
	Delete  func() error
	Compute func(mode int, arg uint64) (got, seenCur uint64, seenEx bool, err error) // mode 4 new value, 5 not changed, 6 own error
}

func u64Value(st *faultkv.Store, f *faults) *tvAPI {
	tv := kvstore.NewTypedValue[uint64](st, vkey, enc64(f, "value"), dec64(f, "value"))
	return &tvAPI{Get: tv.Get, Has: tv.Has, Set: tv.Set, Delete: tv.Delete,
		Compute: func(mode int, arg uint64) (got, seenCur uint64, seenEx bool, err error) {
			got, err = tv.Compute(func(cur uint64, exists bool) (uint64, error) {
				seenCur, seenEx = cur, exists
				switch mode {
				case 5:
					return arg, kvstore.ErrTypedValueNotChanged
				case 6:
					return arg, errCompute
				}
				return arg, nil
			})
			return
		}}
}

type cell struct{ n uint64 }

func cellBytes(n uint64) []byte {
	if n == 0 {
		return []byte{}
	}
	var b [8]byte
	binary.LittleEndian.PutUint64(b[:], n)
	return b[:]
}

const nilCell = ^uint64(0)

func cellN(c *cell) uint64 {
	if c == nil {
		return nilCell
	}
	return c.n
}

func refValue(st *faultkv.Store, f *faults) *tvAPI {
	tv := kvstore.NewTypedValue[*cell](st, vkey,
		func(c *cell) ([]byte, error) {
			if f.hit("value-encode-fails") {
				return nil, errCodec
			}
			if c == nil {
				return nil, errors.New("nil value")
			}
			return cellBytes(c.n), nil
		},
		func(b []byte) (*cell, int, error) {
			if f.hit("value-decode-fails") {
				return nil, 0, errCodec
			}
			switch len(b) {
			case 0:
				return &cell{}, 0, nil
			case 8:
				return &cell{n: binary.LittleEndian.Uint64(b)}, 8, nil
			}
			return nil, 0, fmt.Errorf("stored bytes have length %d, not 0 or 8", len(b))
		})
	return &tvAPI{
		Get:    func() (uint64, error) { c, err := tv.Get(); return cellN(c), err },
		Has:    tv.Has,
		Set:    func(v uint64) error { return tv.Set(&cell{n: v}) },
		Delete: tv.Delete,
		Compute: func(mode int, arg uint64) (got, seenCur uint64, seenEx bool, err error) {
			var c *cell
			c, err = tv.Compute(func(cur *cell, exists bool) (*cell, error) {
				seenEx = exists
				if cur != nil {
					seenCur = cur.n
				}
				switch mode {
				case 5:
					return cur, kvstore.ErrTypedValueNotChanged
				case 6:
					if cur != nil {
						cur.n = arg // scribbles on what it was handed, then gives up: the failure must leave store and cache unchanged
					}
					return cur, errCompute
				}
				if cur != nil {
					cur.n = arg // updates the object in place and hands it back
					return cur, nil
				}
				return &cell{n: arg}, nil
			})
			return cellN(c), seenCur, seenEx, err
		}}
}

// ---------------------------------------------------------------------------------------------
// TypedValue, sequential, every fault position

type vop struct {
	kind int // 0 Get 1 Has 2 Set 3 Delete 4 Compute-new 5 Compute-notchanged 6 Compute-error
	arg  uint64
}

var vnames = []string{"Get", "Has", "Set", "Delete", "Compute(new)", "Compute(notchanged)", "Compute(error)"}

var vkey = []byte("tv")

func runValue(s *simrt.Sim, ops []vop, failAt int, fresh []bool) (sites int) {
	f := &faults{s: s, failAt: failAt}
	st := newStore(s, f)
	mk := func() *tvAPI {
		if simrt.ConfigHas("ref") {
			return refValue(st, f)
		}
		return u64Value(st, f)
	}
	tv := mk()
	encoded := func(v uint64) []byte {
		if simrt.ConfigHas("ref") {
			return cellBytes(v)
		}
		var b [8]byte
		binary.LittleEndian.PutUint64(b[:], v)
		return b[:]
	}
	present, val := false, uint64(0)
	tag := ""
	if failAt >= 0 {
		tag = ":under-fault"
	}
	for i, op := range ops {
		if fresh[i] {
			tv = mk() // a second typed view over the same key: the cache is cold, the store is the truth
			s.Logf("  (new TypedValue object over the same store)")
		}
		f.hitOp = false
		name := vnames[op.kind]
		var err error
		var got uint64
		var gotHas bool
		wantPresent, wantVal := present, val
		switch op.kind {
		case 0:
			got, err = tv.Get()
		case 1:
			gotHas, err = tv.Has()
		case 2:
			err = tv.Set(op.arg)
			wantPresent, wantVal = true, op.arg
		case 3:
			err = tv.Delete()
			wantPresent = false
		case 4:
			var seenCur uint64
			var seenEx bool
			got, seenCur, seenEx, err = tv.Compute(4, op.arg)
			if err == nil || !f.hitOp {
				if (err == nil || seenEx || seenCur != 0) && (seenEx != present || (present && seenCur != val)) {
					s.Fail("model", "Compute-sees-wrong-current"+tag, "op %d Compute: function saw (%d,%v) but the value is (%d,%v)", i, seenCur, seenEx, val, present)
				}
			}
			wantPresent, wantVal = true, op.arg
		case 5:
			got, _, _, err = tv.Compute(5, 77)
		case 6:
			got, _, _, err = tv.Compute(6, 78)
		}
		s.Logf("op %d %s(%d) -> %d %v err=%v", i, name, op.arg, got, gotHas, err)
		if f.hitOp {
			// a store or codec call failed inside this operation: it must be reported and nothing may change
			if err == nil {
				s.Fail("error-faithful", "failure-swallowed:"+name+":"+f.fired, "op %d %s: %s but the call returned no error", i, name, f.fired)
			}
		} else {
			// fault-free operation: result equals the model's
			switch op.kind {
			case 0:
				if present && (err != nil || got != val) {
					s.Fail("model", "Get"+tag, "op %d Get = (%d,%v), model has %d", i, got, err, val)
				}
				if !present && !errors.Is(err, kvstore.ErrKeyNotFound) {
					s.Fail("model", "Get-missing"+tag, "op %d Get = (%d,%v), model has no value", i, got, err)
				}
			case 1:
				if err != nil || gotHas != present {
					s.Fail("model", "Has"+tag, "op %d Has = (%v,%v), model says %v", i, gotHas, err, present)
				}
			case 2, 3:
				if err != nil {
					s.Fail("model", name+"-error"+tag, "op %d %s failed without a fault: %v", i, name, err)
				}
				present, val = wantPresent, wantVal
			case 4:
				if err != nil || got != op.arg {
					s.Fail("model", "Compute-result"+tag, "op %d Compute(new=%d) = (%d,%v)", i, op.arg, got, err)
				}
				present, val = wantPresent, wantVal
			case 5:
				if err != nil || (present && got != val) {
					s.Fail("model", "Compute-notchanged"+tag, "op %d Compute(not changed) = (%d,%v), current value %d present=%v", i, got, err, val, present)
				}
			case 6:
				if !errors.Is(err, errCompute) {
					s.Fail("error-faithful", "compute-error-lost"+tag, "op %d Compute with failing function returned err=%v", i, err)
				}
			}
		}
		// stored bytes are always the encoding of the last successfully written value
		raw, ok := st.Raw(vkey)
		if ok != present || (present && !bytes.Equal(raw, encoded(val))) {
			s.Fail("stored-bytes", "after-"+name+tag, "after op %d %s (err=%v): store holds %v (present=%v) but the last successfully written value is %d (present=%v)", i, name, err, raw, ok, val, present)
		}
	}
	// cache not ahead of / behind the store: fault-free reads agree with the model
	f.failAt = -1
	f.hitOp = false
	if h, err := tv.Has(); err != nil || h != present {
		s.Fail("cache", "final-Has"+tag, "final Has = (%v,%v), model %v", h, err, present)
	}
	if g, err := tv.Get(); present && (err != nil || g != val) || !present && !errors.Is(err, kvstore.ErrKeyNotFound) {
		s.Fail("cache", "final-Get"+tag, "final Get = (%d,%v), model (%d,%v)", g, err, val, present)
	}
	return f.site
}

func valueSeq(s *simrt.Sim) {
	n := 1 + s.Choose(simrt.Bound(8, 12))
	ops := make([]vop, n)
	fresh := make([]bool, n)
	next := uint64(100)
	for i := range ops {
		ops[i].kind = s.Weighted(3, 2, 3, 2, 3, 1, 1)
		next++
		ops[i].arg = next
		if simrt.ConfigHas("ref") && s.Choose(4) == 0 {
			ops[i].arg = 0 // encodes to zero bytes: a present key with an empty value
		}
		fresh[i] = s.Choose(6) == 5
	}
	var d []string
	for _, o := range ops {
		d = append(d, vnames[o.kind])
	}
	s.Logf("script %s", strings.Join(d, " "))
	sites := runValue(s, ops, -1, fresh)
	s.Logf("fault-free world done: %d fault sites", sites)
	for p := 0; p < sites; p++ {
		s.Logf("--- world with fault at site %d", p)
		runValue(s, ops, p, fresh)
	}
}

// ---------------------------------------------------------------------------------------------
// TypedStore, sequential, every fault position

type sop struct {
	kind int // 0 Get 1 Has 2 Set 3 Delete 4 Iterate 5 IterateKeys
	key  uint16
	arg  uint64
	stop int
	back bool
}

var snames = []string{"Get", "Has", "Set", "Delete", "Iterate", "IterateKeys"}

func rawKey(k uint16) []byte { return []byte{byte(k >> 8), byte(k)} }

func runStore(s *simrt.Sim, ops []sop, failAt int) int {
	f := &faults{s: s, failAt: failAt}
	st := newStore(s, f)
	ts := kvstore.NewTypedStore[uint16, uint64](st, enc16(f), dec16(f), enc64(f, "value"), dec64(f, "value"))
	model := map[uint16]uint64{}
	tag := ""
	if failAt >= 0 {
		tag = ":under-fault"
	}
	for i, op := range ops {
		f.hitOp = false
		name := snames[op.kind]
		var err error
		var got uint64
		var has bool
		type kvp struct {
			k uint16
			v uint64
		}
		var seen []kvp
		switch op.kind {
		case 0:
			got, err = ts.Get(op.key)
		case 1:
			has, err = ts.Has(op.key)
		case 2:
			err = ts.Set(op.key, op.arg)
		case 3:
			err = ts.Delete(op.key)
		case 4:
			dir := kvstore.IterDirectionForward
			if op.back {
				dir = kvstore.IterDirectionBackward
			}
			err = ts.Iterate(kvstore.EmptyPrefix, func(k uint16, v uint64) bool {
				seen = append(seen, kvp{k, v})
				return len(seen) < op.stop
			}, dir)
		case 5:
			dir := kvstore.IterDirectionForward
			if op.back {
				dir = kvstore.IterDirectionBackward
			}
			err = ts.IterateKeys(kvstore.EmptyPrefix, func(k uint16) bool {
				seen = append(seen, kvp{k, model[k]})
				return len(seen) < op.stop
			}, dir)
		}
		s.Logf("op %d %s(k=%d,%d) -> %d %v %v err=%v", i, name, op.key, op.arg, got, has, seen, err)
		// whatever the iteration reported before failing must be true
		var keys []uint16
		for k := range model {
			keys = append(keys, k)
		}
		sort.Slice(keys, func(a, b int) bool { return (keys[a] < keys[b]) != op.back })
		if op.kind >= 4 {
			for j, e := range seen {
				if j >= len(keys) || keys[j] != e.k || model[e.k] != e.v {
					s.Fail("model", name+"-entries"+tag, "op %d %s reported %v but the contents in order are keys %v of %v", i, name, seen, keys, model)
				}
			}
		}
		if f.hitOp {
			if err == nil {
				s.Fail("error-faithful", "failure-swallowed:"+name+":"+f.fired, "op %d %s: %s but the call returned no error", i, name, f.fired)
			}
		} else {
			v, present := model[op.key]
			switch op.kind {
			case 0:
				if present && (err != nil || got != v) || !present && !errors.Is(err, kvstore.ErrKeyNotFound) {
					s.Fail("model", "Get"+tag, "op %d Get(%d) = (%d,%v), model (%d,%v)", i, op.key, got, err, v, present)
				}
			case 1:
				if err != nil || has != present {
					s.Fail("model", "Has"+tag, "op %d Has(%d) = (%v,%v), model %v", i, op.key, has, err, present)
				}
			case 2:
				if err != nil {
					s.Fail("model", "Set-error"+tag, "op %d Set failed without a fault: %v", i, err)
				}
				model[op.key] = op.arg
			case 3:
				if err != nil {
					s.Fail("model", "Delete-error"+tag, "op %d Delete failed without a fault: %v", i, err)
				}
				delete(model, op.key)
			case 4, 5:
				want := len(keys)
				if op.stop < want {
					want = op.stop
				}
				if err != nil || len(seen) != want {
					s.Fail("model", name+"-count"+tag, "op %d %s(stop=%d) reported %d entries err=%v, expected %d of %v", i, name, op.stop, len(seen), err, want, model)
				}
			}
		}
		// raw contents equal the model under the codec
		for _, k := range []uint16{1, 2, 3} {
			raw, ok := st.Raw(rawKey(k))
			v, present := model[k]
			if ok != present || (present && (len(raw) != 8 || binary.LittleEndian.Uint64(raw) != v)) {
				s.Fail("stored-bytes", "after-"+name+tag, "after op %d %s (err=%v): raw key %d holds %v (present=%v), model (%d,%v)", i, name, err, k, raw, ok, v, present)
			}
		}
	}
	return f.site
}

func storeSeq(s *simrt.Sim) {
	n := 1 + s.Choose(simrt.Bound(8, 12))
	ops := make([]sop, n)
	next := uint64(200)
	for i := range ops {
		next++
		ops[i] = sop{kind: s.Weighted(2, 2, 4, 2, 2, 1), key: uint16(1 + s.Choose(3)), arg: next, stop: 1 + s.Choose(3), back: s.Choose(2) == 1}
	}
	sites := runStore(s, ops, -1)
	s.Logf("fault-free world done: %d fault sites", sites)
	for p := 0; p < sites; p++ {
		s.Logf("--- world with fault at site %d", p)
		runStore(s, ops, p)
	}
}

// ---------------------------------------------------------------------------------------------
// TypedValue, concurrent

type reg struct {
	present bool
	val     uint64
}

type cin struct {
	kind int // 0 Get 1 Has 2 Set 3 Delete 4 Compute(+1)
	arg  uint64
}

type cout struct {
	val     uint64
	has     bool
	missing bool
	failed  bool
}

func valueConc(s *simrt.Sim) {
	withFaults := simrt.ConfigHas("faults")
	f := &faults{s: s, failAt: -1}
	st := newStore(s, f)
	if withFaults {
		// store calls fail with a per-run probability (before taking effect); codecs stay healthy here
		num := 1 + s.Choose(3)
		st.Before = func(op string) bool {
			if s.Chance(num, 12) {
				s.Fault("store-" + op + "-fails")
				return true
			}
			return false
		}
	}
	tv := kvstore.NewTypedValue[uint64](st, vkey, enc64(f, "value"), dec64(f, "value"))
	var hist []*hx.LinOp
	nc := 2 + s.Choose(simrt.Bound(2, 3))
	next := uint64(1000)
	for c := 0; c < nc; c++ {
		n := 1 + s.Choose(4)
		ops := make([]cin, n)
		for i := range ops {
			next += 1000
			ops[i] = cin{kind: s.Weighted(2, 1, 2, 1, 4), arg: next}
		}
		s.Go(fmt.Sprintf("client%d", c), func() {
			for _, in := range ops {
				op := &hx.LinOp{Call: s.Tick(), In: in}
				hist = append(hist, op)
				var out cout
				var err error
				switch in.kind {
				case 0:
					out.val, err = tv.Get()
					if errors.Is(err, kvstore.ErrKeyNotFound) {
						out.missing, err = true, nil
					}
				case 1:
					out.has, err = tv.Has()
				case 2:
					err = tv.Set(in.arg)
				case 3:
					err = tv.Delete()
				case 4:
					out.val, err = tv.Compute(func(cur uint64, exists bool) (uint64, error) {
						simrt.Yield()
						return cur + 1, nil
					})
				}
				if err != nil {
					if !withFaults {
						s.Fail("model", "spurious-error", "%s failed without an injected fault: %v", vnames[min(in.kind, 4)], err)
					}
					out.failed = true
				}
				op.Out = out
				op.Ret = s.Tick()
				op.Desc = fmt.Sprintf("%s(%d)->%+v", vnames[min(in.kind, 4)], in.arg, out)
				s.Logf("%s", op.Desc)
			}
		})
	}
	left := s.Quiesce()
	hx.Stuck(s, "deadlock", left, nil)
	ops := make([]hx.LinOp, len(hist))
	for i, o := range hist {
		ops[i] = *o
	}
	ok := hx.Linearizable(ops, reg{}, func(r reg, o hx.LinOp) (reg, bool) {
		in := o.In.(cin)
		if o.Ret == 0 {
			// never returned: may have had its effect
			switch in.kind {
			case 2:
				return reg{true, in.arg}, true
			case 3:
				return reg{}, true
			case 4:
				return reg{true, r.val + 1}, true
			}
			return r, true
		}
		out := o.Out.(cout)
		if out.failed {
			return r, true // a failed call has no effect
		}
		switch in.kind {
		case 0:
			if r.present {
				return r, !out.missing && out.val == r.val
			}
			return r, out.missing
		case 1:
			return r, out.has == r.present
		case 2:
			return reg{true, in.arg}, true
		case 3:
			return reg{}, true
		default:
			cur := uint64(0)
			if r.present {
				cur = r.val
			}
			return reg{true, cur + 1}, out.val == cur+1
		}
	}, func(r reg) string { return fmt.Sprintf("%v:%d", r.present, r.val) })
	if !ok {
		var d []string
		for _, o := range ops {
			d = append(d, fmt.Sprintf("[%d,%d] %s", o.Call, o.Ret, o.Desc))
		}
		tag := ""
		if withFaults {
			tag = ":under-fault"
		}
		s.Fail("linearizable", "typedvalue"+tag, "history is not linearizable (lost update or a value that was never written):\n%s", strings.Join(d, "\n"))
	}
	// final contents = raw bytes
	g, err := tv.Get()
	raw, okRaw := st.Raw(vkey)
	f.failAt = -1
	if !withFaults {
		if (err == nil) != okRaw || (okRaw && binary.LittleEndian.Uint64(raw) != g) {
			s.Fail("stored-bytes", "final", "final Get = (%d,%v) but raw bytes %v (present=%v)", g, err, raw, okRaw)
		}
	}
}
