package workerpool

import (
	"fmt"
	"strings"
	"testing"

	"github.com/iotaledger/hive.go/runtime/options"
	"github.com/iotaledger/hive.go/runtime/workerpool"
	"verifharness/hx"
	"verifsim/simrt"
	"verifsim/simsync"
)

func TestSim(t *testing.T) {
	simrt.Main(t,
		&simrt.Harness{Name: "pool", Body: func(s *simrt.Sim) { pool(s, false) }},
		&simrt.Harness{Name: "restart", Body: func(s *simrt.Sim) { pool(s, true) }},
		&simrt.Harness{Name: "group", Body: group},
		&simrt.Harness{Name: "grouptree", Body: groupTree},
	)
}

type subm struct {
	id        string
	inv, ret  uint64
	accepted  bool
	starts    int
	finished  bool
	startStep uint64
}

// window: Start returned .. Shutdown invoked (0 = open); startInv: when that Start call was invoked
type window struct{ from, to, startInv uint64 }

type callIv struct{ inv, ret uint64 } // one Shutdown() call

type world struct {
	watchMu  simsync.Mutex
	watched  map[*workerpool.WorkerPool]bool // the harness listens to these pools' pending-task counters
	s        *simrt.Sim
	subs     []*subm
	inflight map[*simrt.Task]*subm
	running  map[*simrt.Task]*subm // task function currently executing on this worker
	decr     int
	accepted int
	down     bool // ShutdownComplete.Wait returned and no Start invoked since
	windows  []*window
	shuts    []*callIv
	panicOpt bool
	// Start calls invoked so far / invoked and not yet returned
	startSeq, startsInFlight int
	cancelledAt              []uint64 // steps at which a pending task left the counter without having run
	// ghost of the number of pending tasks, a lower bound at every instant: +1 when an accepted Submit call has
	// returned (the real increase happened inside the call), -1 when a task function has finished (the real decrease
	// follows), and for a task that is cancelled by a shutdown -1 at the step that shutdown was invoked (the earliest
	// moment the cancellation can have happened; the harness observes it only afterwards, behind the group's own
	// subscription). Evaluated after quiescence, when all events are known.
	gevents      []gev
	justFinished map[*simrt.Task]bool
	shutdownInv  uint64
}

type gev struct {
	step  uint64
	delta int
}

// pendingAt is the ghost's lower bound of the number of pending tasks at step t.
func (w *world) pendingAt(t uint64) int {
	sum := 0
	for _, e := range w.gevents {
		if e.step <= t {
			sum += e.delta
		}
	}
	return max(0, sum)
}

type waitRec struct {
	worlds   []*world
	name     string
	inv, ret uint64
}

// check: a wait on a group may only return if, at some instant of the call, nothing was pending below the group.
func (r *waitRec) check(s *simrt.Sim) {
	atInv := 0
	for _, w := range r.worlds {
		atInv += w.pendingAt(r.inv)
	}
	if atInv > 0 {
		s.Probe("group-wait-invoked-while-tasks-pending")
	}
	pts := []uint64{r.inv, r.ret}
	for _, w := range r.worlds {
		for _, e := range w.gevents {
			if e.step > r.inv && e.step < r.ret {
				pts = append(pts, e.step)
			}
		}
	}
	for _, t := range pts {
		sum := 0
		for _, w := range r.worlds {
			sum += w.pendingAt(t)
		}
		if sum == 0 {
			return
		}
	}
	var ev []string
	for i, w := range r.worlds {
		ev = append(ev, fmt.Sprintf("pool%d%v", i, w.gevents))
	}
	s.Fail("waitchildren", "returned-while-pending"+r.name, "wait on group%s returned in [%d,%d] although tasks were pending below it the whole time; ghost events %v", r.name, r.inv, r.ret, ev)
}

func (w *world) watch(p *workerpool.WorkerPool) {
	w.watchMu.Lock() // a second harness task that wants to submit waits until the subscription is in place
	defer w.watchMu.Unlock()
	if w.watched == nil {
		w.watched = map[*workerpool.WorkerPool]bool{}
	}
	if w.watched[p] {
		return
	}
	w.watched[p] = true
	p.PendingTasksCounter.Subscribe(func(o, n int) {
		if n < 0 {
			w.s.Fail("counter", "negative", "pending counter became %d", n)
		}
		if n > o {
			sb := w.inflight[simrt.Current()]
			if sb == nil {
				w.s.Fail("counter", "increase-outside-submit", "pending counter increased outside a Submit call")
				return
			}
			sb.accepted = true
			w.accepted++
		} else {
			w.decr++
			cur := simrt.Current()
			if w.justFinished[cur] {
				w.justFinished[cur] = false // accounted for when the function finished
			} else {
				// the task was cancelled (shutdown of a pool that cancels pending tasks)
				w.s.Probe("task-cancelled-on-shutdown")
				w.cancelledAt = append(w.cancelledAt, w.s.Tick())
				at := w.shutdownInv
				if at == 0 {
					at = w.s.Tick()
				}
				w.gevents = append(w.gevents, gev{at, -1})
			}
		}
	})
}

// submit performs one Submit call of a task that optionally yields and optionally submits a nested task.
func (w *world) submit(p *workerpool.WorkerPool, id string, yields int, nested int) {
	s := w.s
	sb := &subm{id: id}
	w.subs = append(w.subs, sb)
	me := simrt.Current()
	prev := w.inflight[me]
	w.inflight[me] = sb
	sb.inv = s.Tick()
	panicked, pv := hx.Try(func() { w.doSubmit(p, sb, id, yields, nested) })
	if panicked {
		// WithPanicOnSubmitAfterShutdown: a rejected Submit panics instead of returning; the caller recovers
		if !w.panicOpt || sb.accepted {
			s.Fail("submit", "unexpected-panic", "Submit of %s panicked (panic option %v, accepted %v): %v", id, w.panicOpt, sb.accepted, pv)
		}
		s.Probe("submit-rejected-by-panic")
	}
	sb.ret = s.Tick()
	if sb.accepted {
		w.gevents = append(w.gevents, gev{sb.ret, 1})
	}
	w.inflight[me] = prev
	s.Logf("submit %s accepted=%v panicked=%v", id, sb.accepted, panicked)
}

func (w *world) doSubmit(p *workerpool.WorkerPool, sb *subm, id string, yields int, nested int) {
	s := w.s
	p.Submit(func() {
		sb.starts++
		sb.startStep = s.Tick()
		s.Logf("task %s starts", id)
		if sb.starts > 1 {
			s.Fail("exactly-once", "run-twice", "task %s ran %d times", id, sb.starts)
		}
		if !sb.accepted {
			s.Fail("exactly-once", "run-unaccepted", "task %s runs although the pending counter was never raised for it", id)
		}
		if w.down {
			s.Fail("after-shutdown", "task-started", "task %s started after ShutdownComplete.Wait had returned", id)
		}
		for i := 0; i < yields; i++ {
			simrt.Yield()
		}
		for i := 0; i < nested; i++ {
			w.submit(p, fmt.Sprintf("%s.n%d", id, i), 0, 0)
		}
		sb.finished = true
		if w.justFinished == nil {
			w.justFinished = map[*simrt.Task]bool{}
		}
		w.justFinished[simrt.Current()] = true
		w.gevents = append(w.gevents, gev{s.Tick(), -1})
		s.Logf("task %s done", id)
	})
}

// overlapsShutdown: the Submit call was in flight during some Shutdown() call.
func (w *world) overlapsShutdown(sb *subm) bool {
	for _, sh := range w.shuts {
		if sb.inv < sh.ret && (sh.ret == 0 || sb.inv < sh.ret) && sb.ret > sh.inv {
			return true
		}
	}
	return false
}

func (w *world) finalChecks(p *workerpool.WorkerPool, cancelOK bool) {
	s := w.s
	ran := 0
	unstartedOverlap := 0
	for _, sb := range w.subs {
		if sb.ret == 0 {
			continue // Submit never returned: reported as stuck
		}
		if w.overlapsShutdown(sb) {
			s.Probe("submit-overlaps-shutdown")
			if sb.accepted {
				s.Probe("submit-overlapping-shutdown-accepted")
			}
		}
		if !sb.accepted {
			s.Probe("submit-rejected")
		}
		if sb.accepted && sb.starts == 0 {
			s.Probe("accepted-task-cancelled-by-shutdown")
		}
		if sb.accepted && sb.starts == 0 {
			if w.overlapsShutdown(sb) {
				unstartedOverlap++
			}
			if !cancelOK {
				sig := "accepted-never-run"
				if w.overlapsShutdown(sb) {
					sig += ":submit-overlaps-shutdown"
				}
				s.Fail("conservation", sig, "task %s was accepted (counter raised, Submit in [%d,%d]) but never ran; Shutdown calls %v", sb.id, sb.inv, sb.ret, fmtIvs(w.shuts))
			}
		}
		if sb.starts > 0 && !sb.finished {
			s.Fail("conservation", "task-unfinished", "task %s started but never finished", sb.id)
		}
		if sb.starts > 0 {
			ran++
		}
		if !sb.accepted {
			for _, win := range w.windows {
				// (with two lifecycle tasks the pool only certainly runs if no Shutdown call of anybody overlaps the time
				// from the Start's invocation - the Start may have taken effect at any moment of the call - to the
				// Submit's return)
				foreign := false
				for _, sh := range w.shuts {
					if sh.inv < sb.ret && (sh.ret == 0 || sh.ret > win.startInv) {
						foreign = true
					}
				}
				if sb.inv > win.from && (win.to == 0 || sb.ret < win.to) && !foreign {
					s.Fail("conservation", "dropped-in-running-window", "Submit of %s lay entirely inside a running window [%d,%d] but the task was not accepted", sb.id, win.from, win.to)
				}
			}
		}
	}
	// cancel-on-shutdown cancels pending tasks on shutdown: a task that leaves the pending state without having run
	// while the pool is running and no Shutdown call can have taken effect (every Shutdown call either returned before
	// the latest Start was invoked or was invoked after the cancellation) was simply lost
	for _, x := range w.cancelledAt {
		var win *window
		for _, c := range w.windows {
			if c.from < x && (win == nil || c.from > win.from) {
				win = c
			}
		}
		if win == nil {
			continue
		}
		justified := false
		for _, sh := range w.shuts {
			if !(sh.ret != 0 && sh.ret < win.startInv) && sh.inv <= x {
				justified = true
			}
		}
		if !justified {
			s.Fail("conservation", "cancelled-without-shutdown", "a pending task was cancelled at step %d although the pool had been started (Start invoked at %d, returned at %d) and no Shutdown call was invoked between that Start and the cancellation; Shutdown calls %v", x, win.startInv, win.from, fmtIvs(w.shuts))
		}
	}
	if w.decr != w.accepted {
		sig := "counter-imbalance"
		if d := w.accepted - w.decr; d > 0 && d <= unstartedOverlap {
			sig += ":submit-overlaps-shutdown"
		}
		s.Fail("conservation", sig, "%d tasks accepted but %d run-or-cancelled (ran %d); %d accepted-unstarted submissions overlapped a Shutdown call", w.accepted, w.decr, ran, unstartedOverlap)
	}
	if v := p.PendingTasksCounter.Get(); v != 0 {
		s.Fail("conservation", "counter-nonzero", "pending counter is %d at quiescence", v)
	}
}

func fmtIvs(l []*callIv) string {
	var b strings.Builder
	for _, x := range l {
		fmt.Fprintf(&b, "[%d,%d]", x.inv, x.ret)
	}
	return b.String()
}

func pool(s *simrt.Sim, restart bool) {
	w := &world{s: s, inflight: map[*simrt.Task]*subm{}}
	nworkers := 1 + s.Choose(3)
	cancel := s.Choose(2) == 1
	w.panicOpt = s.Choose(3) == 2
	p := workerpool.New("p", workerpool.WithWorkerCount(nworkers), workerpool.WithCancelPendingTasksOnShutdown(cancel), workerpool.WithPanicOnSubmitAfterShutdown(w.panicOpt))
	w.watch(p)
	s.Logf("config workers=%d cancel=%v restart=%v", nworkers, cancel, restart)
	p.Start()
	win := &window{from: s.Tick()}
	w.windows = append(w.windows, win)

	nsub := 1 + s.Choose(simrt.Bound(3, 4))
	for i := 0; i < nsub; i++ {
		n := 1 + s.Choose(simrt.Bound(3, 5))
		type spec struct{ yields, nested int }
		specs := make([]spec, n)
		for j := range specs {
			specs[j] = spec{s.Choose(3), s.Choose(2)}
		}
		name := fmt.Sprintf("submitter%d", i)
		s.Go(name, func() {
			for j, sp := range specs {
				w.submit(p, fmt.Sprintf("t%d.%d", i, j), sp.yields, sp.nested)
			}
		})
	}
	if s.Choose(2) == 1 {
		s.Go("zerowaiter", func() {
			p.PendingTasksCounter.WaitIsZero()
			s.Logf("WaitIsZero returned")
		})
	}
	if s.Choose(3) == 2 {
		// somebody watches the queue length (the queue is a public field): it shares the queue's condition variables with
		// the dispatcher, and may legitimately wait for ever
		n := s.Choose(3)
		s.Go("queuemonitor", func() {
			p.Queue.WaitSizeIsAbove(n)
			s.Probe("queue-monitor-woken")
		})
	}
	delay := s.Choose(4)
	cycles := 1
	if restart {
		cycles = 2 + s.Choose(2)
	}
	nowait := simrt.ConfigHas("nowait")
	// lifecycle: cycles of [Start,] Shutdown, ShutdownComplete.Wait; the first cycle of the primary task uses the Start
	// made above. In the restart harness a second lifecycle task may run its own cycles at the same time (concurrent
	// Start and Shutdown callers).
	lifecycle := func(name string, cycles, delay int, primary bool) {
		s.Go(name, func() {
			mine := win
			for c := 0; c < cycles; c++ {
				for i := 0; i < delay; i++ {
					simrt.Yield()
				}
				if c > 0 || !primary {
					s.Probe("pool-restarted")
					if nowait {
						s.Probe("pool-restarted-without-waiting-for-shutdown")
					}
					s.Logf("%s: Start", name)
					w.down = false
					w.startSeq++
					w.startsInFlight++
					startInv := s.Tick()
					p.Start()
					w.startsInFlight--
					mine = &window{from: s.Tick(), startInv: startInv}
					w.windows = append(w.windows, mine)
					if s.Choose(2) == 1 {
						w.submit(p, fmt.Sprintf("%s.r%d", name, c), s.Choose(2), 0)
					}
				}
				mine.to = s.Tick()
				s.Logf("%s: Shutdown", name)
				sh := &callIv{inv: mine.to}
				w.shuts = append(w.shuts, sh)
				seq := w.startSeq
				p.Shutdown()
				sh.ret = s.Tick()
				if nowait && c < cycles-1 {
					// restart right away, without waiting for the previous shutdown to complete
					continue
				}
				// ShutdownComplete is a sync.WaitGroup: a waiter released at zero that finds the counter raised again
				// (another task's Start) when it runs panics in Go; that outcome gets a signature of its own
				if panicked, pv := hx.Try(p.ShutdownComplete.Wait); panicked {
					if strings.Contains(fmt.Sprint(pv), "WaitGroup is reused") {
						s.Fail("shutdown-complete", "wait-panics:pool-restarted-by-another-task-before-the-released-waiter-ran", "%s: ShutdownComplete.Wait() panicked (%v): the pool's workers had all exited, the waiter was released, and another task's Start raised the WaitGroup again before the waiter ran", name, pv)
					}
					panic(pv)
				}
				// completely shut down - unless somebody has invoked Start since this Shutdown was invoked, or is inside Start
				if w.startSeq == seq && w.startsInFlight == 0 {
					w.down = true
				}
				s.Logf("%s: ShutdownComplete", name)
			}
		})
	}
	if !restart && s.Choose(3) == 2 {
		// the Shutdown comes only after everything has come to rest: on a running pool that nobody shuts down, every
		// accepted task has to run (idle workers and a queued task do not go together)
		s.Probe("shutdown-only-after-first-quiescence")
		s.Quiesce()
		for _, sb := range w.subs {
			if sb.ret != 0 && sb.accepted && sb.starts == 0 {
				s.Fail("liveness", "accepted-task-not-run-on-a-running-pool", "task %s was accepted (Submit in [%d,%d]) and everything has come to rest, but it has not run although the pool is running and no Shutdown was invoked", sb.id, sb.inv, sb.ret)
			}
		}
	}
	lifecycle("shutdowner", cycles, delay, true)
	if restart && s.Choose(2) == 1 {
		s.Probe("two-lifecycle-tasks")
		lifecycle("restarter", 1+s.Choose(2), s.Choose(5), false)
	}
	left := s.Quiesce()
	// conservation first: a task that was counted but never dispatched also keeps the dispatcher (and with it the
	// shutdown) waiting, and is reported as what it is
	w.finalChecks(p, cancel)
	hx.Stuck(s, "termination", left, func(t simrt.TaskInfo) bool { return t.Name != "queuemonitor" })
}

// group ------------------------------------------------------------------------------------------

func group(s *simrt.Sim) {
	w := &world{s: s, inflight: map[*simrt.Task]*subm{}}
	g := workerpool.NewGroup("root")
	var pools []*workerpool.WorkerPool
	var waits []*waitRec
	mk := func(gr *workerpool.Group, name string) {
		p := gr.CreatePool(name, workerpool.WithWorkerCount(1+s.Choose(2)))
		w.watch(p)
		pools = append(pools, p)
	}
	mk(g, "a")
	if s.Choose(2) == 1 {
		mk(g, "b")
	}
	if s.Choose(2) == 1 {
		sub := g.CreateGroup("sub")
		mk(sub, "c")
	}
	w.windows = append(w.windows, &window{from: s.Tick()})
	nsub := 1 + s.Choose(3)
	for i := 0; i < nsub; i++ {
		n := 1 + s.Choose(3)
		type spec struct{ pool, yields, nested int }
		specs := make([]spec, n)
		for j := range specs {
			specs[j] = spec{s.Choose(len(pools)), s.Choose(3), s.Choose(2)}
		}
		s.Go(fmt.Sprintf("submitter%d", i), func() {
			for j, sp := range specs {
				w.submit(pools[sp.pool], fmt.Sprintf("t%d.%d", i, j), sp.yields, sp.nested)
			}
		})
	}
	nwait := 1 + s.Choose(2)
	for i := 0; i < nwait; i++ {
		d := s.Choose(4)
		s.Go(fmt.Sprintf("waiter%d", i), func() {
			for k := 0; k < d; k++ {
				simrt.Yield()
			}
			inv := s.Tick()
			g.WaitChildren()
			waits = append(waits, &waitRec{worlds: []*world{w}, inv: inv, ret: s.Tick()})
		})
	}
	left := s.Quiesce()
	hx.Stuck(s, "termination", left, func(t simrt.TaskInfo) bool {
		return strings.HasPrefix(t.Name, "submitter") || strings.HasPrefix(t.Name, "waiter")
	})
	for _, r := range waits {
		r.check(s)
	}
	for _, p := range pools {
		if v := p.PendingTasksCounter.Get(); v != 0 {
			s.Fail("conservation", "counter-nonzero", "pending counter of %s is %d at quiescence", p.Name, v)
		}
	}
	if v := g.PendingChildrenCounter.Get(); v != 0 {
		s.Fail("conservation", "group-counter-nonzero", "group counter is %d at quiescence", v)
	}
	w.windows[0].to = s.Tick()
	done := false
	s.Go("groupshutdown", func() {
		g.Shutdown()
		for _, p := range pools {
			p.ShutdownComplete.Wait()
		}
		done = true
	})
	left = s.Quiesce()
	if !done {
		s.Fail("termination", "groupshutdown", "Group.Shutdown + ShutdownComplete.Wait did not terminate: %v", left)
	}
	for _, sb := range w.subs {
		if sb.accepted && sb.starts == 0 {
			// group pools cancel pending tasks on shutdown, but nothing was pending here
			s.Fail("conservation", "accepted-never-run", "task %s accepted but never ran", sb.id)
		}
		if !sb.accepted && sb.ret != 0 && sb.ret < w.windows[0].to {
			s.Fail("conservation", "dropped-in-running-window", "Submit of %s inside the running window was not accepted", sb.id)
		}
	}
	if w.decr != w.accepted {
		s.Fail("conservation", "counter-imbalance", "%d accepted, %d finished", w.accepted, w.decr)
	}
	hx.Stuck(s, "termination", left, nil)
}

// grouptree ---------------------------------------------------------------------------------------
// A tree root -> mid -> leaf with pools at every level; waiters on every level; optionally a subgroup is shut down
// while submitters are still running.

type gnode struct {
	g     *workerpool.Group
	name  string
	pools []int // indexes of the pools at or below this group
}

func groupTree(s *simrt.Sim) {
	root := workerpool.NewGroup("root")
	var worlds []*world
	var pools []*workerpool.WorkerPool
	mk := func(gr *workerpool.Group, name string, opts ...options.Option[workerpool.WorkerPool]) int {
		w := &world{s: s, inflight: map[*simrt.Task]*subm{}}
		p := gr.CreatePool(name, append([]options.Option[workerpool.WorkerPool]{workerpool.WithWorkerCount(1 + s.Choose(2))}, opts...)...)
		w.watch(p)
		w.windows = append(w.windows, &window{from: s.Tick()})
		worlds = append(worlds, w)
		pools = append(pools, p)
		return len(pools) - 1
	}
	nodes := []*gnode{{g: root, name: "root"}}
	nodes[0].pools = append(nodes[0].pools, mk(root, "r"))
	// optionally a pool that explicitly opts out of the group's cancel-on-shutdown default and is shut down on its own
	// while tasks are queued: all of its accepted tasks have to run
	optOut := -1
	if s.Choose(3) == 2 {
		optOut = mk(root, "keep", workerpool.WithCancelPendingTasksOnShutdown(false))
		nodes[0].pools = append(nodes[0].pools, optOut)
	}
	depth := 1 + s.Choose(3)
	cur := root
	for d := 1; d < depth; d++ {
		name := []string{"", "mid", "leaf"}[d]
		sub := cur.CreateGroup(name)
		n := &gnode{g: sub, name: name}
		npools := 1 + s.Choose(2)
		for k := 0; k < npools; k++ {
			pi := mk(sub, fmt.Sprintf("%s%d", name, k))
			for _, anc := range nodes {
				anc.pools = append(anc.pools, pi)
			}
			n.pools = append(n.pools, pi)
		}
		nodes = append(nodes, n)
		cur = sub
	}
	s.Logf("tree depth=%d pools=%d", depth, len(pools))
	npick := len(pools)
	// optionally a pool that one task creates in the root group while another task looks it up by name and submits to
	// it as soon as the group hands it out: from then on it counts for the waits on the root like every other pool
	late := -1
	if s.Choose(3) == 2 {
		late = len(pools)
		worlds = append(worlds, &world{s: s, inflight: map[*simrt.Task]*subm{}})
		pools = append(pools, nil)
		nodes[0].pools = append(nodes[0].pools, late)
		d1, d2, polls, nsubmit := s.Choose(4), s.Choose(4), 2+s.Choose(6), 1+s.Choose(2)
		s.Go("latecreator", func() {
			for k := 0; k < d1; k++ {
				simrt.Yield()
			}
			p := root.CreatePool("late", workerpool.WithWorkerCount(1+s.Choose(2)))
			pools[late] = p
			worlds[late].watch(p)
			worlds[late].windows = append(worlds[late].windows, &window{from: s.Tick()})
		})
		s.Go("submitterByName", func() {
			for k := 0; k < d2; k++ {
				simrt.Yield()
			}
			for k := 0; k < polls; k++ {
				if p, ok := root.Pool("late"); ok {
					s.Probe("pool-looked-up-by-name")
					if pools[late] == nil {
						s.Probe("pool-looked-up-by-name-before-CreatePool-returned")
					}
					worlds[late].watch(p)
					for j := 0; j < nsubmit; j++ {
						worlds[late].submit(p, fmt.Sprintf("byname.%d", j), s.Choose(3), 0)
					}
					return
				}
				simrt.Yield()
			}
		})
	}
	s.Probe(fmt.Sprintf("tree-depth-%d", depth))
	var waits []*waitRec
	below := func(n *gnode) (l []*world) {
		for _, pi := range n.pools {
			l = append(l, worlds[pi])
		}
		return l
	}
	nsub := 1 + s.Choose(3)
	for i := 0; i < nsub; i++ {
		n := 1 + s.Choose(3)
		type spec struct{ pool, yields, nested int }
		specs := make([]spec, n)
		for j := range specs {
			specs[j] = spec{s.Choose(npick), s.Choose(3), s.Choose(2)}
		}
		s.Go(fmt.Sprintf("submitter%d", i), func() {
			for j, sp := range specs {
				worlds[sp.pool].submit(pools[sp.pool], fmt.Sprintf("t%d.%d", i, j), sp.yields, sp.nested)
			}
		})
	}
	nwait := 1 + s.Choose(3)
	for i := 0; i < nwait; i++ {
		d := s.Choose(5)
		n := nodes[s.Choose(len(nodes))]
		parents := s.Choose(4) == 3
		s.Go(fmt.Sprintf("waiter%d", i), func() {
			for k := 0; k < d; k++ {
				simrt.Yield()
			}
			inv := s.Tick()
			target := n
			if parents {
				n.g.WaitParents() // waits on the root
				target = nodes[0]
			} else {
				n.g.WaitChildren()
			}
			ret := s.Tick()
			s.Logf("wait on %s (parents=%v) returned", n.name, parents)
			if parents {
				s.Probe("waitparents-returned")
			}
			waits = append(waits, &waitRec{worlds: below(target), name: ":" + target.name, inv: inv, ret: ret})
		})
	}
	if optOut >= 0 {
		d := s.Choose(6)
		again := s.Choose(3) == 2
		nagain := s.Choose(3)
		s.Go("poolshutdown", func() {
			for k := 0; k < d; k++ {
				simrt.Yield()
			}
			t := s.Tick()
			worlds[optOut].windows[0].to = t
			worlds[optOut].shutdownInv = t
			s.Probe("no-cancel-pool-of-a-group-shut-down-on-its-own")
			pools[optOut].Shutdown()
			if again {
				// a pool of the same name is created in the group as soon as Shutdown has returned - the old one is not
				// running any more but may still be working off what it had accepted: both count for the group
				s.Probe("pool-recreated-under-the-same-name-while-the-old-one-drains")
				pi := mk(root, "keep", workerpool.WithCancelPendingTasksOnShutdown(false))
				nodes[0].pools = append(nodes[0].pools, pi)
				for k := 0; k < nagain; k++ {
					worlds[pi].submit(pools[pi], fmt.Sprintf("keep2.%d", k), s.Choose(3), 0)
				}
			}
			pools[optOut].ShutdownComplete.Wait()
		})
	}
	// optionally shut a subgroup down while the submitters are still at work
	if len(nodes) > 1 && s.Choose(2) == 1 {
		ni := 1 + s.Choose(len(nodes)-1)
		n := nodes[ni]
		d := s.Choose(6)
		recreate := s.Choose(2) == 1
		nre := 1 + s.Choose(2)
		s.Go("subshutdown", func() {
			for k := 0; k < d; k++ {
				simrt.Yield()
			}
			t := s.Tick()
			for _, pi := range n.pools {
				worlds[pi].windows[0].to = t
				worlds[pi].shutdownInv = t
			}
			s.Probe("subgroup-shutdown-while-working:" + n.name)
			s.Logf("Shutdown of group %s", n.name)
			n.g.Shutdown()
			s.Logf("Shutdown of group %s returned", n.name)
			if !recreate {
				return
			}
			// a group of the same name is created again under the same parent once the old one is shut down; its
			// pools count for every ancestor like any other
			for _, pi := range n.pools {
				pools[pi].ShutdownComplete.Wait()
			}
			s.Probe("subgroup-recreated-after-shutdown")
			ng := nodes[ni-1].g.CreateGroup(n.name)
			pi := mk(ng, n.name+"again")
			rn := &gnode{g: ng, name: n.name + "'", pools: []int{pi}}
			for _, anc := range nodes[:ni] {
				anc.pools = append(anc.pools, pi)
			}
			nodes = append(nodes, rn)
			for k := 0; k < nre; k++ {
				worlds[pi].submit(pools[pi], fmt.Sprintf("re.%d", k), s.Choose(3), 0)
			}
			if s.Choose(2) == 1 {
				inv := s.Tick()
				ng.WaitChildren()
				waits = append(waits, &waitRec{worlds: below(rn), name: ":" + rn.name, inv: inv, ret: s.Tick()})
			}
		})
	}
	left := s.Quiesce()
	hx.Stuck(s, "termination", left, func(t simrt.TaskInfo) bool {
		return strings.HasPrefix(t.Name, "submitter") || strings.HasPrefix(t.Name, "waiter") || t.Name == "subshutdown" || t.Name == "poolshutdown" || t.Name == "latecreator"
	})
	for _, r := range waits {
		r.check(s)
	}
	for i, p := range pools {
		if p == nil {
			continue // reported above: its creator is stuck
		}
		if v := p.PendingTasksCounter.Get(); v != 0 {
			s.Fail("conservation", "counter-nonzero", "pending counter of %s is %d at quiescence", p.Name, v)
		}
		w := worlds[i]
		if w.decr != w.accepted {
			s.Fail("conservation", "counter-imbalance", "pool %s: %d accepted, %d run-or-cancelled", p.Name, w.accepted, w.decr)
		}
		for _, sb := range w.subs {
			if sb.starts > 1 {
				s.Fail("exactly-once", "run-twice", "task %s ran %d times", sb.id, sb.starts)
			}
			if i == optOut && sb.accepted && sb.ret != 0 && sb.starts == 0 {
				s.Fail("conservation", "accepted-never-run:pool-without-cancel-on-shutdown", "task %s was accepted by pool %s, which was created with WithCancelPendingTasksOnShutdown(false), but never ran", sb.id, p.Name)
			}
			win := w.windows[0]
			if !sb.accepted && sb.ret != 0 && sb.inv > win.from && (win.to == 0 || sb.ret < win.to) {
				s.Fail("conservation", "dropped-in-running-window", "Submit of %s to pool %s inside its running window was not accepted", sb.id, p.Name)
			}
		}
	}
	for _, n := range nodes {
		if v := n.g.PendingChildrenCounter.Get(); v != 0 {
			s.Fail("conservation", "group-counter-nonzero:"+n.name, "pending-children counter of group %s is %d at quiescence", n.name, v)
		}
	}
	done := false
	s.Go("groupshutdown", func() {
		root.Shutdown()
		for _, p := range pools {
			if p != nil {
				p.ShutdownComplete.Wait()
			}
		}
		done = true
	})
	left = s.Quiesce()
	if !done {
		s.Fail("termination", "groupshutdown", "root Shutdown + ShutdownComplete.Wait did not terminate: %v", left)
	}
	hx.Stuck(s, "termination", left, nil)
}
