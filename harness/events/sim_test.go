package events

import (
	"context"
	"fmt"
	"math"
	"testing"

	"github.com/iotaledger/hive.go/runtime/event"
	"github.com/iotaledger/hive.go/runtime/promise"
	"github.com/iotaledger/hive.go/runtime/valuenotifier"
	"github.com/iotaledger/hive.go/runtime/workerpool"
	"verifharness/hx"
	"verifsim/simrt"
)

func TestSim(t *testing.T) {
	simrt.Main(t,
		&simrt.Harness{Name: "hooks", Body: func(s *simrt.Sim) { hooks(s, false) }},
		&simrt.Harness{Name: "pooled", Body: func(s *simrt.Sim) { hooks(s, true) }},
		&simrt.Harness{Name: "link", Body: link},
		&simrt.Harness{Name: "promise", Body: promiseH},
		&simrt.Harness{Name: "notifier", Body: notifier},
	)
}

type iv struct{ inv, ret uint64 }

// evt hides the arity of the event under test (the Trigger and LinkTo code is generated per arity): every variant
// carries the trigger number as first argument and values derived from it in the others, which every hook checks.
type evt struct {
	trigger func(arg int)
	hook    func(cb func(arg int), opts ...event.Option) (unhook func())
	linkTo  func(target *evt) // nil unlinks
	raw     any
}

func newEvt(s *simrt.Sim, arity int, opts ...event.Option) *evt {
	bad := func(arg int) {
		s.Fail("exactly-once", "hook-arguments", "a hook of an event with %d parameters was called with arguments that do not belong to one Trigger call (first argument %d)", arity, arg)
	}
	switch arity {
	case 2:
		e := event.New2[int, string](opts...)
		return &evt{raw: e,
			trigger: func(a int) { e.Trigger(a, fmt.Sprint(a)) },
			hook: func(cb func(int), o ...event.Option) func() {
				return e.Hook(func(a int, b string) {
					if b != fmt.Sprint(a) {
						bad(a)
					}
					cb(a)
				}, o...).Unhook
			},
			linkTo: func(t *evt) {
				if t == nil {
					e.LinkTo(nil)
				} else {
					e.LinkTo(t.raw.(*event.Event2[int, string]))
				}
			}}
	case 3:
		e := event.New3[int, string, int64](opts...)
		return &evt{raw: e,
			trigger: func(a int) { e.Trigger(a, fmt.Sprint(a), int64(a)*3) },
			hook: func(cb func(int), o ...event.Option) func() {
				return e.Hook(func(a int, b string, c int64) {
					if b != fmt.Sprint(a) || c != int64(a)*3 {
						bad(a)
					}
					cb(a)
				}, o...).Unhook
			},
			linkTo: func(t *evt) {
				if t == nil {
					e.LinkTo(nil)
				} else {
					e.LinkTo(t.raw.(*event.Event3[int, string, int64]))
				}
			}}
	}
	e := event.New1[int](opts...)
	return &evt{raw: e,
		trigger: e.Trigger,
		hook:    func(cb func(int), o ...event.Option) func() { return e.Hook(cb, o...).Unhook },
		linkTo: func(t *evt) {
			if t == nil {
				e.LinkTo(nil)
			} else {
				e.LinkTo(t.raw.(*event.Event1[int]))
			}
		}}
}

func (a iv) before(b iv) bool { return a.ret != 0 && a.ret < b.inv }

// ---------------------------------------------------------------------------------------------
// Trigger / Hook / Unhook / WithMaxTriggerCount

type hookRec struct {
	name     string
	attach   iv
	unhook   iv // zero: never unhooked
	max      int
	pooled   bool
	calls    map[int][]uint64 // trigger arg -> steps at which the hook ran
	ends     map[int][]uint64 // trigger arg -> steps at which those calls returned
	unhooks  int              // 1, 2: its callback unhooks the hook attached 1 / 2 places after it (once)
	total    int
	unhookFn func()
	attached bool
}

type trigRec struct {
	arg  int
	call iv
}

var hugeLimits = []uint64{math.MaxUint64, 1 << 63, 1<<63 + 1, math.MaxInt64}

func hooks(s *simrt.Sim, pooled bool) {
	evMax := 0
	if s.Choose(4) == 3 {
		evMax = 1 + s.Choose(3)
	}
	var opts []event.Option
	if evMax > 0 {
		opts = append(opts, event.WithMaxTriggerCount(uint64(evMax)))
	} else if s.Choose(8) == 7 {
		// a limit nobody reaches: min(n, triggers) = triggers
		opts = append(opts, event.WithMaxTriggerCount(hugeLimits[s.Choose(len(hugeLimits))]))
		s.Probe("event-max-trigger-count-above-MaxInt64")
	}
	arity := 1 + s.Choose(3)
	ev := newEvt(s, arity, opts...)
	var pool *workerpool.WorkerPool
	if pooled {
		pool = workerpool.New("hooks", workerpool.WithWorkerCount(1+s.Choose(2))).Start()
	}
	var hs []*hookRec
	var trigs []*trigRec
	s.Logf("config eventMax=%d pooled=%v arity=%d", evMax, pooled, arity)
	mkHook := func(name string, max int, usePool bool) *hookRec {
		h := &hookRec{name: name, max: max, pooled: usePool, calls: map[int][]uint64{}, ends: map[int][]uint64{}}
		if s.Choose(4) == 3 {
			h.unhooks = 1 + s.Choose(2)
		}
		hs = append(hs, h)
		var o []event.Option
		if max > 0 {
			o = append(o, event.WithMaxTriggerCount(uint64(max)))
		} else if s.Choose(8) == 7 {
			o = append(o, event.WithMaxTriggerCount(hugeLimits[s.Choose(len(hugeLimits))]))
			s.Probe("hook-max-trigger-count-above-MaxInt64")
		}
		if usePool {
			o = append(o, event.WithWorkerPool(pool))
		}
		h.attach.inv = s.Tick()
		h.unhookFn = ev.hook(func(arg int) {
			h.calls[arg] = append(h.calls[arg], s.Tick())
			h.total++
			s.Logf("hook %s called with %d", name, arg)
			simrt.Yield()
			if h.unhooks > 0 {
				// the callback unhooks a hook that comes after it: that hook is unhooked before the running Trigger gets to it
				skip := h.unhooks - 1
				h.unhooks = 0
				after := false
				for _, v := range hs {
					if v == h {
						after = true
					} else if after && v.attached && v.unhook.inv == 0 {
						if skip > 0 {
							skip--
							continue
						}
						s.Probe("hook-unhooked-by-the-callback-of-an-earlier-hook")
						v.unhook.inv = s.Tick()
						v.unhookFn()
						v.unhook.ret = s.Tick()
						s.Logf("Unhook %s (from the callback of %s)", v.name, name)
						break
					}
				}
			}
			h.ends[arg] = append(h.ends[arg], s.Tick())
		}, o...)
		h.attach.ret = s.Tick()
		h.attached = true
		s.Logf("Hook %s attached (max=%d pooled=%v)", name, max, usePool)
		return h
	}
	// a permanent plain hook attached before everything else
	base := mkHook("base", 0, false)
	nextArg := 0
	nact := 2 + s.Choose(simrt.Bound(3, 4))
	for a := 0; a < nact; a++ {
		n := 1 + s.Choose(simrt.Bound(4, 6))
		type spec struct{ kind, max, target int }
		specs := make([]spec, n)
		for i := range specs {
			specs[i] = spec{kind: s.Weighted(4, 2, 2), target: s.Choose(4)}
			if s.Choose(3) == 2 {
				specs[i].max = 1 + s.Choose(2)
			}
		}
		s.Go(fmt.Sprintf("actor%d", a), func() {
			var mine []*hookRec
			for i, sp := range specs {
				switch sp.kind {
				case 0:
					nextArg++
					t := &trigRec{arg: nextArg}
					trigs = append(trigs, t)
					t.call.inv = s.Tick()
					s.Logf("Trigger(%d)", t.arg)
					ev.trigger(t.arg)
					t.call.ret = s.Tick()
					s.Logf("Trigger(%d) returned", t.arg)
				case 1:
					mine = append(mine, mkHook(fmt.Sprintf("h%d.%d", a, i), sp.max, pooled && s.Choose(2) == 1))
				case 2:
					if len(mine) > 0 {
						h := mine[sp.target%len(mine)]
						if h.unhook.inv == 0 {
							h.unhook.inv = s.Tick()
							h.unhookFn()
							h.unhook.ret = s.Tick()
							s.Logf("Unhook %s", h.name)
						}
					}
				}
			}
		})
	}
	left := s.Quiesce()
	hx.Stuck(s, "deadlock", left, func(t simrt.TaskInfo) bool { return len(t.Name) > 5 && t.Name[:5] == "actor" })
	if pool != nil && pool.PendingTasksCounter.Get() != 0 {
		s.Fail("pool-drained", "pending", "worker pool still has %d pending tasks at quiescence", pool.PendingTasksCounter.Get())
	}
	// which triggers fire at all (event-level max count): judged through the permanent base hook
	fired := 0
	for _, t := range trigs {
		n := len(base.calls[t.arg])
		if n > 1 {
			s.Fail("exactly-once", "hook-called-twice", "base hook called %d times for Trigger(%d)", n, t.arg)
		}
		fired += n
	}
	want := len(trigs)
	if evMax > 0 && want > evMax {
		want = evMax
	}
	if evMax > 0 && len(trigs) > evMax {
		s.Probe("event-max-trigger-count-exceeded-by-callers")
	}
	for i, a := range trigs {
		for _, b := range trigs[i+1:] {
			if a.call.inv < b.call.ret && b.call.inv < a.call.ret {
				s.Probe("concurrent-triggers")
			}
		}
	}
	if fired != want {
		s.Fail("max-trigger-count", "event", "event with max=%d: %d Trigger calls, the permanent hook ran %d times, expected %d", evMax, len(trigs), fired, want)
	}
	for _, h := range hs {
		if h == base {
			continue
		}
		certain := 0 // triggers that certainly had to reach this hook (ignoring its own max count)
		for _, t := range trigs {
			n := len(h.calls[t.arg])
			if n > 1 {
				s.Fail("exactly-once", "hook-called-twice", "hook %s called %d times for Trigger(%d)", h.name, n, t.arg)
			}
			firedT := len(base.calls[t.arg]) == 1
			attachedBefore := h.attach.before(t.call)
			notUnhooked := h.unhook.inv == 0 || h.unhook.inv > t.call.ret
			if h.attach.inv < t.call.ret && h.attach.ret > t.call.inv {
				s.Probe("hook-attached-during-trigger")
			}
			if h.unhook.inv != 0 && h.unhook.inv < t.call.ret && h.unhook.ret > t.call.inv {
				s.Probe("unhook-during-trigger")
			}
			if n == 1 && h.pooled {
				s.Probe("pooled-hook-ran")
				if h.calls[t.arg][0] > t.call.ret {
					s.Probe("pooled-hook-ran-after-trigger-returned")
				}
			}
			if h.unhook.before(t.call) && n > 0 {
				s.Fail("unhooked", "called-after-unhook", "hook %s called for Trigger(%d) invoked at step %d although Unhook had returned at step %d", h.name, t.arg, t.call.inv, h.unhook.ret)
			}
			if n == 1 && !h.pooled && h.unhook.ret != 0 {
				// the hook ran although its Unhook had returned before the callback that ran before it in this Trigger returned
				prev := t.call.inv
				for _, o := range hs {
					if o.pooled || o == h {
						continue
					}
					for _, e := range o.ends[t.arg] {
						if e < h.calls[t.arg][0] && e > prev {
							prev = e
						}
					}
				}
				if h.unhook.ret < prev {
					// not judged: C15 says which hooks a Trigger has to invoke; a hook whose Unhook overlaps the Trigger call
					// may go either way (the unchanged tree gets here too: a Trigger standing on a hook that was unhooked
					// meanwhile follows that hook's old successor pointer, unhooked or not)
					s.Probe("hook-ran-although-unhooked-before-the-previous-callback-of-the-same-trigger-returned")
				}
			}
			if !firedT && n > 0 && evMax > 0 {
				s.Fail("max-trigger-count", "event-exceeded", "hook %s ran for Trigger(%d) which exceeded the event's max trigger count", h.name, t.arg)
			}
			if firedT && attachedBefore && notUnhooked {
				certain++
				if h.max == 0 && n != 1 {
					s.Fail("exactly-once", "hook-missed", "hook %s (attached at step %d, before Trigger(%d) was invoked at step %d; not unhooked) was not called for it", h.name, h.attach.ret, t.arg, t.call.inv)
				}
			}
			// synchronous hooks run in attachment order within one trigger
			if n == 1 && !h.pooled && len(base.calls[t.arg]) == 1 && base.calls[t.arg][0] > h.calls[t.arg][0] {
				s.Fail("order", "attachment-order", "hook %s ran before the earlier attached base hook for Trigger(%d)", h.name, t.arg)
			}
		}
		if h.max > 0 {
			if certain > h.max {
				s.Probe("hook-max-trigger-count-exceeded-by-triggers")
			}
			if h.total > h.max {
				s.Fail("max-trigger-count", "hook-exceeded", "hook %s with max=%d ran %d times", h.name, h.max, h.total)
			}
			if h.unhook.inv == 0 && certain >= h.max && h.total != h.max {
				s.Fail("max-trigger-count", "hook-short", "hook %s with max=%d certainly saw %d triggers but ran %d times", h.name, h.max, certain, h.total)
			}
		}
	}
	// attachment order between two synchronous hooks
	for _, a := range hs {
		for _, b := range hs {
			if a == b || a.pooled || b.pooled || !a.attach.before(b.attach) {
				continue
			}
			for _, t := range trigs {
				if len(a.calls[t.arg]) == 1 && len(b.calls[t.arg]) == 1 && a.calls[t.arg][0] > b.calls[t.arg][0] {
					s.Fail("order", "attachment-order", "hook %s (attached later) ran before hook %s for Trigger(%d)", b.name, a.name, t.arg)
				}
			}
		}
	}
	if pool != nil {
		s.Go("poolshutdown", func() { pool.Shutdown(); pool.ShutdownComplete.Wait() })
		s.Quiesce()
	}
}

// ---------------------------------------------------------------------------------------------
// LinkTo

func link(s *simrt.Sim) {
	arity := 1 + s.Choose(3)
	targets := []*evt{newEvt(s, arity), newEvt(s, arity)}
	linked := newEvt(s, arity)
	got := map[int]int{} // trigger arg -> times the linked event fired with it
	linked.hook(func(arg int) {
		got[arg]++
		s.Logf("linked event fired with %d", arg)
	})
	type lk struct {
		target int // -1 nil
		call   iv
	}
	var links []*lk
	type tr struct {
		target, arg int
		call        iv
	}
	var trigs []*tr
	nextArg := 0
	nact := 2 + s.Choose(2)
	for a := 0; a < nact; a++ {
		n := 1 + s.Choose(4)
		type spec struct{ kind, target int }
		specs := make([]spec, n)
		for i := range specs {
			specs[i] = spec{kind: s.Weighted(3, 2), target: s.Choose(2)}
			if specs[i].kind == 1 && s.Choose(5) == 4 {
				specs[i].target = -1
			}
		}
		s.Go(fmt.Sprintf("actor%d", a), func() {
			for _, sp := range specs {
				if sp.kind == 0 {
					nextArg++
					t := &tr{target: sp.target, arg: nextArg}
					trigs = append(trigs, t)
					t.call.inv = s.Tick()
					s.Logf("target%d.Trigger(%d)", sp.target, t.arg)
					targets[sp.target].trigger(t.arg)
					t.call.ret = s.Tick()
				} else {
					l := &lk{target: sp.target}
					links = append(links, l)
					l.call.inv = s.Tick()
					if sp.target < 0 {
						linked.linkTo(nil)
					} else {
						linked.linkTo(targets[sp.target])
					}
					l.call.ret = s.Tick()
					s.Logf("LinkTo(target%d) returned", sp.target)
				}
			}
		})
	}
	left := s.Quiesce()
	hx.Stuck(s, "deadlock", left, nil)
	for _, t := range trigs {
		n := got[t.arg]
		if n > 1 {
			s.Fail("link", "fired-twice", "linked event fired %d times for one trigger of target%d", n, t.target)
		}
		// the link in force during the trigger: the latest LinkTo that returned before the trigger was invoked, provided no
		// LinkTo call overlaps the trigger or lies between
		var cur *lk
		ambiguous := false
		for _, l := range links {
			if l.call.before(t.call) {
				if cur == nil || l.call.ret > cur.call.ret {
					cur = l
				}
			} else if l.call.inv < t.call.ret {
				ambiguous = true
			}
		}
		if cur != nil {
			for _, l := range links {
				if l != cur && l.call.inv < cur.call.ret && l.call.ret > cur.call.inv {
					ambiguous = true // two LinkTo calls overlapped: which one won is not determined
				}
			}
		}
		if ambiguous {
			s.Probe("linkto-overlaps-trigger")
			continue
		}
		want := 0
		if cur != nil && cur.target == t.target {
			want = 1
		}
		if want == 0 {
			for _, l := range links {
				if cur != nil && l != cur && l.target == t.target && l.call.before(cur.call) {
					s.Probe("trigger-of-former-target")
				}
			}
		}
		if n != want {
			kind := "missed"
			if n > want {
				kind = "fired-for-former-or-foreign-target"
			}
			s.Fail("link", kind, "target%d.Trigger(%d) in [%d,%d]: linked event fired %d times, expected %d (link in force: %+v)", t.target, t.arg, t.call.inv, t.call.ret, n, want, cur)
		}
	}
}

// ---------------------------------------------------------------------------------------------
// promise.Event1

func promiseH(s *simrt.Sim) {
	ev := promise.NewEvent1[int]()
	plain := promise.NewEvent()
	type sub struct {
		name    string
		reg     iv
		unsub   iv
		runs    int
		args    []int
		plain   bool
		doUnsub int
	}
	var subs []*sub
	type tg struct {
		call iv
		arg  int
		won  bool
	}
	var trigs []*tg
	nact := 2 + s.Choose(3)
	nextArg := 0
	for a := 0; a < nact; a++ {
		n := 1 + s.Choose(3)
		type spec struct {
			kind, unsub int
			nest        bool // the callback registers a further callback on the same event (and asks WasTriggered)
		}
		specs := make([]spec, n)
		for i := range specs {
			specs[i] = spec{kind: s.Weighted(3, 2), unsub: s.Choose(4), nest: s.Choose(4) == 3}
		}
		s.Go(fmt.Sprintf("actor%d", a), func() {
			for i, sp := range specs {
				if sp.kind == 1 {
					nextArg++
					t := &tg{arg: nextArg}
					trigs = append(trigs, t)
					t.call.inv = s.Tick()
					t.won = ev.Trigger(t.arg)
					plain.Trigger()
					t.call.ret = s.Tick()
					s.Logf("Trigger(%d) -> %v", t.arg, t.won)
					continue
				}
				for _, isPlain := range []bool{false, true} {
					sb := &sub{name: fmt.Sprintf("cb%d.%d.%v", a, i, isPlain), plain: isPlain}
					subs = append(subs, sb)
					sb.reg.inv = s.Tick()
					var un func()
					// a callback may itself use the event: register a further callback (which is "registered during or
					// after Trigger" and so runs exactly once) and ask whether the event was triggered
					nested := func() {
						if !sp.nest {
							return
						}
						s.Probe("callback-registers-a-callback-on-the-same-event")
						nb := &sub{name: sb.name + ".nested", plain: isPlain}
						subs = append(subs, nb)
						nb.reg.inv = s.Tick()
						if isPlain {
							if !plain.WasTriggered() {
								s.Fail("promise", "not-triggered-inside-callback", "WasTriggered() is false inside a callback of the event")
							}
							plain.OnTrigger(func() { nb.runs++ })
						} else {
							if !ev.WasTriggered() {
								s.Fail("promise", "not-triggered-inside-callback", "WasTriggered() is false inside a callback of the event")
							}
							ev.OnTrigger(func(v int) { nb.runs++; nb.args = append(nb.args, v) })
						}
						nb.reg.ret = s.Tick()
					}
					if isPlain {
						un = plain.OnTrigger(func() { sb.runs++; simrt.Yield(); nested() })
					} else {
						un = ev.OnTrigger(func(v int) { sb.runs++; sb.args = append(sb.args, v); simrt.Yield(); nested() })
					}
					sb.reg.ret = s.Tick()
					if sp.unsub == 3 {
						simrt.Yield()
						sb.unsub.inv = s.Tick()
						un()
						sb.unsub.ret = s.Tick()
					}
				}
			}
		})
	}
	left := s.Quiesce()
	hx.Stuck(s, "deadlock", left, nil)
	winners := 0
	var first *tg
	for _, t := range trigs {
		if t.won {
			winners++
			first = t
		}
	}
	if len(trigs) > 1 {
		s.Probe("several-trigger-calls")
	}
	if len(trigs) > 0 && winners != 1 {
		s.Fail("promise", "trigger-winner", "%d Trigger calls, %d reported that they triggered the event", len(trigs), winners)
	}
	for _, sb := range subs {
		if sb.runs > 1 {
			s.Fail("promise", "callback-twice", "callback %s ran %d times", sb.name, sb.runs)
		}
		for _, v := range sb.args {
			if first != nil && v != first.arg {
				s.Fail("promise", "wrong-value", "callback %s got %d but the event was triggered with %d", sb.name, v, first.arg)
			}
		}
		if len(trigs) == 0 {
			if sb.runs != 0 {
				s.Fail("promise", "callback-without-trigger", "callback %s ran although Trigger was never called", sb.name)
			}
			continue
		}
		for _, t := range trigs {
			switch {
			case sb.reg.inv < t.call.ret && sb.reg.ret > t.call.inv:
				s.Probe("callback-registered-during-trigger")
			case t.call.before(sb.reg):
				s.Probe("callback-registered-after-trigger")
			}
		}
		unsubBefore := false // unsubscribe returned before any Trigger was invoked
		unsubNever := sb.unsub.inv == 0
		if !unsubNever {
			unsubBefore = true
			for _, t := range trigs {
				if !sb.unsub.before(t.call) {
					unsubBefore = false
				}
			}
		}
		if unsubBefore && sb.runs != 0 {
			s.Fail("promise", "ran-after-unsubscribe", "callback %s ran although it was unsubscribed before any Trigger was invoked", sb.name)
		}
		if unsubNever && sb.runs != 1 {
			s.Fail("promise", "callback-missed", "callback %s (never unsubscribed, registered in [%d,%d]) ran %d times although the event was triggered", sb.name, sb.reg.inv, sb.reg.ret, sb.runs)
		}
	}
}

// ---------------------------------------------------------------------------------------------
// valuenotifier

func notifier(s *simrt.Sim) {
	n := valuenotifier.New[int]()
	type lis struct {
		val     int
		create  iv
		dereg   iv // explicit Deregister call
		wait    iv
		waited  bool
		err     error
		l       *valuenotifier.Listener
		creator int
	}
	type nt struct {
		val  int
		call iv
	}
	var lss []*lis
	var nts []*nt
	ctx, cancel := context.WithCancel(context.Background())
	nact := 1 + s.Choose(3)
	for a := 0; a < nact; a++ {
		k := 1 + s.Choose(simrt.Bound(5, 8))
		type spec struct{ kind, val, target int }
		specs := make([]spec, k)
		for i := range specs {
			specs[i] = spec{kind: s.Weighted(3, 3, 2, 2), val: 1 + s.Choose(2), target: s.Choose(4)}
		}
		if a == 0 && s.Choose(4) == 3 {
			// two listeners of one value; the first one waits, is deregistered while its Wait is under way, and only then
			// the value is notified (the second listener keeps the value's registration alive)
			s.Probe("scripted:wait-deregister-notify")
			specs = []spec{{0, 1, 0}, {0, 1, 0}, {3, 1, 0}, {2, 1, 0}, {1, 1, 0}}
			if s.Choose(2) == 1 {
				specs = append(specs, spec{3, 1, 1})
			}
		}
		s.Go(fmt.Sprintf("actor%d", a), func() {
			var mine []*lis
			for _, sp := range specs {
				switch sp.kind {
				case 0:
					l := &lis{val: sp.val, creator: a}
					lss = append(lss, l)
					l.create.inv = s.Tick()
					l.l = n.Listener(sp.val)
					l.create.ret = s.Tick()
					mine = append(mine, l)
					s.Logf("Listener(%d) created", sp.val)
				case 1:
					t := &nt{val: sp.val}
					nts = append(nts, t)
					t.call.inv = s.Tick()
					n.Notify(sp.val)
					t.call.ret = s.Tick()
					s.Logf("Notify(%d)", sp.val)
				case 2:
					if len(mine) > 0 {
						l := mine[sp.target%len(mine)]
						if l.dereg.inv == 0 {
							l.dereg.inv = s.Tick()
							l.l.Deregister()
							l.dereg.ret = s.Tick()
							s.Logf("Deregister listener(%d)", l.val)
						}
					}
				case 3:
					if len(mine) > 0 {
						l := mine[sp.target%len(mine)]
						if !l.waited {
							l.waited = true
							// wait in a task of its own so that the actor can go on (another actor's Notify may be needed)
							s.Go(fmt.Sprintf("waiter%d", len(lss)), func() {
								l.wait.inv = s.Tick()
								l.err = l.l.Wait(ctx)
								l.wait.ret = s.Tick()
								s.Logf("Wait listener(%d) -> %v", l.val, l.err)
							})
						}
					}
				}
			}
		})
	}
	s.Quiesce()
	simrt.Cancel(cancel) // release the waiters that are legitimately still waiting
	left := s.Quiesce()
	hx.Stuck(s, "deadlock", left, nil)
	for _, l := range lss {
		for _, o := range lss {
			if o != l && o.val == l.val && o.create.inv < l.create.inv && (o.dereg.inv == 0 || o.dereg.inv > l.create.inv) {
				s.Probe("two-listeners-of-one-value-alive")
			}
			if o != l && o.val == l.val && o.dereg.inv != 0 && o.dereg.ret < l.create.inv {
				s.Probe("listener-created-after-deregistration-of-same-value")
			}
		}
		if l.waited && l.wait.ret != 0 && l.err != nil {
			s.Probe("wait-ended-by-context")
		}
		if l.waited && l.dereg.inv != 0 && l.dereg.ret < l.wait.inv {
			s.Probe("wait-after-deregister")
		}
		if !l.waited || l.wait.ret == 0 || l.err != nil {
			continue
		}
		s.Probe("wait-success")
		// Wait reported success: some Notify(val) must lie (at least partly) after the creation and before the end of the
		// listener's registration (explicit Deregister, else the Wait's own return)
		end := l.wait.ret
		if l.dereg.inv != 0 && l.dereg.ret < end {
			end = l.dereg.ret
		}
		ok := false
		for _, t := range nts {
			if t.val == l.val && t.call.ret > l.create.inv && t.call.inv < end {
				ok = true
			}
		}
		if !ok {
			kind := "no-notify-in-window"
			if l.dereg.inv != 0 {
				kind = "after-own-deregister"
			}
			for _, o := range lss {
				if o != l && o.val == l.val && o.dereg.inv != 0 {
					kind = "other-listener-deregistered"
				}
			}
			s.Fail("notifier", "wait-success-without-notify:"+kind, "Wait of listener(%d) created in [%d,%d] returned success in [%d,%d] but no Notify(%d) was called between its creation and its deregistration; notifies: %v", l.val, l.create.inv, l.create.ret, l.wait.inv, l.wait.ret, l.val, fmtNotifies(nts, l.val))
		}
	}
}

func fmtNotifies[T any](nts []*T, val int) string { return fmt.Sprintf("%d calls total", len(nts)) }
