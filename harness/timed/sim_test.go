package timed

import (
	"fmt"
	"testing"
	"time"

	"github.com/iotaledger/hive.go/runtime/options"
	"github.com/iotaledger/hive.go/runtime/timed"
	"verifharness/hx"
	"verifsim/simrt"
)

var stalls = []time.Duration{time.Millisecond, 20 * time.Millisecond, 2 * time.Second}

func TestSim(t *testing.T) {
	simrt.Main(t,
		&simrt.Harness{Name: "queue", Body: queue, Cfg: simrt.Config{StallMenu: stalls}},
		&simrt.Harness{Name: "executor", Body: executor, Cfg: simrt.Config{StallMenu: stalls}},
		&simrt.Harness{Name: "taskexec", Body: taskExec, Cfg: simrt.Config{StallMenu: stalls}},
	)
}

var delays = []time.Duration{0, -10 * time.Millisecond, 5 * time.Millisecond, 50 * time.Millisecond, time.Second}

type elem struct {
	id        int
	due       time.Duration // scheduled time as offset from the start of the run
	handle    interface{ Cancel() }
	added     bool // Add returned a handle
	addRet    uint64
	cancelInv uint64
	cancelRet uint64
	cancelAt  time.Duration // fake time when Cancel returned
	delivered int
	delivStep uint64
	pollInv   uint64
}

func flagName(f timed.ShutdownFlag) string {
	switch f {
	case 0:
		return "none"
	case timed.CancelPendingElements:
		return "cancel-pending"
	case timed.IgnorePendingTimeouts:
		return "ignore-timeouts"
	}
	return "cancel+ignore"
}

// ---------------------------------------------------------------------------------------------
// Queue

func queue(s *simrt.Sim) {
	maxSize := 0
	if s.Choose(4) == 3 {
		maxSize = 1 + s.Choose(3)
	}
	q := timed.NewQueue[int](timed.WithMaxSize[int](maxSize))
	start := time.Now()
	flags := []timed.ShutdownFlag{0, timed.CancelPendingElements, timed.IgnorePendingTimeouts, timed.CancelPendingElements | timed.IgnorePendingTimeouts}[s.Choose(4)]
	// optionally the shutdown also sets PanicOnModificationsAfterShutdown: a late Add then panics, the caller recovers,
	// and everything else goes on as before
	panicOn := s.Choose(3) == 2
	shutFlags := flags
	if panicOn {
		shutFlags |= timed.PanicOnModificationsAfterShutdown
	}
	s.Logf("config maxSize=%d shutdown=%s panic-on-late-add=%v", maxSize, flagName(flags), panicOn)
	var elems []*elem
	var shutInv uint64
	addersLeft := 0
	var spawnPollers func()
	npoll := 1 + s.Choose(3)
	// pollers either poll until the queue is shut down and empty, or (quota) a fixed number of times each
	pollQuota := 0
	if s.Choose(3) == 2 {
		pollQuota = 1 + s.Choose(2)
	}
	pollersStarted := false
	spawnPollers = func() {
		if pollersStarted {
			return
		}
		pollersStarted = true
		for p := 0; p < npoll; p++ {
			quota := pollQuota
			s.Go(fmt.Sprintf("poller%d", p), func() {
				for n := 0; quota == 0 || n < quota; n++ {
					inv := s.Tick()
					v := q.Poll(true)
					ret := s.Tick()
					if v == 0 {
						return
					}
					now := time.Since(start)
					e := elems[v-1]
					e.delivered++
					e.delivStep = ret
					e.pollInv = inv
					s.Logf("Poll -> %d at %v (due %v)", v, now, e.due)
					if e.delivered > 1 {
						s.Fail("at-most-once", "queue", "element %d delivered %d times", v, e.delivered)
					}
					ignore := flags&timed.IgnorePendingTimeouts != 0 && shutInv != 0 && shutInv < ret
					if now < e.due && !ignore {
						s.Fail("never-early", "queue", "element %d due at %v delivered at %v (shutdown=%s invoked at step %d, delivery at step %d)", v, e.due, now, flagName(flags), shutInv, ret)
					}
					if e.cancelRet != 0 && e.cancelRet < inv {
						s.Fail("cancel-honoured", "queue", "element %d delivered by a Poll invoked at step %d although Cancel had returned at step %d", v, inv, e.cancelRet)
					}
					// a delivery is decided at or after the due time (or, with an ignore-timeouts shutdown, after Shutdown was
					// invoked): if Cancel had returned strictly before that, the element was cancelled before delivery however
					// long the delivering Poll had been waiting
					if e.cancelRet != 0 && e.cancelAt < e.due && !(flags&timed.IgnorePendingTimeouts != 0 && shutInv != 0 && shutInv < e.cancelRet) {
						s.Fail("cancel-honoured", "queue:cancelled-before-due", "element %d (due %v) was delivered at %v although its Cancel had returned at %v, before it was due", v, e.due, now, e.cancelAt)
					}
				}
			})
		}
	}
	nadd := 1 + s.Choose(2)
	// monotone leg of the size bound: one adder, strictly increasing due times, so that the element the bound drops is
	// the newcomer under any reading of "the element furthest in the future"; handles (also of dropped elements) are
	// cancelled in between, and the content of the queue is known exactly
	monotone := maxSize > 0 && s.Choose(2) == 1
	var model map[int]bool
	if monotone {
		nadd = 0
		addersLeft = 1
		model = map[int]bool{}
		n := 2 + s.Choose(simrt.Bound(5, 7))
		base := delays[s.Choose(len(delays))]
		cancelOf := make([]int, n) // after the i-th Add cancel the handle of element cancelOf[i] (-1: none)
		for i := range cancelOf {
			cancelOf[i] = -1
			if s.Choose(2) == 1 {
				cancelOf[i] = s.Choose(i + 1)
			}
		}
		s.Go("adder0", func() {
			for i := 0; i < n; i++ {
				e := &elem{id: len(elems) + 1}
				elems = append(elems, e)
				e.due = time.Since(start) + base + time.Duration(i)*10*time.Millisecond
				if i > 0 && e.due <= elems[i-1].due {
					e.due = elems[i-1].due + time.Millisecond
				}
				h := q.Add(e.id, start.Add(e.due))
				e.addRet = s.Tick()
				e.added = h != nil
				e.handle = h
				if h == nil {
					s.Fail("model", "queue:add-refused", "Add %d refused before any Shutdown", e.id)
					break
				}
				if len(model) < maxSize {
					model[e.id] = true
				} else {
					s.Probe("size-bound-drops-newcomer")
				}
				s.Logf("Add %d due=%v; expected content %v", e.id, e.due, model)
				if sz := q.Size(); sz != len(model) {
					s.Fail("model", "queue:size-after-add", "Size() = %d after adding element %d, expected %d (max size %d)", sz, e.id, len(model), maxSize)
				}
				if c := cancelOf[i]; c >= 0 && elems[c].cancelInv == 0 {
					ce := elems[c]
					if !model[ce.id] {
						s.Probe("cancel-of-dropped-element")
					}
					ce.cancelInv = s.Tick()
					ce.handle.Cancel()
					ce.cancelRet = s.Tick()
					ce.cancelAt = time.Since(start)
					delete(model, ce.id)
					s.Logf("Cancel %d; expected content %v", ce.id, model)
					if sz := q.Size(); sz != len(model) {
						s.Fail("model", "queue:size-after-cancel", "Size() = %d after cancelling element %d, expected %d", sz, ce.id, len(model))
					}
				}
			}
			addersLeft--
			spawnPollers()
		})
	} else {
		addersLeft = nadd
	}
	for a := 0; a < nadd; a++ {
		n := 1 + s.Choose(3)
		type spec struct {
			d      time.Duration
			cancel int // 0 no, k>0: cancel after k yields
			sleep  time.Duration
		}
		specs := make([]spec, n)
		for i := range specs {
			specs[i].d = delays[s.Choose(len(delays))]
			if maxSize == 0 && s.Choose(3) == 2 {
				specs[i].cancel = 1 + s.Choose(3)
			}
			if s.Choose(4) == 3 {
				specs[i].sleep = simrt.Knob(s, time.Millisecond, 10*time.Millisecond, 100*time.Millisecond)
			}
		}
		s.Go(fmt.Sprintf("adder%d", a), func() {
			for _, sp := range specs {
				if sp.sleep > 0 {
					simrt.Sleep(sp.sleep)
				}
				e := &elem{id: len(elems) + 1}
				elems = append(elems, e)
				e.due = time.Since(start) + sp.d
				var h *timed.QueueElement[int]
				if panicked, pv := hx.Try(func() { h = q.Add(e.id, start.Add(e.due)) }); panicked {
					if !panicOn || shutInv == 0 {
						s.Fail("panic", "queue:Add", "Add panicked (panic flag %v, Shutdown invoked at step %d): %v", panicOn, shutInv, pv)
					}
					s.Probe("late-add-panicked-and-was-recovered")
				}
				e.addRet = s.Tick()
				e.added = h != nil
				s.Logf("Add %d due=%v -> added=%v", e.id, e.due, e.added)
				if h != nil && sp.cancel > 0 {
					for i := 0; i < sp.cancel; i++ {
						simrt.Yield()
					}
					e.cancelInv = s.Tick()
					h.Cancel()
					e.cancelRet = s.Tick()
					e.cancelAt = time.Since(start)
					s.Logf("Cancel %d", e.id)
				}
			}
			addersLeft--
			if addersLeft == 0 && maxSize > 0 {
				spawnPollers()
			}
		})
	}
	// size-bound configurations add everything before polling starts (the last adder spawns the pollers), so the
	// number of drops is known
	if maxSize == 0 {
		spawnPollers()
	}
	shutDelay := s.Choose(6)
	shutSleep := time.Duration(0)
	if s.Choose(2) == 1 {
		shutSleep = simrt.Knob(s, time.Millisecond, 30*time.Millisecond, 3*time.Second)
	}
	s.Go("shutdowner", func() {
		for i := 0; i < shutDelay; i++ {
			simrt.Yield()
		}
		if shutSleep > 0 {
			simrt.Sleep(shutSleep)
		}
		if maxSize > 0 {
			// let all adds finish first
			for addersLeft > 0 {
				simrt.Sleep(time.Second)
			}
		}
		shutInv = s.Tick()
		s.Logf("Shutdown(%s)", flagName(flags))
		q.Shutdown(shutFlags)
	})
	left := s.Quiesce()
	for _, t := range left {
		if t.Name == "shutdowner" || t.Name[:5] == "adder" {
			s.Fail("termination", t.Name[:5]+":"+t.WaitOn, "%s blocked forever on %s", t.Name, t.WaitOn)
		}
		// a Poll waiting for an element to be queued while elements are queued: every element that is not cancelled or
		// dropped is to be delivered, and this Poll is asking for one
		if t.WaitOn == "Cond.Wait" && q.Size() > 0 && flags&timed.CancelPendingElements == 0 {
			s.Fail("eventually-once", "queue:poll-waits-although-elements-queued", "%s is blocked in Poll waiting for an element although %d elements are queued", t.Name, q.Size())
		}
		s.Probe("poller-stuck-after-shutdown") // outside the statement: Shutdown only broadcasts when the heap is empty
	}
	// eventually exactly once
	delivered, eligible := 0, 0
	for _, e := range elems {
		if e.delivered > 0 {
			delivered++
		}
		if !e.added || e.cancelInv != 0 {
			continue
		}
		eligible++
		if maxSize > 0 {
			continue
		}
		if flags&timed.CancelPendingElements != 0 {
			continue // may have been dropped by the shutdown flag
		}
		if e.delivered == 0 {
			if pollQuota != 0 {
				continue // bounded pollers: an element may be left over simply because nobody asks any more
			}
			if e.addRet > shutInv {
				continue // added while/after shutting down: Add may have been refused legitimately or raced
			}
			s.Fail("eventually-once", "queue:shutdown-"+flagName(flags), "element %d (added before Shutdown was invoked, never cancelled) was never delivered", e.id)
		}
	}
	if monotone {
		for _, e := range elems {
			switch {
			case e.delivered > 0 && !model[e.id]:
				s.Fail("model", "queue:delivered-not-in-model", "element %d was delivered although it was cancelled or dropped by the size bound (expected content %v)", e.id, model)
			case e.delivered == 0 && model[e.id] && flags&timed.CancelPendingElements == 0 && pollQuota == 0:
				s.Fail("eventually-once", "queue:size-bound-kept-element-lost", "element %d was neither cancelled nor dropped by the size bound (expected content %v) and was never delivered", e.id, model)
			}
		}
	} else if maxSize > 0 && flags&timed.CancelPendingElements == 0 && pollQuota == 0 {
		want := eligible
		if want > maxSize {
			want = maxSize
		}
		if delivered != want {
			s.Fail("eventually-once", "queue:size-bound", "%d elements added with max size %d: %d delivered, expected %d", eligible, maxSize, delivered, want)
		}
	}
}

// ---------------------------------------------------------------------------------------------
// Executor

type job struct {
	id        int
	due       time.Duration
	handle    *timed.ScheduledTask
	schedRet  uint64
	runs      int
	startStep uint64
	cancelInv uint64
	cancelRet uint64
	cancelAt  time.Duration
}

func executor(s *simrt.Sim) {
	workers := 1 + s.Choose(3)
	ex := timed.NewExecutor(workers)
	start := time.Now()
	flags := []timed.ShutdownFlag{0, timed.CancelPendingElements, timed.IgnorePendingTimeouts}[s.Choose(3)]
	panicOn := s.Choose(3) == 2
	shutFlags := flags
	if panicOn {
		shutFlags |= timed.PanicOnModificationsAfterShutdown
	}
	s.Logf("config workers=%d shutdown=%s panic-on-late-schedule=%v", workers, flagName(flags), panicOn)
	var jobs []*job
	var shutInv uint64
	nsub := 1 + s.Choose(2)
	for a := 0; a < nsub; a++ {
		n := 1 + s.Choose(3)
		type spec struct {
			d      time.Duration
			cancel int
			work   time.Duration
		}
		specs := make([]spec, n)
		for i := range specs {
			specs[i].d = delays[s.Choose(len(delays))]
			if s.Choose(3) == 2 {
				specs[i].cancel = 1 + s.Choose(3)
			}
			if s.Choose(3) == 2 {
				specs[i].work = 5 * time.Millisecond
			}
		}
		s.Go(fmt.Sprintf("scheduler%d", a), func() {
			for _, sp := range specs {
				j := &job{id: len(jobs) + 1}
				jobs = append(jobs, j)
				j.due = time.Since(start) + sp.d
				panicked, pv := hx.Try(func() {
					j.handle = ex.ExecuteAt(func() {
						j.runs++
						j.startStep = s.Tick()
						now := time.Since(start)
						s.Logf("job %d runs at %v (due %v)", j.id, now, j.due)
						if j.runs > 1 {
							s.Fail("at-most-once", "executor", "job %d ran %d times", j.id, j.runs)
						}
						ignore := flags&timed.IgnorePendingTimeouts != 0 && shutInv != 0
						if now < j.due && !ignore {
							s.Fail("never-early", "executor", "job %d due at %v ran at %v", j.id, j.due, now)
						}
						if j.cancelRet != 0 && j.cancelAt < j.due && !(ignore && shutInv < j.cancelRet) {
							s.Fail("cancel-honoured", "executor:cancelled-before-due", "job %d (due %v) ran at %v although its Cancel had returned at %v, before it was due", j.id, j.due, now, j.cancelAt)
						}
						if sp.work > 0 {
							simrt.Sleep(sp.work)
						}
					}, start.Add(j.due))
				})
				if panicked {
					if !panicOn || shutInv == 0 {
						s.Fail("panic", "executor:ExecuteAt", "ExecuteAt panicked (panic flag %v, Shutdown invoked at step %d): %v", panicOn, shutInv, pv)
					}
					s.Probe("late-schedule-panicked-and-was-recovered")
				}
				j.schedRet = s.Tick()
				s.Logf("ExecuteAt job %d due=%v accepted=%v", j.id, j.due, j.handle != nil)
				if j.handle != nil && sp.cancel > 0 {
					for i := 0; i < sp.cancel; i++ {
						simrt.Yield()
					}
					j.cancelInv = s.Tick()
					j.handle.Cancel()
					j.cancelRet = s.Tick()
					j.cancelAt = time.Since(start)
					s.Logf("Cancel job %d", j.id)
				}
			}
		})
	}
	shutDelay := s.Choose(6)
	shutSleep := time.Duration(0)
	if s.Choose(2) == 1 {
		shutSleep = simrt.Knob(s, time.Millisecond, 30*time.Millisecond, 3*time.Second)
	}
	s.Go("shutdowner", func() {
		for i := 0; i < shutDelay; i++ {
			simrt.Yield()
		}
		if shutSleep > 0 {
			simrt.Sleep(shutSleep)
		}
		shutInv = s.Tick()
		s.Logf("Shutdown(%s)", flagName(flags))
		ex.Shutdown(shutFlags)
		s.Logf("Shutdown returned")
	})
	left := s.Quiesce()
	for _, t := range left {
		if len(t.Name) >= 9 && t.Name[:9] == "scheduler" {
			s.Fail("termination", "scheduler:"+t.WaitOn, "%s blocked forever on %s", t.Name, t.WaitOn)
		}
		if t.Name == "shutdowner" {
			s.Probe("executor-shutdown-never-returns") // outside the statement (C18 does not require Shutdown to return)
		}
	}
	for _, j := range jobs {
		if j.handle == nil || j.cancelInv != 0 || flags&timed.CancelPendingElements != 0 {
			continue
		}
		if j.runs == 0 && j.schedRet < shutInv {
			s.Fail("eventually-once", "executor:shutdown-"+flagName(flags), "job %d (scheduled before Shutdown was invoked, never cancelled) never ran", j.id)
		}
	}
}

// ---------------------------------------------------------------------------------------------
// TaskExecutor

type ttask struct {
	due       time.Duration
	retTime   time.Duration // fake time when ExecuteAt returned
	ident     int
	seq       int
	schedInv  uint64
	schedRet  uint64
	accepted  bool
	startStep uint64
	endStep   uint64
	runs      int
}

type tcancel struct {
	retTime  time.Duration
	ident    int
	inv, ret uint64
	result   bool
}

func taskExec(s *simrt.Sim) {
	workers := 1 + s.Choose(2)
	nIdents := 2 + s.Choose(2)
	// a size bound of at least the number of identifiers can never legitimately drop anything: at most one task per
	// identifier is pending
	var teOpts []options.Option[timed.Executor]
	maxQueue := 0
	if s.Choose(2) == 1 {
		maxQueue = nIdents + s.Choose(2)
		teOpts = append(teOpts, timed.WithMaxQueueSize(maxQueue))
	}
	te := timed.NewTaskExecutor[int](workers, teOpts...)
	s.Logf("config workers=%d idents=%d maxQueue=%d", workers, nIdents, maxQueue)
	start := time.Now()
	var tasks []*ttask
	var cancels []*tcancel
	var shutInv, midShutInv uint64
	nact := 1 + s.Choose(simrt.Bound(3, 4))
	for a := 0; a < nact; a++ {
		n := 1 + s.Choose(simrt.Bound(4, 6))
		type spec struct {
			kind  int // 0,1 schedule; 2 cancel
			ident int
			d     time.Duration
			work  int
			sleep time.Duration
		}
		specs := make([]spec, n)
		for i := range specs {
			specs[i] = spec{kind: s.Choose(3), ident: 1 + s.Choose(nIdents), d: simrt.Knob(s, 0, time.Millisecond, 10*time.Millisecond), work: s.Choose(3)}
			if s.Choose(3) == 2 {
				specs[i].sleep = simrt.Knob(s, time.Millisecond, 5*time.Millisecond, 20*time.Millisecond)
			}
		}
		s.Go(fmt.Sprintf("actor%d", a), func() {
			for _, sp := range specs {
				if sp.sleep > 0 {
					simrt.Sleep(sp.sleep)
				}
				if sp.kind == 2 {
					c := &tcancel{ident: sp.ident, inv: s.Tick()}
					c.result = te.Cancel(sp.ident)
					c.ret = s.Tick()
					c.retTime = time.Since(start)
					cancels = append(cancels, c)
					s.Logf("Cancel(id%d) -> %v", sp.ident, c.result)
					continue
				}
				t := &ttask{ident: sp.ident, seq: len(tasks) + 1}
				tasks = append(tasks, t)
				due := time.Since(start) + sp.d
				t.due = due
				t.schedInv = s.Tick()
				var h *timed.ScheduledTask
				panicked, pv := hx.Try(func() {
					h = te.ExecuteAt(sp.ident, func() {
						t.runs++
						t.startStep = s.Tick()
						now := time.Since(start)
						s.Logf("task #%d (id%d) starts at %v", t.seq, t.ident, now)
						if t.runs > 1 {
							s.Fail("at-most-once", "taskexecutor", "task #%d ran %d times", t.seq, t.runs)
						}
						if now < due && shutInv == 0 {
							s.Fail("never-early", "taskexecutor", "task #%d due at %v ran at %v", t.seq, due, now)
						}
						for i := 0; i < sp.work; i++ {
							simrt.Sleep(2 * time.Millisecond)
						}
						t.endStep = s.Tick()
						s.Logf("task #%d (id%d) ends", t.seq, t.ident)
					}, start.Add(due))
				})
				if panicked {
					if midShutInv == 0 {
						s.Fail("panic", "taskexecutor:ExecuteAt", "ExecuteAt panicked although no Shutdown with the panic flag was invoked: %v", pv)
					}
					s.Probe("late-schedule-panicked-and-was-recovered")
				}
				t.schedRet = s.Tick()
				t.retTime = time.Since(start)
				t.accepted = h != nil
				s.Logf("ExecuteAt(id%d) -> task #%d due=%v accepted=%v", sp.ident, t.seq, due, t.accepted)
			}
		})
	}
	if s.Choose(3) == 2 {
		// a Shutdown in the middle (no cancel flag: what is pending still runs when it is due) with
		// PanicOnModificationsAfterShutdown: later ExecuteAt calls panic and are recovered by their callers
		d := s.Choose(8)
		sl := simrt.Knob(s, 0, 2*time.Millisecond, 8*time.Millisecond)
		s.Go("midshutdown", func() {
			for i := 0; i < d; i++ {
				simrt.Yield()
			}
			if sl > 0 {
				simrt.Sleep(sl)
			}
			midShutInv = s.Tick()
			s.Probe("taskexecutor-shut-down-while-actors-are-at-work")
			te.Shutdown(timed.PanicOnModificationsAfterShutdown)
		})
	}
	left := s.Quiesce()
	for _, t := range left {
		if len(t.Name) >= 5 && t.Name[:5] == "actor" {
			s.Fail("termination", "actor:"+t.WaitOn, "%s blocked forever on %s", t.Name, t.WaitOn)
		}
	}
	// replacement: a task that had not started when a later ExecuteAt of the same identifier returned must never start
	for _, a := range tasks {
		if !a.accepted {
			continue
		}
		for _, b := range tasks {
			if b == a || b.ident != a.ident || !b.accepted || b.schedInv <= a.schedRet {
				continue
			}
			// b was scheduled strictly after a's ExecuteAt returned. A task can only begin at or after its due time, so if
			// b's ExecuteAt returned before a was due, a was certainly still pending and must have been replaced (at or
			// after the due time a worker may already have committed to running a: either outcome is accepted)
			if a.startStep > b.schedRet && b.retTime < a.due {
				s.Fail("one-pending-per-id", "replaced-task-ran", "task #%d (id%d) started at step %d although ExecuteAt of task #%d for the same identifier had returned at step %d while it was still pending", a.seq, a.ident, a.startStep, b.seq, b.schedRet)
			}
		}
	}
	// Cancel(id) == true exactly when it prevented a pending task from running
	for _, c := range cancels {
		// the latest task of this identifier whose ExecuteAt returned before the Cancel was invoked, with no
		// scheduling or cancelling of the same identifier overlapping or in between
		var last *ttask
		clean := true
		for _, t := range tasks {
			if t.ident != c.ident {
				continue
			}
			if t.schedRet < c.inv {
				if last == nil || t.schedRet > last.schedRet {
					last = t
				}
			} else if t.schedInv < c.ret {
				clean = false // overlaps the Cancel call
			}
		}
		for _, o := range cancels {
			if o != c && o.ident == c.ident && o.inv < c.ret && o.ret > c.inv {
				clean = false
			}
		}
		if !clean {
			continue
		}
		if last != nil {
			// anything between last's scheduling and this cancel?
			for _, o := range cancels {
				if o != c && o.ident == c.ident && o.ret < c.inv && o.ret > last.schedInv {
					clean = false // an earlier cancel may already have dealt with it
					break
				}
			}
		}
		if last != nil {
			for _, t := range tasks {
				if t != last && t.ident == c.ident && t.schedInv < last.schedRet && t.schedRet > last.schedInv {
					clean = false // overlapping schedulings: which one is "the pending task" is ambiguous
				}
			}
		}
		if !clean {
			continue
		}
		pending := last != nil && last.accepted && (last.startStep == 0 || last.startStep > c.ret)
		startedBefore := last != nil && last.startStep != 0 && last.startStep < c.inv
		switch {
		case c.result && pending && last.startStep > c.ret:
			s.Fail("cancel-result", "true-but-task-ran", "Cancel(id%d) returned true at step %d but the pending task #%d started afterwards (step %d)", c.ident, c.ret, last.seq, last.startStep)
		case c.result && startedBefore:
			s.Fail("cancel-result", "true-for-started-task", "Cancel(id%d) returned true in [%d,%d] although the only task of that identifier (#%d) had already started at step %d: nothing was prevented", c.ident, c.inv, c.ret, last.seq, last.startStep)
		case c.result && last == nil:
			s.Fail("cancel-result", "true-without-task", "Cancel(id%d) returned true although no task of that identifier was scheduled", c.ident)
		case !c.result && pending && c.retTime < last.due:
			// (at or after the due time a worker may already have committed to running the task: not judged)
			s.Fail("cancel-result", "false-with-pending-task", "Cancel(id%d) returned false in [%d,%d] although task #%d (ExecuteAt returned at step %d) was pending and had not started (start step %d)", c.ident, c.inv, c.ret, last.seq, last.schedRet, last.startStep)
		}
	}
	// eventually: the latest accepted task per identifier that was neither cancelled nor replaced runs
	for _, t := range tasks {
		if !t.accepted || t.runs > 0 {
			continue
		}
		excused := false
		for _, o := range tasks {
			if o != t && o.ident == t.ident && o.schedRet > t.schedInv {
				excused = true // replaced (or racing with) a later scheduling
			}
		}
		for _, c := range cancels {
			if c.ident == t.ident && c.ret > t.schedInv {
				excused = true
			}
		}
		if midShutInv != 0 && t.schedRet > midShutInv {
			excused = true // scheduled while / after shutting down: the call may have raced with the Shutdown (as for the queue)
		}
		if !excused {
			s.Fail("eventually-once", "taskexecutor", "task #%d (id%d) was accepted, never cancelled or replaced, and never ran", t.seq, t.ident)
		}
	}
	shutInv = s.Tick()
	if midShutInv == 0 {
		s.Go("shutdowner", func() { te.Shutdown() })
		s.Quiesce()
	}
}
