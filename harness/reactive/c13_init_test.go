package reactive

import (
	"fmt"

	"github.com/iotaledger/hive.go/ds/reactive"
	"verifharness/hx"
	"verifsim/simrt"
)

// varinit: a variable nobody has subscribed to yet is written through Init (the setter that chains with the
// constructor) and Set while its first subscribers arrive. No reference subscription exists here, so the verdicts are
// the attribution-free ones: every subscriber is told a chain of values (each report starts from what the previous
// one ended with, the first one from the zero value) that ends with the variable's final value.
func varInitBody(s *simrt.Sim) {
	v := reactive.NewVariable[int]()
	type report struct {
		prev, new int
		step      uint64
	}
	yields := func(n int) {
		for i := 0; i < n; i++ {
			simrt.Yield()
		}
	}
	nw := 1 + s.Choose(2)
	for i := 0; i < nw; i++ {
		n := 1 + s.Choose(2)
		type op struct {
			init bool
			val  int
			pre  int
		}
		ops := make([]op, n)
		for j := range ops {
			ops[j] = op{init: s.Choose(3) != 0, val: (i+1)*10 + j + 1, pre: s.Choose(3)}
		}
		s.Go(fmt.Sprintf("writer%d", i), func() {
			for _, o := range ops {
				yields(o.pre)
				if o.init {
					s.Logf("Init(%d)", o.val)
					v.Init(o.val)
				} else {
					s.Logf("Set(%d)", o.val)
					v.Set(o.val)
				}
				s.Logf("write of %d returned", o.val)
			}
		})
	}
	ns := 1 + s.Choose(3)
	reports := make([][]report, ns)
	for i := 0; i < ns; i++ {
		pre, inside, withZero := s.Choose(5), s.Choose(2), s.Choose(2) == 1
		s.Go(fmt.Sprintf("subscriber%d", i), func() {
			yields(pre)
			s.Logf("subscriber%d: OnUpdate", i)
			v.OnUpdate(func(prev, new int) {
				reports[i] = append(reports[i], report{prev, new, s.Tick()})
				s.Logf("subscriber%d told %d -> %d", i, prev, new)
				yields(inside)
			}, withZero)
			s.Logf("subscriber%d: OnUpdate returned", i)
		})
	}
	left := s.Quiesce()
	hx.Stuck(s, "deadlock", left, nil)
	final := v.Get()
	s.Logf("final %d", final)
	for i, rs := range reports {
		last := 0
		for k, r := range rs {
			if r.prev != last {
				s.Fail("chain", "previous-differs-from-preceding-new:first-subscribers-of-a-variable", "subscriber%d: report %d is %d -> %d, the report before it ended with %d", i, k, r.prev, r.new, last)
			}
			last = r.new
		}
		if last != final {
			s.Fail("final", "last-reported-differs-from-final-value:first-subscribers-of-a-variable", "subscriber%d was last told %d (reports %v), the variable holds %d at rest", i, last, rs, final)
		}
		if len(rs) > 1 {
			s.Probe("first-subscriber-saw-a-write-after-its-initial-state")
		}
	}
}
