package reactive

import (
	"fmt"

	rx "github.com/iotaledger/hive.go/ds/reactive"
	"verifharness/hx"
	"verifsim/simrt"
)

// C14: derived variables and counters. All value oracles are evaluated at quiescence, after the deadlock oracle.

type tuple = [3]int
type tuple4 = [4]int

// wcall is one write call on an input (used to decide whether an unmonitor call raced with a write).
type wcall struct {
	input int
	call
	// reach probes only (stamps of the derived harness are s.Step() values: the step counter is not advanced)
	task    *simrt.Task
	changed bool // the write changed the value of the input
	flip    bool // counter: ... and with it whether the input satisfies the condition
	toTrue  bool // counter: the written value satisfies the condition
}

type dnode struct {
	name     string
	shape    string
	get      func() any
	want     func() any
	teardown func()
	built    call
	torn     call
	// reach probes only
	deps        []int // inputs the node depends on
	byWriter    int   // runs of the node's compute function on a task other than the builder
	writerTasks []*simrt.Task
}

func derivedBody(s *simrt.Sim) {
	// three inputs, or four: then the builders may also draw the DerivedVariable4 shapes and the writers also work on
	// the fourth input
	nin := 3 + s.Choose(2)
	ins := make([]rx.Variable[int], nin)
	for i := range ins {
		ins[i] = rx.NewVariable[int]()
		if s.Choose(2) == 1 {
			ins[i].Set(i + 1)
		}
	}
	in := func(i int) int { return ins[i].Get() }
	var nodes []*dnode
	var writes []*wcall
	r := newReach(s)

	// writers: each works on one input (different writers may share an input)
	nwriters := 1 + s.Choose(3)
	for i := 0; i < nwriters; i++ {
		input := s.Choose(nin)
		n := 1 + s.Choose(4)
		type op struct{ kind, val, pre int }
		ops := make([]op, n)
		for j := range ops {
			ops[j] = op{kind: s.Weighted(6, 3, 1), val: (i+1)*10 + j + 1, pre: s.Choose(3)}
		}
		s.Logf("script writer%d input=%d %+v", i, input, ops)
		s.Go(fmt.Sprintf("writer%d", i), func() {
			for _, o := range ops {
				yields(o.pre)
				wc := &wcall{input: input, task: simrt.Current()}
				writes = append(writes, wc)
				wc.inv = s.Step()
				prev, val := 0, o.val
				switch o.kind {
				case 0:
					s.Logf("in%d.Set(%d)", input, o.val)
					prev = ins[input].Set(o.val)
				case 1:
					s.Logf("in%d.Compute(->%d)", input, o.val)
					prev = ins[input].Compute(func(int) int { return o.val })
				case 2:
					s.Logf("in%d.Set(0)", input)
					prev, val = ins[input].Set(0), 0
				}
				wc.ret, wc.changed = s.Step(), prev != val
				s.Logf("write returned")
			}
		})
	}

	// builders: each builds one derived node while the writers run, and optionally tears it down again
	nbuilders := 1 + s.Choose(3)
	for i := 0; i < nbuilders; i++ {
		shape := 0
		if nin == 4 {
			shape = s.Weighted(1, 1, 1, 1, 1, 1, 1, 3, 3, 3) // 7..9: the DerivedVariable4 shapes
		} else {
			shape = s.Choose(7)
		}
		x := s.Choose(3)
		y := (x + 1 + s.Choose(2)) % 3
		delay := s.Choose(5)
		tearMode := s.Choose(4) // 0,1: keep; 2: builder tears down; 3: separate task
		tearWait := s.Choose(5)
		s.Logf("script builder%d shape=%d x=%d y=%d delay=%d tear=%d/%d", i, shape, x, y, delay, tearMode, tearWait)
		s.Go(fmt.Sprintf("builder%d", i), func() {
			yields(delay)
			n := &dnode{name: fmt.Sprintf("n%d", i)}
			nodes = append(nodes, n)
			// note is called by the node's compute function (reach probes only): during the build it runs on the
			// builder task, afterwards on the task of the writer whose change is being propagated
			me := simrt.Current()
			note := func() {
				t := simrt.Current()
				if t == me {
					return
				}
				n.byWriter++
				known := false
				for _, k := range n.writerTasks {
					known = known || k == t
				}
				if !known {
					n.writerTasks = append(n.writerTasks, t)
				}
				r.hit("recomputed-by-writer-before-build-returned", n.built.ret == 0)
				r.hit("recomputed-after-teardown-invoked", n.torn.inv != 0)
			}
			n.built.inv = s.Tick()
			switch shape {
			case 0:
				n.shape = fmt.Sprintf("DerivedVariable(in%d)", x)
				n.deps = []int{x}
				d := rx.NewDerivedVariable(func(_ tuple, a int) tuple { note(); return tuple{a, 0, 0} }, ins[x])
				n.get, n.want, n.teardown = func() any { return d.Get() }, func() any { return tuple{in(x), 0, 0} }, d.Unsubscribe
			case 1:
				n.shape = fmt.Sprintf("DerivedVariable2(in%d,in%d)", x, y)
				n.deps = []int{x, y}
				d := rx.NewDerivedVariable2(func(_ tuple, a, b int) tuple { note(); return tuple{a, b, 0} }, ins[x], ins[y])
				n.get, n.want, n.teardown = func() any { return d.Get() }, func() any { return tuple{in(x), in(y), 0} }, d.Unsubscribe
			case 2:
				n.shape = "DerivedVariable3(in0,in1,in2)"
				n.deps = []int{0, 1, 2}
				d := rx.NewDerivedVariable3(func(_ tuple, a, b, c int) tuple { note(); return tuple{a, b, c} }, ins[0], ins[1], ins[2])
				n.get, n.want, n.teardown = func() any { return d.Get() }, func() any { return tuple{in(0), in(1), in(2)} }, d.Unsubscribe
			case 3:
				n.shape = fmt.Sprintf("InheritFrom(in%d)", x)
				n.deps = []int{x}
				v := rx.NewVariable[int]()
				n.teardown = v.InheritFrom(ins[x])
				n.get, n.want = func() any { return v.Get() }, func() any { return in(x) }
			case 4:
				n.shape = "DerivedVariable2(DerivedVariable2(in0,in1),in2)"
				d1 := rx.NewDerivedVariable2(func(_ tuple, a, b int) tuple { return tuple{a, b, 0} }, ins[0], ins[1])
				n.deps = []int{0, 1, 2}
				d2 := rx.NewDerivedVariable2(func(_ tuple, t tuple, c int) tuple { note(); return tuple{t[0], t[1], c} }, d1, ins[2])
				n.get, n.want, n.teardown = func() any { return d2.Get() }, func() any { return tuple{in(0), in(1), in(2)} }, d2.Unsubscribe
			case 5:
				n.shape = fmt.Sprintf("DeriveValueFrom(DerivedVariable2(in%d,in%d))", x, y)
				v := rx.NewVariable[tuple]()
				n.deps = []int{x, y}
				n.teardown = v.DeriveValueFrom(rx.NewDerivedVariable2(func(_ tuple, a, b int) tuple { note(); return tuple{a, b, 0} }, ins[x], ins[y]))
				n.get, n.want = func() any { return v.Get() }, func() any { return tuple{in(x), in(y), 0} }
			case 6:
				n.shape = "DerivedVariable3(sum)"
				n.deps = []int{0, 1, 2}
				d := rx.NewDerivedVariable3(func(_ int, a, b, c int) int { note(); return a + b + c }, ins[0], ins[1], ins[2])
				n.get, n.want, n.teardown = func() any { return d.Get() }, func() any { return in(0) + in(1) + in(2) }, d.Unsubscribe
			case 7:
				n.shape = "DerivedVariable4(in0,in1,in2,in3)"
				n.deps = []int{0, 1, 2, 3}
				d := rx.NewDerivedVariable4(func(_ tuple4, a, b, c, e int) tuple4 { note(); return tuple4{a, b, c, e} }, ins[0], ins[1], ins[2], ins[3])
				n.get, n.want, n.teardown = func() any { return d.Get() }, func() any { return tuple4{in(0), in(1), in(2), in(3)} }, d.Unsubscribe
			case 8:
				// the fourth input first, an initial value that no input combination produces
				n.shape = fmt.Sprintf("DerivedVariable4(in3,in%d,in%d,in%d; initial value)", x, y, 3-x-y)
				z := 3 - x - y
				n.deps = []int{0, 1, 2, 3}
				d := rx.NewDerivedVariable4(func(_ tuple4, a, b, c, e int) tuple4 { note(); return tuple4{a, b, c, e} }, ins[3], ins[x], ins[y], ins[z], tuple4{-1, -1, -1, -1})
				n.get, n.want, n.teardown = func() any { return d.Get() }, func() any { return tuple4{in(3), in(x), in(y), in(z)} }, d.Unsubscribe
			case 9:
				n.shape = fmt.Sprintf("DerivedVariable4(DerivedVariable(in%d),in%d,in%d,in3) folding the current value", x, y, 3-x-y)
				z := 3 - x - y
				n.deps = []int{0, 1, 2, 3}
				d1 := rx.NewDerivedVariable(func(_ int, a int) int { return a + 100 }, ins[x])
				// compute uses the current value the way an accumulator would, but remains a function of the inputs
				d := rx.NewDerivedVariable4(func(cur tuple4, a, b, c, e int) tuple4 {
					note()
					cur[0], cur[1], cur[2], cur[3] = a, b, c, e
					return cur
				}, d1, ins[y], ins[z], ins[3])
				n.get, n.want, n.teardown = func() any { return d.Get() }, func() any { return tuple4{in(x) + 100, in(y), in(z), in(3)} }, d.Unsubscribe
			}
			n.built.ret = s.Tick()
			s.Logf("built %s %s", n.name, n.shape)
			tear := func() {
				yields(tearWait)
				n.torn.inv = s.Tick()
				s.Logf("teardown %s", n.name)
				n.teardown()
				n.torn.ret = s.Tick()
				s.Logf("teardown %s returned", n.name)
			}
			switch tearMode {
			case 2:
				tear()
			case 3:
				s.Go(fmt.Sprintf("teardown%d", i), tear)
			}
		})
	}

	left := s.Quiesce()
	hx.Stuck(s, "deadlock", left, nil)
	inputs := make([]int, nin)
	for i := range inputs {
		inputs[i] = in(i)
	}
	s.Logf("inputs %v", inputs)
	for i, a := range writes {
		r.hit("input-write-without-change", a.ret != 0 && !a.changed)
		for _, b := range writes[i+1:] {
			r.hit("writers-overlap-on-same-input", a.task != b.task && a.input == b.input && a.overlaps(&b.call))
		}
	}
	for _, n := range nodes {
		if n.built.ret == 0 {
			continue
		}
		for i, a := range writes {
			if !hasInt(n.deps, a.input) {
				continue
			}
			r.hit("built-during-write-to-own-input", a.overlaps(&n.built))
			r.hit("teardown-during-write-to-own-input", n.torn.inv != 0 && a.overlaps(&n.torn))
			r.hit("input-changed-after-build-returned", n.torn.inv == 0 && a.changed && a.inv >= n.built.ret)
			r.hit("input-written-after-teardown-returned", n.torn.ret != 0 && a.inv >= n.torn.ret)
			for _, b := range writes[i+1:] {
				r.hit("writes-to-two-inputs-of-one-node-overlap", n.torn.inv == 0 && hasInt(n.deps, b.input) && a.input != b.input && a.overlaps(&b.call) &&
					a.retOrInf() > n.built.inv && b.retOrInf() > n.built.inv)
			}
		}
		r.hit("recomputed-by-writer-more-than-once", n.byWriter >= 2)
		r.hit("recomputed-by-two-different-writers", len(n.writerTasks) >= 2)
	}
	for _, n := range nodes {
		if n.torn.inv != 0 {
			continue // no longer derived
		}
		got, want := n.get(), n.want()
		s.Logf("%s %s = %v", n.name, n.shape, got)
		if got != want {
			s.Fail("derived-variable", "value-differs-from-function-of-inputs", "%s %s = %v, inputs %v give %v", n.name, n.shape, got, inputs, want)
		}
	}
}

// ---------------------------------------------------------------------------------------------
// counter

func counterBody(s *simrt.Sim) {
	customCond := s.Choose(3)
	cond := func(v int) bool { return v != 0 }
	var c rx.Counter[int]
	switch customCond {
	case 1:
		cond = func(v int) bool { return v >= 5 }
		c = rx.NewCounter[int](cond)
	case 2:
		// a condition that the zero value satisfies
		cond = func(v int) bool { return v < 5 }
		c = rx.NewCounter[int](cond)
	default:
		c = rx.NewCounter[int]()
	}
	nin := 1 + s.Choose(3)
	ins := make([]rx.Variable[int], nin)
	for i := range ins {
		ins[i] = rx.NewVariable[int]()
		if s.Choose(2) == 1 {
			ins[i].Set(7)
		}
	}
	s.Logf("config inputs=%d customCond=%v", nin, customCond)
	var writes []*wcall
	type monitor struct {
		name      string
		input     int
		done      call
		unmon     call // covers the read of the input right before the call
		valBefore int
	}
	var mons []*monitor

	nwriters := 1 + s.Choose(3)
	for i := 0; i < nwriters; i++ {
		input := s.Choose(nin)
		n := 1 + s.Choose(4)
		type op struct{ val, pre int }
		ops := make([]op, n)
		for j := range ops {
			ops[j] = op{val: simrt.Knob(s, 0, 7, 1, 9, 3), pre: s.Choose(3)}
		}
		s.Logf("script writer%d input=%d %+v", i, input, ops)
		s.Go(fmt.Sprintf("writer%d", i), func() {
			for _, o := range ops {
				yields(o.pre)
				wc := &wcall{input: input, task: simrt.Current()}
				writes = append(writes, wc)
				wc.inv = s.Tick()
				s.Logf("in%d.Set(%d)", input, o.val)
				prev := ins[input].Set(o.val)
				wc.ret = s.Tick()
				wc.changed, wc.flip, wc.toTrue = prev != o.val, cond(prev) != cond(o.val), cond(o.val)
			}
		})
	}
	nmon := 1 + s.Choose(3)
	for i := 0; i < nmon; i++ {
		input := s.Choose(nin)
		delay := s.Choose(5)
		unmonMode := s.Choose(4) // 0,1 keep; 2 by the monitor task; 3 by a separate task
		unmonWait := s.Choose(5)
		s.Logf("script monitor%d input=%d delay=%d unmonitor=%d/%d", i, input, delay, unmonMode, unmonWait)
		s.Go(fmt.Sprintf("monitor%d", i), func() {
			yields(delay)
			m := &monitor{name: fmt.Sprintf("m%d", i), input: input}
			mons = append(mons, m)
			m.done.inv = s.Tick()
			s.Logf("Monitor(in%d)", input)
			unsub := c.Monitor(ins[input])
			m.done.ret = s.Tick()
			un := func() {
				yields(unmonWait)
				m.unmon.inv = s.Tick()
				m.valBefore = ins[input].Get()
				s.Logf("unmonitor %s (in%d=%d)", m.name, input, m.valBefore)
				unsub()
				m.unmon.ret = s.Tick()
			}
			switch unmonMode {
			case 2:
				un()
			case 3:
				s.Go(fmt.Sprintf("unmonitor%d", i), un)
			}
		})
	}
	left := s.Quiesce()
	hx.Stuck(s, "deadlock", left, nil)
	// reading fixed in advance: an input whose monitor was unsubscribed keeps the contribution it had at that
	// moment (Monitor's unsubscribe only stops following the input); if a write to that input overlapped the
	// unsubscribe call either contribution is accepted
	r := newReach(s)
	// monitored: did m follow its input during the whole call wc?
	monitored := func(m *monitor, wc *wcall) bool {
		return m.input == wc.input && m.done.ret != 0 && m.done.ret < wc.inv && (m.unmon.inv == 0 || wc.ret < m.unmon.inv)
	}
	anyMonitored := func(wc *wcall) bool {
		for _, m := range mons {
			if monitored(m, wc) {
				return true
			}
		}
		return false
	}
	for i, a := range writes {
		if !anyMonitored(a) {
			continue
		}
		r.hit("monitored-input-flipped-condition-to-true", a.flip && a.toTrue)
		r.hit("monitored-input-flipped-condition-to-false", a.flip && !a.toTrue)
		r.hit("monitored-input-changed-without-flipping-condition", a.changed && !a.flip)
		for _, b := range writes[i+1:] {
			r.hit("writes-to-two-monitored-inputs-overlap", a.input != b.input && a.overlaps(&b.call) && anyMonitored(b))
		}
	}
	for i, m := range mons {
		if m.done.ret == 0 {
			continue
		}
		for _, wc := range writes {
			if wc.input != m.input {
				continue
			}
			r.hit("monitor-overlaps-write-to-same-input", wc.overlaps(&m.done))
			r.hit("input-flipped-condition-after-unmonitor-returned", m.unmon.ret != 0 && wc.inv > m.unmon.ret && wc.flip)
		}
		for _, o := range mons[i+1:] {
			r.hit("input-monitored-twice-at-the-end", o.done.ret != 0 && o.input == m.input && o.unmon.inv == 0 && m.unmon.inv == 0)
		}
	}
	lo, hi := 0, 0
	desc := ""
	for _, m := range mons {
		if m.done.ret == 0 {
			continue
		}
		v := ins[m.input].Get()
		switch {
		case m.unmon.inv == 0:
			if cond(v) {
				lo++
				hi++
			}
			desc += fmt.Sprintf(" %s:in%d=%d", m.name, m.input, v)
		default:
			raced := false
			for _, wc := range writes {
				if wc.input == m.input && wc.overlaps(&m.unmon) {
					raced = true
				}
			}
			r.hit("unmonitor-overlaps-write-to-same-input", raced)
			r.hit("unmonitored-while-condition-held", !raced && cond(m.valBefore))
			if raced {
				hi++
				desc += fmt.Sprintf(" %s:unmonitored-during-write", m.name)
			} else {
				if cond(m.valBefore) {
					lo++
					hi++
				}
				desc += fmt.Sprintf(" %s:unmonitored-at-%d", m.name, m.valBefore)
			}
		}
	}
	got := c.Get()
	s.Logf("counter %d expected [%d,%d]%s", got, lo, hi, desc)
	if got < lo || got > hi {
		s.Fail("counter", "differs-from-number-of-inputs-satisfying-condition", "counter = %d, expected %d..%d:%s", got, lo, hi, desc)
	}
}
