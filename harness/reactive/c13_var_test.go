package reactive

import (
	"fmt"

	rx "github.com/iotaledger/hive.go/ds/reactive"
	"verifharness/hx"
	"verifsim/simrt"
)

// C13 on Variable[T] and Event (a Variable[bool]).
//
// A reference subscription is registered by the main task before any other task exists. Its callback runs first
// in every update (registration order) while the writer still holds the update-order mutex; it numbers the changes
// and stamps them, which gives the harness the true sequence of values with a time window for every change
// ([invocation of the write, entry of the reference callback]). The reference subscription is subject to the same
// oracles as every other one.

type vwrite[T comparable] struct {
	task      *simrt.Task
	desc      string
	inv, ret  uint64
	ord       int // position in the sequence of changes (-1: no change observed)
	prev, new T
	refEnter  uint64
	// the value the call writes, if the harness knows it (a change may be announced by another writer's task: the
	// callback is then attributed to the call in flight that writes the reported value)
	target    T
	hasTarget bool
}

// authorOf finds the write call a callback reporting the value new on task me belongs to. Normally that is the call me is
// inside; but a change may be announced by another writer's task, so the calls in flight that write the reported value
// are looked at: one candidate is the author; several (two calls writing the same value at once) make the attribution -
// and every verdict that rests on it - unreliable for this run (attrFail), while the verdicts that do not need it (chain,
// final value, exclusiveness, nothing after unsubscribe) stay in force.
func (w *vworld[T]) authorOf(me *simrt.Task, new T) *vwrite[T] {
	own := w.cur[me]
	var cands []*vwrite[T]
	for _, wr := range w.writes {
		if wr.ret == 0 && (wr.hasTarget && wr.target == new || !wr.hasTarget && wr == own) {
			cands = append(cands, wr)
		}
	}
	switch len(cands) {
	case 0:
		return own
	case 1:
		if cands[0] != own {
			w.s.Probe("change-announced-on-another-writers-task")
			w.crossAnnounce = true
		}
		return cands[0]
	}
	w.unreliable = true
	w.s.Probe("attribution-ambiguous:two-calls-in-flight-write-the-reported-value")
	for _, c := range cands {
		if c == own {
			return own
		}
	}
	return cands[0]
}

// attrFail reports a verdict that rests on the attribution of callbacks to write calls.
func (w *vworld[T]) attrFail(oracle, sig, format string, args ...any) {
	if w.unreliable {
		w.s.Probe("attribution-dependent-verdict-skipped")
		return
	}
	w.s.Fail(oracle, sig, format, args...)
}

type vcb[T comparable] struct {
	enter, exit uint64
	prev, new   T
	initial     bool // ran inside the subscribing call, on the subscribing task
	wr          *vwrite[T]
}

type vsub[T comparable] struct {
	name               string
	kind               string
	trigger            bool
	yields             int
	task               *simrt.Task
	subInv, subRet     uint64
	unsubInv, unsubRet uint64
	cbs                []*vcb[T]
	active             *vcb[T]
	unsub              func()
	ref                bool
	// hook, if set, runs inside every callback (after the entry checks, before the callback yields and exits): the
	// utility harness uses it to call withinContext of OnUpdateWithContext from inside the callback
	hook func(prev, new T)
}

type vworld[T comparable] struct {
	s       *simrt.Sim
	subs    []*vsub[T]
	writes  []*vwrite[T]
	cur     map[*simrt.Task]*vwrite[T]
	changes []*vwrite[T]
	// unreliable: a callback could not be attributed to one write call (see authorOf)
	unreliable bool
	// crossAnnounce: some change was announced on a task other than its writer's (then "the write call this task is
	// inside" says nothing about whose change a teardown belongs to)
	crossAnnounce bool
}

func newVWorld[T comparable](s *simrt.Sim) *vworld[T] {
	return &vworld[T]{s: s, cur: map[*simrt.Task]*vwrite[T]{}}
}

func cbKind(initial bool) string {
	if initial {
		return "initial"
	}
	return "update"
}

// callback builds the function registered for sub.
func (w *vworld[T]) callback(sub *vsub[T]) func(prev, new T) {
	return func(prev, new T) {
		s := w.s
		me := simrt.Current()
		e := &vcb[T]{enter: s.Tick(), prev: prev, new: new}
		if sub.subRet == 0 && me == sub.task {
			e.initial = true
		} else {
			e.wr = w.authorOf(me, new)
		}
		s.Logf("cb %s %s enter prev=%v new=%v", sub.name, cbKind(e.initial), prev, new)
		if sub.active != nil {
			s.Fail("exclusive", "callbacks-overlap:"+cbKind(sub.active.initial)+"+"+cbKind(e.initial),
				"%s (%s): callback (%v->%v) entered at step %d while callback (%v->%v) entered at %d has not finished",
				sub.name, sub.kind, prev, new, e.enter, sub.active.prev, sub.active.new, sub.active.enter)
		}
		if sub.unsubRet != 0 {
			s.Fail("unsubscribe", "callback-started-after-unsubscribe-returned:"+cbKind(e.initial),
				"%s (%s): callback (%v->%v) started at step %d, unsubscribe call [%d,%d] had returned", sub.name, sub.kind, prev, new, e.enter, sub.unsubInv, sub.unsubRet)
		}
		if !e.initial && e.wr == nil {
			s.Fail("exactly-once", "callback-outside-any-write", "%s: callback (%v->%v) ran on a task that is not inside a write call", sub.name, prev, new)
		}
		sub.active = e
		sub.cbs = append(sub.cbs, e)
		if sub.ref && e.wr != nil {
			wr := e.wr
			if wr.ord >= 0 {
				w.attrFail("exactly-once", "change-delivered-twice", "reference subscription: write %s delivered twice", wr.desc)
			}
			wr.ord, wr.prev, wr.new, wr.refEnter = len(w.changes), prev, new, e.enter
			w.changes = append(w.changes, wr)
		}
		if sub.hook != nil {
			sub.hook(prev, new)
		}
		yields(sub.yields)
		e.exit = s.Tick()
		sub.active = nil
		s.Logf("cb %s exit", sub.name)
	}
}

// subscribe performs one subscription call on the calling task.
func (w *vworld[T]) subscribe(sub *vsub[T], do func(cb func(prev, new T)) func()) {
	sub.task = simrt.Current()
	w.subs = append(w.subs, sub)
	sub.subInv = w.s.Tick()
	w.s.Logf("subscribe %s %s", sub.name, sub.kind)
	u := do(w.callback(sub))
	sub.subRet = w.s.Tick()
	sub.unsub = u
	w.s.Logf("subscribed %s", sub.name)
}

func (w *vworld[T]) unsubscribe(sub *vsub[T]) {
	sub.unsubInv = w.s.Tick()
	w.s.Logf("unsubscribe %s", sub.name)
	sub.unsub()
	sub.unsubRet = w.s.Tick()
	w.s.Logf("unsubscribed %s", sub.name)
}

func (w *vworld[T]) write(desc string, f func(), target ...T) {
	me := simrt.Current()
	wr := &vwrite[T]{task: me, desc: desc, ord: -1}
	if len(target) > 0 {
		wr.target, wr.hasTarget = target[0], true
	}
	w.writes = append(w.writes, wr)
	w.cur[me] = wr
	wr.inv = w.s.Tick()
	w.s.Logf("%s", desc)
	f()
	wr.ret = w.s.Tick()
	delete(w.cur, me)
	w.s.Logf("%s returned", desc)
}

// possiblyCurrent: could the variable have held val at some instant of [from,to]? State k (k=0 the zero value,
// k>0 the value after change k-1) is current from somewhere in the window of change k-1 to somewhere in the window
// of change k.
func (w *vworld[T]) possiblyCurrent(val T, from, to uint64) bool {
	var zero T
	for k := 0; k <= len(w.changes); k++ {
		v, start, end := zero, uint64(0), ^uint64(0)
		if k > 0 {
			v, start = w.changes[k-1].new, w.changes[k-1].inv
		}
		if k < len(w.changes) {
			end = w.changes[k].refEnter
		}
		if v == val && start <= to && end >= from {
			return true
		}
	}
	return false
}

func (w *vworld[T]) finalChecks(final T) {
	s := w.s
	var zero T
	for _, sub := range w.subs {
		if sub.subRet == 0 {
			continue // reported by the deadlock oracle
		}
		base := zero
		upds := sub.cbs
		hasInitial := len(upds) > 0 && upds[0].initial
		upper := sub.subRet
		if hasInitial {
			ini := upds[0]
			upds = upds[1:]
			upper = ini.enter
			if ini.prev != zero {
				s.Fail("initial", "previous-value-not-zero", "%s: initial callback reported previous value %v", sub.name, ini.prev)
			}
			base = ini.new
			if base == zero && !sub.trigger {
				s.Fail("initial", "zero-value-delivered-without-option", "%s (%s): initial callback with the zero value although the option was not set", sub.name, sub.kind)
			}
		} else if sub.trigger {
			s.Fail("initial", "missing-with-trigger-option", "%s (%s): no initial callback", sub.name, sub.kind)
		}
		if !w.possiblyCurrent(base, sub.subInv, upper) {
			sig := "state-at-subscription-not-delivered"
			if hasInitial {
				sig = "delivered-value-not-current-at-subscription"
			}
			w.attrFail("initial", sig, "%s (%s): subscription call [%d,%d] started from value %v (initial callback: %v), which the variable did not hold during the call; changes: %s",
				sub.name, sub.kind, sub.subInv, sub.subRet, base, hasInitial, w.fmtChanges())
		}
		last := base
		seen := map[*vwrite[T]]int{}
		for _, e := range upds {
			if e.initial {
				s.Fail("initial", "initial-callback-not-first", "%s: initial callback ran after an update callback", sub.name)
			}
			if e.prev != last {
				s.Fail("chain", "previous-differs-from-preceding-new", "%s (%s): callback (%v->%v) at step %d follows value %v; log: %s; changes: %s",
					sub.name, sub.kind, e.prev, e.new, e.enter, last, fmtCbs(sub.cbs), w.fmtChanges())
			}
			if e.wr.ord < 0 || e.wr.prev != e.prev || e.wr.new != e.new {
				w.attrFail("chain", "callback-differs-from-change", "%s: callback (%v->%v) ran under %s whose change was (%v->%v, ord %d)", sub.name, e.prev, e.new, e.wr.desc, e.wr.prev, e.wr.new, e.wr.ord)
			}
			seen[e.wr]++
			if seen[e.wr] > 1 {
				w.attrFail("exactly-once", "change-delivered-twice", "%s: change (%v->%v) of %s delivered twice", sub.name, e.prev, e.new, e.wr.desc)
			}
			last = e.new
		}
		for _, c := range w.changes {
			if c.inv > sub.subRet && (sub.unsubInv == 0 || c.ret < sub.unsubInv) && seen[c] == 0 {
				w.attrFail("exactly-once", "change-missed", "%s (%s, subscribed [%d,%d], unsubscribe invoked %d): change (%v->%v) by %s [%d,%d] was never delivered",
					sub.name, sub.kind, sub.subInv, sub.subRet, sub.unsubInv, c.prev, c.new, c.desc, c.inv, c.ret)
			}
		}
		if sub.unsubInv == 0 && last != final {
			s.Fail("final", "last-reported-differs-from-final-value", "%s (%s): last reported value %v, final Get() %v; log: %s; changes: %s", sub.name, sub.kind, last, final, fmtCbs(sub.cbs), w.fmtChanges())
		}
	}
}

// reachProbes counts (once per run) the situations the C13 oracles quantify over, from the recorded stamps only.
func (w *vworld[T]) reachProbes() {
	r := newReach(w.s)
	for i, a := range w.writes {
		r.hit("write-without-change", a.ret != 0 && a.ord < 0)
		for _, b := range w.writes[i+1:] {
			r.hit("writers-overlap", a.task != b.task && stampsOverlap(a.inv, a.ret, b.inv, b.ret))
		}
	}
	for _, sub := range w.subs {
		// a callback (of any subscription, the reference one included) that started while another writer had already
		// invoked its write: that writer's callbacks are queued behind this one
		for _, e := range sub.cbs {
			for _, b := range w.writes {
				r.hit("callback-started-while-other-write-in-flight", e.wr != nil && b != e.wr && b.inv < e.enter && e.enter < (&call{b.inv, b.ret}).retOrInf())
			}
		}
		if sub.ref {
			continue
		}
		for _, wr := range w.writes {
			r.hit("subscribe-overlaps-write", stampsOverlap(sub.subInv, sub.subRet, wr.inv, wr.ret))
			r.hit("unsubscribe-overlaps-write", sub.unsubInv != 0 && stampsOverlap(sub.unsubInv, sub.unsubRet, wr.inv, wr.ret))
		}
		r.hit("subscriber-got-initial-state-only", len(sub.cbs) == 1 && sub.cbs[0].initial)
		delivered := map[*vwrite[T]]bool{}
		for _, e := range sub.cbs {
			if e.initial {
				continue
			}
			delivered[e.wr] = true
			r.hit("callback-started-after-unsubscribe-invoked", sub.unsubInv != 0 && e.enter > sub.unsubInv)
		}
		// a change racing with the subscription call is either delivered as an update or already part of the state the
		// subscription starts from: the oracles accept both
		for _, c := range w.changes {
			if stampsOverlap(sub.subInv, sub.subRet, c.inv, c.ret) {
				r.hit("change-during-subscribe-delivered-as-update", delivered[c])
				r.hit("change-during-subscribe-part-of-initial-state", !delivered[c] && (sub.unsubInv == 0 || c.ret < sub.unsubInv))
			}
		}
	}
}

func (w *vworld[T]) fmtChanges() string {
	out := ""
	for _, c := range w.changes {
		out += fmt.Sprintf("[%v->%v by %s inv %d ref %d]", c.prev, c.new, c.desc, c.inv, c.refEnter)
	}
	return out
}

func fmtCbs[T comparable](l []*vcb[T]) string {
	out := ""
	for _, e := range l {
		out += fmt.Sprintf("(%v->%v @%d-%d %s)", e.prev, e.new, e.enter, e.exit, cbKind(e.initial))
	}
	return out
}

// subscriberScript is what one subscriber task does: 1..2 subscriptions, each optionally unsubscribed.
type subscription struct {
	delay     int
	kind      int // 0 OnUpdate, 1 OnUpdate(true), 2 OnTrigger (event only)
	cbYields  int
	unsubMode int // 0 never, 1 by the subscriber task, 2 by a separate unsubscriber task
	unsubWait int
}

func drawSubscriptions(s *simrt.Sim, kinds int) []subscription {
	n := 1 + s.Choose(2)
	out := make([]subscription, n)
	for i := range out {
		out[i] = subscription{delay: s.Choose(5), kind: s.Choose(kinds), cbYields: 1 + s.Choose(2), unsubMode: s.Choose(3), unsubWait: s.Choose(5)}
	}
	return out
}

// runSubscribers spawns the subscriber (and unsubscriber) tasks.
func runSubscribers[T comparable](s *simrt.Sim, w *vworld[T], kinds int, do func(kind int, cb func(prev, new T)) func()) {
	kindNames := []string{"OnUpdate", "OnUpdate(true)", "OnTrigger"}
	nsubs := 1 + s.Choose(3)
	for i := 0; i < nsubs; i++ {
		script := drawSubscriptions(s, kinds)
		s.Logf("script subscriber%d %+v", i, script)
		s.Go(fmt.Sprintf("subscriber%d", i), func() {
			for j, sc := range script {
				yields(sc.delay)
				sub := &vsub[T]{name: fmt.Sprintf("s%d.%d", i, j), kind: kindNames[sc.kind], trigger: sc.kind == 1, yields: sc.cbYields}
				w.subscribe(sub, func(cb func(prev, new T)) func() { return do(sc.kind, cb) })
				switch sc.unsubMode {
				case 1:
					yields(sc.unsubWait)
					w.unsubscribe(sub)
				case 2:
					s.Go(fmt.Sprintf("unsubscriber%d", i), func() {
						yields(sc.unsubWait)
						w.unsubscribe(sub)
					})
				}
			}
		})
	}
}

// ---------------------------------------------------------------------------------------------
// variable

func variableBody(s *simrt.Sim) {
	v := rx.NewVariable[int]()
	w := newVWorld[int](s)
	ref := &vsub[int]{name: "ref", kind: "OnUpdate", ref: true}
	w.subscribe(ref, func(cb func(prev, new int)) func() { return v.OnUpdate(cb) })
	if s.Choose(2) == 1 {
		w.write("main Set(5)", func() { v.Set(5) }, 5)
	}
	nwriters := 1 + s.Choose(3)
	for i := 0; i < nwriters; i++ {
		n := 1 + s.Choose(4)
		type op struct{ kind, val, pre int }
		ops := make([]op, n)
		for j := range ops {
			ops[j] = op{kind: s.Weighted(5, 4, 1, 1, 1), val: (i+1)*10 + j + 1, pre: s.Choose(3)}
		}
		s.Logf("script writer%d %+v", i, ops)
		s.Go(fmt.Sprintf("writer%d", i), func() {
			for _, o := range ops {
				yields(o.pre)
				switch o.kind {
				case 0:
					w.write(fmt.Sprintf("Set(%d)", o.val), func() { v.Set(o.val) }, o.val)
				case 1:
					w.write(fmt.Sprintf("Compute(->%d)", o.val), func() {
						v.Compute(func(int) int { simrt.Yield(); return o.val })
					}, o.val)
				case 2:
					w.write("Compute(identity)", func() { v.Compute(func(c int) int { return c }) })
				case 3:
					w.write("Set(0)", func() { v.Set(0) }, 0)
				case 4:
					w.write(fmt.Sprintf("DefaultTo(%d)", o.val), func() { v.DefaultTo(o.val) }, o.val)
				}
			}
		})
	}
	runSubscribers(s, w, 2, func(kind int, cb func(prev, new int)) func() {
		if kind == 1 {
			return v.OnUpdate(cb, true)
		}
		return v.OnUpdate(cb)
	})
	left := s.Quiesce()
	hx.Stuck(s, "deadlock", left, nil)
	final := v.Get()
	s.Logf("final %d", final)
	w.reachProbes()
	r := newReach(s)
	for _, c := range w.changes {
		r.hit("value-reset-to-zero", c.new == 0)
	}
	w.finalChecks(final)
}

// ---------------------------------------------------------------------------------------------
// event

func eventBody(s *simrt.Sim) {
	ev := rx.NewEvent()
	w := newVWorld[bool](s)
	ref := &vsub[bool]{name: "ref", kind: "OnUpdate", ref: true}
	w.subscribe(ref, func(cb func(prev, new bool)) func() { return ev.OnUpdate(cb) })
	if s.Choose(4) == 1 {
		w.write("main Trigger", func() { ev.Trigger() }, true)
	}
	ntrig := s.Choose(4) // 0: the event is never triggered by a task
	for i := 0; i < ntrig; i++ {
		n := 1 + s.Choose(2)
		type op struct{ kind, pre int }
		ops := make([]op, n)
		for j := range ops {
			ops[j] = op{kind: s.Weighted(6, 2, 1, 1), pre: s.Choose(4)}
		}
		s.Logf("script triggerer%d %+v", i, ops)
		s.Go(fmt.Sprintf("triggerer%d", i), func() {
			for _, o := range ops {
				yields(o.pre)
				switch o.kind {
				case 0:
					w.write("Trigger", func() { ev.Trigger() }, true)
				case 1:
					w.write("Set(true)", func() { ev.Set(true) }, true)
				case 2:
					w.write("Set(false)", func() { ev.Set(false) }, false)
				case 3:
					w.write("Compute(not)", func() { ev.Compute(func(c bool) bool { return !c }) })
				}
			}
		})
	}
	runSubscribers(s, w, 3, func(kind int, cb func(prev, new bool)) func() {
		switch kind {
		case 1:
			return ev.OnUpdate(cb, true)
		case 2:
			// the handler carries no values: an event only ever changes from false to true
			return ev.OnTrigger(func() { cb(false, true) })
		}
		return ev.OnUpdate(cb)
	})
	left := s.Quiesce()
	hx.Stuck(s, "deadlock", left, nil)
	final := ev.WasTriggered()
	s.Logf("final %v", final)
	w.reachProbes()
	r := newReach(s)
	for _, sub := range w.subs {
		if sub.ref {
			continue
		}
		for _, e := range sub.cbs {
			r.hit("subscribed-after-trigger", e.initial && e.new)
			r.hit("ontrigger-handler-ran-inside-subscribe-call", e.initial && sub.kind == "OnTrigger")
		}
	}
	if len(w.changes) > 1 {
		s.Fail("event", "triggered-more-than-once", "the event changed its value %d times: %s", len(w.changes), w.fmtChanges())
	}
	w.finalChecks(final)
}
