package reactive

import (
	"fmt"
	"strings"

	rx "github.com/iotaledger/hive.go/ds/reactive"
	"verifharness/hx"
	"verifsim/simrt"
)

// C14: WaitGroup and EvictionState.

// ---------------------------------------------------------------------------------------------
// wait group
//
// Ghost state: element e is "definitely pending" from the return of an Add(e) that no Done(e) overlapped or
// followed, until the next Done(e) is invoked. The trigger must happen inside an Add or Done call, and no element
// may have been definitely pending during that whole call. At quiescence (all calls returned): an element that is
// definitely pending must be listed by PendingElements, one whose last Done was invoked after all its Adds had
// returned must not be, and if elements were added and none is pending the group must have triggered.

type wgCall struct {
	call
	elems []int
	add   bool
}

func waitGroupBody(s *simrt.Sim) {
	noDupAdd := simrt.ConfigHas("nodupadd")
	const n = 3
	var initial []int
	if s.Choose(2) == 1 {
		initial = subset(s, n, false)
	}
	wg := rx.NewWaitGroup(initial...)
	pendingSince := make([]uint64, n+1)
	doneSeq := make([]int, n+1)
	doneInFlight := make([]int, n+1)
	var calls []*wgCall
	curCall := map[*simrt.Task]*wgCall{}
	for _, e := range initial {
		pendingSince[e] = 1
	}
	if len(initial) > 0 {
		calls = append(calls, &wgCall{call: call{inv: 1, ret: 1}, elems: initial, add: true})
	}
	s.Tick()
	s.Tick()
	triggers := 0
	r := newReach(s)
	wg.OnTrigger(func() {
		triggers++
		step := s.Tick()
		dc := curCall[simrt.Current()]
		if dc != nil {
			// an Add triggers when its counter correction is the decrement that reaches zero
			r.hit("triggered-inside-add", dc.add)
			for _, o := range calls {
				r.hit("triggered-while-other-call-in-flight", o != dc && o.contains(step))
			}
		}
		if dc != nil && !dc.add {
			// "triggers when and only when its last pending element is marked done": a Done none of whose elements was
			// ever handed to an Add (invoked before this moment) has marked nothing done
			justified := false
			for _, c := range calls {
				if c.add && c.inv < step && intersects(c.elems, dc.elems) {
					justified = true
				}
			}
			if !justified {
				s.Fail("wait-group", "triggered-by-done-that-removed-nothing", "the wait group triggered at step %d inside Done%v although none of these elements was ever added", step, dc.elems)
			}
		}
		if dc == nil {
			s.Fail("wait-group", "triggered-outside-add-or-done", "the wait group triggered at step %d on a task that is not inside an Add or Done call", step)
		}
		for e := 1; e <= n; e++ {
			if pendingSince[e] != 0 && pendingSince[e] < dc.inv {
				s.Fail("wait-group", "triggered-while-element-pending", "triggered at step %d inside a call on %v invoked at %d although element %d is pending since step %d", step, dc.elems, dc.inv, e, pendingSince[e])
			}
		}
		s.Logf("TRIGGERED inside call on %v (add=%v)", dc.elems, dc.add)
	})
	s.Logf("config initial=%v nodupadd=%v", initial, noDupAdd)

	// elements not yet handed to an Add call (nodupadd)
	var fresh []int
	for e := 1; e <= n; e++ {
		if !hasInt(initial, e) {
			fresh = append(fresh, e)
		}
	}
	nadders := s.Choose(3)
	for i := 0; i < nadders; i++ {
		cnt := 1 + s.Choose(2)
		var ops [][]int
		var pres []int
		for j := 0; j < cnt; j++ {
			var es []int
			if noDupAdd {
				for len(fresh) > 0 && (len(es) == 0 || s.Choose(2) == 1) {
					es = append(es, fresh[0])
					fresh = fresh[1:]
				}
				if len(es) == 0 {
					continue
				}
			} else {
				es = subset(s, n, true)
			}
			ops = append(ops, es)
			pres = append(pres, s.Choose(4))
		}
		s.Logf("script adder%d %v", i, ops)
		s.Go(fmt.Sprintf("adder%d", i), func() {
			for j, es := range ops {
				yields(pres[j])
				c := &wgCall{elems: es, add: true}
				calls = append(calls, c)
				ok := make([]bool, n+1)
				snap := make([]int, n+1)
				for _, e := range es {
					ok[e], snap[e] = doneInFlight[e] == 0, doneSeq[e]
					r.hit("add-of-definitely-pending-element", pendingSince[e] != 0)
				}
				r.hit("add-after-group-triggered", triggers > 0)
				c.inv = s.Tick()
				s.Logf("Add%v", es)
				curCall[simrt.Current()] = c
				wg.Add(es...)
				delete(curCall, simrt.Current())
				c.ret = s.Tick()
				for _, e := range es {
					if ok[e] && doneSeq[e] == snap[e] && pendingSince[e] == 0 {
						pendingSince[e] = c.ret
					}
				}
				s.Logf("Add%v returned", es)
			}
		})
	}
	ndoners := 1 + s.Choose(3)
	for i := 0; i < ndoners; i++ {
		cnt := 1 + s.Choose(3)
		ops := make([][]int, cnt)
		pres := make([]int, cnt)
		for j := range ops {
			if s.Choose(3) == 0 {
				ops[j] = subset(s, n, true)
			} else {
				ops[j] = []int{1 + s.Choose(n)}
			}
			pres[j] = s.Choose(4)
		}
		s.Logf("script doner%d %v", i, ops)
		s.Go(fmt.Sprintf("doner%d", i), func() {
			me := simrt.Current()
			for j, es := range ops {
				yields(pres[j])
				c := &wgCall{elems: es}
				calls = append(calls, c)
				c.inv = s.Tick()
				for _, e := range es {
					pendingSince[e] = 0
					doneSeq[e]++
					doneInFlight[e]++
				}
				curCall[me] = c
				s.Logf("Done%v", es)
				wg.Done(es...)
				delete(curCall, me)
				c.ret = s.Tick()
				for _, e := range es {
					doneInFlight[e]--
				}
				s.Logf("Done%v returned", es)
			}
		})
	}
	waiterReturned := false
	hasWaiter := s.Choose(2) == 1
	if hasWaiter {
		s.Go("waiter", func() {
			wg.Wait()
			waiterReturned = true
			s.Logf("Wait returned")
		})
	}
	left := s.Quiesce()
	hx.Stuck(s, "deadlock", left, func(t simrt.TaskInfo) bool {
		// a waiter legitimately blocks as long as the group has not triggered
		return !strings.HasPrefix(t.Name, "waiter") || triggers > 0
	})
	triggered := wg.WasTriggered()
	pend := sortedInts(wg.PendingElements().ToSlice())
	s.Logf("final triggered=%v pending=%v", triggered, pend)
	for i, a := range calls {
		for _, b := range calls[i+1:] {
			if !intersects(a.elems, b.elems) || !a.overlaps(&b.call) {
				continue
			}
			r.hit("done-overlaps-add-of-same-element", a.add != b.add)
			r.hit("dones-of-same-element-overlap", !a.add && !b.add)
			r.hit("adds-of-same-element-overlap", a.add && b.add)
		}
	}
	r.hit("waiter-blocked-at-quiescence", hasWaiter && !waiterReturned)
	if waiterReturned && !triggered {
		s.Fail("wait-group", "wait-returned-without-trigger", "Wait returned but the group has not triggered")
	}
	anyAdded := false
	for e := 1; e <= n; e++ {
		var lastAddRet, lastDoneInv uint64
		added := false
		for _, c := range calls {
			if !hasInt(c.elems, e) {
				continue
			}
			if c.add {
				added = true
				if c.ret > lastAddRet {
					lastAddRet = c.ret
				}
			} else if c.inv > lastDoneInv {
				lastDoneInv = c.inv
			}
		}
		anyAdded = anyAdded || added
		// an Add and a Done of e overlapped last: neither of the two final oracles on e applies, either outcome is accepted
		r.hit("final-pending-state-of-element-left-open", added && pendingSince[e] == 0 && lastDoneInv != 0 && lastDoneInv <= lastAddRet)
		r.hit("done-of-element-never-added", !added && lastDoneInv != 0)
		if pendingSince[e] != 0 && !hasInt(pend, e) {
			s.Fail("wait-group", "pending-element-lost", "element %d was added (Add returned at step %d) and never marked done, but PendingElements = %v", e, pendingSince[e], pend)
		}
		if hasInt(pend, e) && (!added || lastDoneInv > lastAddRet) {
			s.Fail("wait-group", "done-element-still-pending", "element %d is listed as pending although its last Done (invoked at %d) came after every Add of it had returned (%d)", e, lastDoneInv, lastAddRet)
		}
	}
	if anyAdded && len(pend) == 0 && !triggered {
		s.Fail("wait-group", "all-done-but-not-triggered", "elements were added, none is pending, but the wait group has not triggered; calls: %s", fmtWgCalls(calls))
	}
	if triggers > 1 {
		s.Fail("wait-group", "triggered-twice", "OnTrigger handler ran %d times", triggers)
	}
}

func fmtWgCalls(calls []*wgCall) string {
	out := ""
	for _, c := range calls {
		k := "Done"
		if c.add {
			k = "Add"
		}
		out += fmt.Sprintf("%s%v[%d,%d] ", k, c.elems, c.inv, c.ret)
	}
	return out
}

// ---------------------------------------------------------------------------------------------
// eviction state

func evictionBody(s *simrt.Sim) {
	// the library hands out one shared, pre-triggered event for slots that are already evicted; it lives outside
	// the run (package variable), so the harness only ever reads it
	probe := rx.NewEvictionState[int]()
	probe.Evict(0)
	shared := probe.EvictionEvent(0)

	es := rx.NewEvictionState[int]()
	const slots = 6
	type handle struct {
		slot    int
		ev      rx.Event
		got     call
		fired   int
		unsub   func()
		isShare bool
	}
	var handles []*handle
	var evicted []int
	// reach probes only: the Evict calls (s.Step() stamps: the step counter is not advanced) with the slots whose
	// handlers they ran
	type evictCall struct {
		call
		slot  int
		fired []int
	}
	var evicts []*evictCall
	curEvict := map[*simrt.Task]*evictCall{}
	r := newReach(s)
	get := func(slot int) {
		h := &handle{slot: slot}
		handles = append(handles, h)
		h.got.inv = s.Tick()
		s.Logf("EvictionEvent(%d)", slot)
		h.ev = es.EvictionEvent(slot)
		h.isShare = h.ev == shared
		if !h.isShare {
			h.unsub = h.ev.OnTrigger(func() {
				h.fired++
				if ec := curEvict[simrt.Current()]; ec != nil && !hasInt(ec.fired, slot) {
					ec.fired = append(ec.fired, slot)
				}
				// the handler ran on the subscribing task: the event had been triggered before OnTrigger was called
				r.hit("slot-evicted-between-eviction-event-and-subscription", h.got.ret == 0 && curEvict[simrt.Current()] == nil)
				s.Logf("event of slot %d fired", slot)
				simrt.Yield()
			})
		}
		h.got.ret = s.Tick()
		s.Logf("EvictionEvent(%d) returned shared=%v", slot, h.isShare)
	}
	if s.Choose(3) == 1 {
		get(s.Choose(slots))
	}
	nevictors := 1 + s.Choose(2)
	for i := 0; i < nevictors; i++ {
		cnt := 1 + s.Choose(3)
		ops := make([]int, cnt)
		pres := make([]int, cnt)
		for j := range ops {
			ops[j], pres[j] = s.Choose(slots), s.Choose(4)
		}
		s.Logf("script evictor%d %v", i, ops)
		s.Go(fmt.Sprintf("evictor%d", i), func() {
			for j, slot := range ops {
				yields(pres[j])
				evicted = append(evicted, slot)
				ec := &evictCall{slot: slot}
				for _, o := range evicts {
					r.hit("evict-of-already-evicted-slot", o.ret != 0 && slot <= o.slot)
				}
				evicts = append(evicts, ec)
				curEvict[simrt.Current()] = ec
				ec.inv = s.Step()
				s.Logf("Evict(%d)", slot)
				es.Evict(slot)
				ec.ret = s.Step()
				delete(curEvict, simrt.Current())
				r.hit("evict-triggered-events-of-several-slots", len(ec.fired) >= 2)
				s.Logf("Evict(%d) returned", slot)
			}
		})
	}
	ngetters := 1 + s.Choose(3)
	for i := 0; i < ngetters; i++ {
		cnt := 1 + s.Choose(3)
		ops := make([]int, cnt)
		pres := make([]int, cnt)
		for j := range ops {
			ops[j], pres[j] = s.Choose(slots), s.Choose(4)
		}
		s.Logf("script getter%d %v", i, ops)
		s.Go(fmt.Sprintf("getter%d", i), func() {
			for j, slot := range ops {
				yields(pres[j])
				get(slot)
			}
		})
	}
	left := s.Quiesce()
	hx.Stuck(s, "deadlock", left, nil)
	for i, a := range evicts {
		for _, b := range evicts[i+1:] {
			r.hit("evict-calls-overlap", a.overlaps(&b.call))
		}
		for _, h := range handles {
			r.hit("eviction-event-requested-during-evict-covering-the-slot", h.slot <= a.slot && a.overlaps(&h.got))
		}
	}
	for i, h := range handles {
		r.hit("eviction-event-of-evicted-slot-requested", h.isShare)
		for _, o := range handles[i+1:] {
			r.hit("same-event-handed-out-twice", !h.isShare && h.ev == o.ev)
		}
	}
	last, any := 0, len(evicted) > 0
	for _, e := range evicted {
		if e > last {
			last = e
		}
	}
	if got := es.LastEvictedSlot(); got != last {
		s.Fail("eviction-state", "last-evicted-slot-wrong", "LastEvictedSlot = %d, evicted %v", got, evicted)
	}
	for _, h := range handles {
		want := any && h.slot <= last
		r.hit("event-of-slot-never-evicted", !want)
		got := h.ev.WasTriggered()
		if got != want {
			sig := "event-of-evicted-slot-not-triggered"
			if got {
				sig = "event-of-unevicted-slot-triggered"
			}
			s.Fail("eviction-state", sig, "event of slot %d (obtained [%d,%d]) triggered=%v, evicted %v", h.slot, h.got.inv, h.got.ret, got, evicted)
		}
		if !h.isShare {
			wantFired := 0
			if want {
				wantFired = 1
			}
			if h.fired != wantFired {
				s.Fail("eviction-state", "handler-count-wrong", "OnTrigger handler of the event of slot %d ran %d times, evicted %v", h.slot, h.fired, evicted)
			}
			h.unsub()
		}
	}
}
