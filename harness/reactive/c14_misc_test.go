package reactive

import (
	"fmt"
	"strings"

	rx "github.com/iotaledger/hive.go/ds/reactive"
	"verifharness/hx"
	"verifsim/simrt"
)

// C14: WaitGroup and EvictionState.

// ---------------------------------------------------------------------------------------------
// wait group
//
// Ghost state: element e is "definitely pending" from the return of an Add(e) that no Done(e) overlapped or
// followed, until the next Done(e) is invoked. The trigger must happen inside an Add or Done call, and no element
// may have been definitely pending during that whole call. At quiescence (all calls returned): an element that is
// definitely pending must be listed by PendingElements, one whose last Done was invoked after all its Adds had
// returned must not be, and if elements were added and none is pending the group must have triggered.

type wgCall struct {
	call
	elems []int
	add   bool
}

func waitGroupBody(s *simrt.Sim) {
	noDupAdd := simrt.ConfigHas("nodupadd")
	const n = 3
	var initial []int
	if s.Choose(2) == 1 {
		initial = subset(s, n, false)
	}
	wg := rx.NewWaitGroup(initial...)
	pendingSince := make([]uint64, n+1)
	doneSeq := make([]int, n+1)
	doneInFlight := make([]int, n+1)
	var calls []*wgCall
	curCall := map[*simrt.Task]*wgCall{}
	for _, e := range initial {
		pendingSince[e] = 1
	}
	if len(initial) > 0 {
		calls = append(calls, &wgCall{call: call{inv: 1, ret: 1}, elems: initial, add: true})
	}
	s.Tick()
	s.Tick()
	triggers := 0
	wg.OnTrigger(func() {
		triggers++
		step := s.Tick()
		dc := curCall[simrt.Current()]
		if dc == nil {
			s.Fail("wait-group", "triggered-outside-add-or-done", "the wait group triggered at step %d on a task that is not inside an Add or Done call", step)
		}
		for e := 1; e <= n; e++ {
			if pendingSince[e] != 0 && pendingSince[e] < dc.inv {
				s.Fail("wait-group", "triggered-while-element-pending", "triggered at step %d inside a call on %v invoked at %d although element %d is pending since step %d", step, dc.elems, dc.inv, e, pendingSince[e])
			}
		}
		s.Logf("TRIGGERED inside call on %v (add=%v)", dc.elems, dc.add)
	})
	s.Logf("config initial=%v nodupadd=%v", initial, noDupAdd)

	// elements not yet handed to an Add call (nodupadd)
	var fresh []int
	for e := 1; e <= n; e++ {
		if !hasInt(initial, e) {
			fresh = append(fresh, e)
		}
	}
	nadders := s.Choose(3)
	for i := 0; i < nadders; i++ {
		cnt := 1 + s.Choose(2)
		var ops [][]int
		var pres []int
		for j := 0; j < cnt; j++ {
			var es []int
			if noDupAdd {
				for len(fresh) > 0 && (len(es) == 0 || s.Choose(2) == 1) {
					es = append(es, fresh[0])
					fresh = fresh[1:]
				}
				if len(es) == 0 {
					continue
				}
			} else {
				es = subset(s, n, true)
			}
			ops = append(ops, es)
			pres = append(pres, s.Choose(4))
		}
		s.Logf("script adder%d %v", i, ops)
		s.Go(fmt.Sprintf("adder%d", i), func() {
			for j, es := range ops {
				yields(pres[j])
				c := &wgCall{elems: es, add: true}
				calls = append(calls, c)
				ok := make([]bool, n+1)
				snap := make([]int, n+1)
				for _, e := range es {
					ok[e], snap[e] = doneInFlight[e] == 0, doneSeq[e]
				}
				c.inv = s.Tick()
				s.Logf("Add%v", es)
				curCall[simrt.Current()] = c
				wg.Add(es...)
				delete(curCall, simrt.Current())
				c.ret = s.Tick()
				for _, e := range es {
					if ok[e] && doneSeq[e] == snap[e] && pendingSince[e] == 0 {
						pendingSince[e] = c.ret
					}
				}
				s.Logf("Add%v returned", es)
			}
		})
	}
	ndoners := 1 + s.Choose(3)
	for i := 0; i < ndoners; i++ {
		cnt := 1 + s.Choose(3)
		ops := make([][]int, cnt)
		pres := make([]int, cnt)
		for j := range ops {
			if s.Choose(3) == 0 {
				ops[j] = subset(s, n, true)
			} else {
				ops[j] = []int{1 + s.Choose(n)}
			}
			pres[j] = s.Choose(4)
		}
		s.Logf("script doner%d %v", i, ops)
		s.Go(fmt.Sprintf("doner%d", i), func() {
			me := simrt.Current()
			for j, es := range ops {
				yields(pres[j])
				c := &wgCall{elems: es}
				calls = append(calls, c)
				c.inv = s.Tick()
				for _, e := range es {
					pendingSince[e] = 0
					doneSeq[e]++
					doneInFlight[e]++
				}
				curCall[me] = c
				s.Logf("Done%v", es)
				wg.Done(es...)
				delete(curCall, me)
				c.ret = s.Tick()
				for _, e := range es {
					doneInFlight[e]--
				}
				s.Logf("Done%v returned", es)
			}
		})
	}
	waiterReturned := false
	hasWaiter := s.Choose(2) == 1
	if hasWaiter {
		s.Go("waiter", func() {
			wg.Wait()
			waiterReturned = true
			s.Logf("Wait returned")
		})
	}
	left := s.Quiesce()
	hx.Stuck(s, "deadlock", left, func(t simrt.TaskInfo) bool {
		// a waiter legitimately blocks as long as the group has not triggered
		return !strings.HasPrefix(t.Name, "waiter") || triggers > 0
	})
	triggered := wg.WasTriggered()
	pend := sortedInts(wg.PendingElements().ToSlice())
	s.Logf("final triggered=%v pending=%v", triggered, pend)
	if waiterReturned && !triggered {
		s.Fail("wait-group", "wait-returned-without-trigger", "Wait returned but the group has not triggered")
	}
	anyAdded := false
	for e := 1; e <= n; e++ {
		var lastAddRet, lastDoneInv uint64
		added := false
		for _, c := range calls {
			if !hasInt(c.elems, e) {
				continue
			}
			if c.add {
				added = true
				if c.ret > lastAddRet {
					lastAddRet = c.ret
				}
			} else if c.inv > lastDoneInv {
				lastDoneInv = c.inv
			}
		}
		anyAdded = anyAdded || added
		if pendingSince[e] != 0 && !hasInt(pend, e) {
			s.Fail("wait-group", "pending-element-lost", "element %d was added (Add returned at step %d) and never marked done, but PendingElements = %v", e, pendingSince[e], pend)
		}
		if hasInt(pend, e) && (!added || lastDoneInv > lastAddRet) {
			s.Fail("wait-group", "done-element-still-pending", "element %d is listed as pending although its last Done (invoked at %d) came after every Add of it had returned (%d)", e, lastDoneInv, lastAddRet)
		}
	}
	if anyAdded && len(pend) == 0 && !triggered {
		s.Fail("wait-group", "all-done-but-not-triggered", "elements were added, none is pending, but the wait group has not triggered; calls: %s", fmtWgCalls(calls))
	}
	if triggers > 1 {
		s.Fail("wait-group", "triggered-twice", "OnTrigger handler ran %d times", triggers)
	}
}

func fmtWgCalls(calls []*wgCall) string {
	out := ""
	for _, c := range calls {
		k := "Done"
		if c.add {
			k = "Add"
		}
		out += fmt.Sprintf("%s%v[%d,%d] ", k, c.elems, c.inv, c.ret)
	}
	return out
}

// ---------------------------------------------------------------------------------------------
// eviction state

func evictionBody(s *simrt.Sim) {
	// the library hands out one shared, pre-triggered event for slots that are already evicted; it lives outside
	// the run (package variable), so the harness only ever reads it
	probe := rx.NewEvictionState[int]()
	probe.Evict(0)
	shared := probe.EvictionEvent(0)

	es := rx.NewEvictionState[int]()
	const slots = 6
	type handle struct {
		slot    int
		ev      rx.Event
		got     call
		fired   int
		unsub   func()
		isShare bool
	}
	var handles []*handle
	var evicted []int
	get := func(slot int) {
		h := &handle{slot: slot}
		handles = append(handles, h)
		h.got.inv = s.Tick()
		s.Logf("EvictionEvent(%d)", slot)
		h.ev = es.EvictionEvent(slot)
		h.isShare = h.ev == shared
		if !h.isShare {
			h.unsub = h.ev.OnTrigger(func() {
				h.fired++
				s.Logf("event of slot %d fired", slot)
				simrt.Yield()
			})
		}
		h.got.ret = s.Tick()
		s.Logf("EvictionEvent(%d) returned shared=%v", slot, h.isShare)
	}
	if s.Choose(3) == 1 {
		get(s.Choose(slots))
	}
	nevictors := 1 + s.Choose(2)
	for i := 0; i < nevictors; i++ {
		cnt := 1 + s.Choose(3)
		ops := make([]int, cnt)
		pres := make([]int, cnt)
		for j := range ops {
			ops[j], pres[j] = s.Choose(slots), s.Choose(4)
		}
		s.Logf("script evictor%d %v", i, ops)
		s.Go(fmt.Sprintf("evictor%d", i), func() {
			for j, slot := range ops {
				yields(pres[j])
				evicted = append(evicted, slot)
				s.Logf("Evict(%d)", slot)
				es.Evict(slot)
				s.Logf("Evict(%d) returned", slot)
			}
		})
	}
	ngetters := 1 + s.Choose(3)
	for i := 0; i < ngetters; i++ {
		cnt := 1 + s.Choose(3)
		ops := make([]int, cnt)
		pres := make([]int, cnt)
		for j := range ops {
			ops[j], pres[j] = s.Choose(slots), s.Choose(4)
		}
		s.Logf("script getter%d %v", i, ops)
		s.Go(fmt.Sprintf("getter%d", i), func() {
			for j, slot := range ops {
				yields(pres[j])
				get(slot)
			}
		})
	}
	left := s.Quiesce()
	hx.Stuck(s, "deadlock", left, nil)
	last, any := 0, len(evicted) > 0
	for _, e := range evicted {
		if e > last {
			last = e
		}
	}
	if got := es.LastEvictedSlot(); got != last {
		s.Fail("eviction-state", "last-evicted-slot-wrong", "LastEvictedSlot = %d, evicted %v", got, evicted)
	}
	for _, h := range handles {
		want := any && h.slot <= last
		got := h.ev.WasTriggered()
		if got != want {
			sig := "event-of-evicted-slot-not-triggered"
			if got {
				sig = "event-of-unevicted-slot-triggered"
			}
			s.Fail("eviction-state", sig, "event of slot %d (obtained [%d,%d]) triggered=%v, evicted %v", h.slot, h.got.inv, h.got.ret, got, evicted)
		}
		if !h.isShare {
			wantFired := 0
			if want {
				wantFired = 1
			}
			if h.fired != wantFired {
				s.Fail("eviction-state", "handler-count-wrong", "OnTrigger handler of the event of slot %d ran %d times, evicted %v", h.slot, h.fired, evicted)
			}
			h.unsub()
		}
	}
}
