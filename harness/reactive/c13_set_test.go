package reactive

import (
	"fmt"
	"strings"

	"github.com/iotaledger/hive.go/ds"
	rx "github.com/iotaledger/hive.go/ds/reactive"
	"verifharness/hx"
	"verifsim/simrt"
)

// C13 on reactive.Set[int]. Same construction as for variables: a reference subscription registered first numbers
// the updates; inside its callback (the writer still holds the set's write mutex, so no other writer can interfere)
// it also reads the true contents of the set, which gives the sequence of states every other oracle compares with.

const setUniverse = 4

type swrite struct {
	task     *simrt.Task
	desc     string
	inv, ret uint64
	ord      int
	add, del []int // as reported to the reference subscription
	state    []int // true contents after the update (sorted)
	refEnter uint64
	// what the read-only view oracle of the utility harness needs to know about the call: elements the call both adds
	// and deletes (present for a moment even if absent before and after), and whether it is a Replace (which clears
	// the set before it fills it again: retained elements are absent for a moment)
	transient []int
	replace   bool
}

type scb struct {
	enter, exit uint64
	add, del    []int
	initial     bool
	wr          *swrite
}

type ssub struct {
	name               string
	kind               string
	trigger            bool
	yields             int
	task               *simrt.Task
	subInv, subRet     uint64
	unsubInv, unsubRet uint64
	cbs                []*scb
	active             *scb
	unsub              func()
	ref                bool
}

type sworld struct {
	s       *simrt.Sim
	set     rx.Set[int]
	init    []int
	subs    []*ssub
	cur     map[*simrt.Task]*swrite
	changes []*swrite
	writes  []*swrite // all write calls, also those that changed nothing (reach probes only)
	r       *reach
}

func mutSlices(m ds.SetMutations[int]) (add, del []int) {
	return sortedInts(m.AddedElements().ToSlice()), sortedInts(m.DeletedElements().ToSlice())
}

func (w *sworld) callback(sub *ssub) func(m ds.SetMutations[int]) {
	return func(m ds.SetMutations[int]) {
		s := w.s
		me := simrt.Current()
		e := &scb{enter: s.Tick()}
		e.add, e.del = mutSlices(m)
		if sub.subRet == 0 && me == sub.task {
			e.initial = true
		} else {
			e.wr = w.cur[me]
		}
		s.Logf("cb %s %s enter +%s -%s", sub.name, cbKind(e.initial), fmtInts(e.add), fmtInts(e.del))
		if sub.active != nil {
			s.Fail("exclusive", "callbacks-overlap:"+cbKind(sub.active.initial)+"+"+cbKind(e.initial),
				"%s (%s): callback +%v -%v entered at step %d while the callback entered at %d has not finished", sub.name, sub.kind, e.add, e.del, e.enter, sub.active.enter)
		}
		if sub.unsubRet != 0 {
			s.Fail("unsubscribe", "callback-started-after-unsubscribe-returned:"+cbKind(e.initial),
				"%s (%s): callback +%v -%v started at step %d, unsubscribe call [%d,%d] had returned", sub.name, sub.kind, e.add, e.del, e.enter, sub.unsubInv, sub.unsubRet)
		}
		if !e.initial && e.wr == nil {
			s.Fail("exactly-once", "callback-outside-any-write", "%s: callback +%v -%v ran on a task that is not inside a write call", sub.name, e.add, e.del)
		}
		sub.active = e
		sub.cbs = append(sub.cbs, e)
		if sub.ref && e.wr != nil {
			wr := e.wr
			if wr.ord >= 0 {
				s.Fail("exactly-once", "change-delivered-twice", "reference subscription: write %s delivered twice", wr.desc)
			}
			wr.ord, wr.add, wr.del, wr.refEnter = len(w.changes), e.add, e.del, e.enter
			wr.state = sortedInts(w.set.ToSlice())
			w.changes = append(w.changes, wr)
		}
		yields(sub.yields)
		e.exit = s.Tick()
		sub.active = nil
		s.Logf("cb %s exit", sub.name)
	}
}

func (w *sworld) subscribe(sub *ssub) {
	sub.task = simrt.Current()
	w.subs = append(w.subs, sub)
	sub.subInv = w.s.Tick()
	w.s.Logf("subscribe %s %s", sub.name, sub.kind)
	var u func()
	if sub.trigger {
		u = w.set.OnUpdate(w.callback(sub), true)
	} else {
		u = w.set.OnUpdate(w.callback(sub))
	}
	sub.subRet = w.s.Tick()
	sub.unsub = u
	w.s.Logf("subscribed %s", sub.name)
}

func (w *sworld) unsubscribe(sub *ssub) {
	sub.unsubInv = w.s.Tick()
	w.s.Logf("unsubscribe %s", sub.name)
	sub.unsub()
	sub.unsubRet = w.s.Tick()
	w.s.Logf("unsubscribed %s", sub.name)
}

func (w *sworld) write(desc string, f func()) { w.writeX(desc, nil, false, f) }

func (w *sworld) writeX(desc string, transient []int, replace bool, f func()) {
	me := simrt.Current()
	wr := &swrite{task: me, desc: desc, ord: -1, transient: transient, replace: replace}
	w.writes = append(w.writes, wr)
	w.cur[me] = wr
	wr.inv = w.s.Tick()
	w.s.Logf("%s", desc)
	f()
	wr.ret = w.s.Tick()
	delete(w.cur, me)
	w.s.Logf("%s returned", desc)
}

// stateBefore returns the true contents before update k (k == len(changes): the final contents).
func (w *sworld) stateBefore(k int) []int {
	if k == 0 {
		return w.init
	}
	return w.changes[k-1].state
}

// possiblyCurrent returns the indexes k such that the state before update k equals val and may have been the
// contents at some instant of [from,to].
func (w *sworld) possiblyCurrent(val []int, from, to uint64) (ks []int) {
	for k := 0; k <= len(w.changes); k++ {
		start, end := uint64(0), ^uint64(0)
		if k > 0 {
			start = w.changes[k-1].inv
		}
		if k < len(w.changes) {
			end = w.changes[k].refEnter
		}
		if eqInts(w.stateBefore(k), val) && start <= to && end >= from {
			ks = append(ks, k)
		}
	}
	return ks
}

// reachProbes counts (once per run) the situations the C13 oracles quantify over, from the recorded stamps only.
func (w *sworld) reachProbes() {
	r := w.r
	for i, a := range w.writes {
		r.hit("write-without-change", a.ret != 0 && a.ord < 0)
		for _, b := range w.writes[i+1:] {
			r.hit("writers-overlap", a.task != b.task && stampsOverlap(a.inv, a.ret, b.inv, b.ret))
		}
	}
	for k, c := range w.changes {
		if strings.HasPrefix(c.desc, "Replace") {
			old := w.stateBefore(k)
			r.hit("replace-keeps-some-elements-and-changes-others", intersects(old, c.state) && !eqInts(old, c.state))
		}
	}
	for _, sub := range w.subs {
		for _, e := range sub.cbs {
			for _, b := range w.writes {
				r.hit("callback-started-while-other-write-in-flight", e.wr != nil && b != e.wr && b.inv < e.enter && e.enter < (&call{b.inv, b.ret}).retOrInf())
			}
		}
		if sub.ref {
			continue
		}
		for _, wr := range w.writes {
			r.hit("subscribe-overlaps-write", stampsOverlap(sub.subInv, sub.subRet, wr.inv, wr.ret))
			r.hit("unsubscribe-overlaps-write", sub.unsubInv != 0 && stampsOverlap(sub.unsubInv, sub.unsubRet, wr.inv, wr.ret))
		}
		r.hit("subscriber-got-initial-state-only", len(sub.cbs) == 1 && sub.cbs[0].initial)
		delivered := map[*swrite]bool{}
		for _, e := range sub.cbs {
			if e.initial {
				continue
			}
			delivered[e.wr] = true
			r.hit("callback-started-after-unsubscribe-invoked", sub.unsubInv != 0 && e.enter > sub.unsubInv)
		}
		// an update racing with the subscription call is either delivered or already part of the state the subscription
		// starts from: the oracles accept both
		for _, c := range w.changes {
			if stampsOverlap(sub.subInv, sub.subRet, c.inv, c.ret) {
				r.hit("update-during-subscribe-delivered-as-update", delivered[c])
				r.hit("update-during-subscribe-part-of-initial-state", !delivered[c] && (sub.unsubInv == 0 || c.ret < sub.unsubInv))
			}
		}
	}
}

func (w *sworld) fmtChanges() string {
	out := fmt.Sprintf("init %s", fmtInts(w.init))
	for _, c := range w.changes {
		out += fmt.Sprintf(" [%s: +%s -%s => %s, inv %d ref %d]", c.desc, fmtInts(c.add), fmtInts(c.del), fmtInts(c.state), c.inv, c.refEnter)
	}
	return out
}

func fmtSCbs(l []*scb) string {
	out := ""
	for _, e := range l {
		out += fmt.Sprintf("(+%s -%s @%d-%d %s)", fmtInts(e.add), fmtInts(e.del), e.enter, e.exit, cbKind(e.initial))
	}
	return out
}

func (w *sworld) finalChecks(final []int) {
	s := w.s
	if n := len(w.changes); !eqInts(w.stateBefore(n), final) {
		s.Fail("final", "contents-changed-without-update", "final contents %v differ from the contents after the last update %v", final, w.stateBefore(n))
	}
	type foldFail struct {
		sub     *ssub
		e       *scb
		got     []int
		want    []int
		overlap bool
	}
	var ff, xf *foldFail
	for _, sub := range w.subs {
		if sub.subRet == 0 {
			continue
		}
		upds := sub.cbs
		var base []int
		hasInitial := len(upds) > 0 && upds[0].initial
		upper := sub.subRet
		if hasInitial {
			ini := upds[0]
			upds = upds[1:]
			upper = ini.enter
			if len(ini.del) != 0 {
				s.Fail("initial", "initial-callback-reports-deletions", "%s: initial callback reported deleted elements %v", sub.name, ini.del)
			}
			base = ini.add
			if len(base) == 0 && !sub.trigger {
				s.Fail("initial", "empty-state-delivered-without-option", "%s (%s): initial callback with empty mutations although the option was not set", sub.name, sub.kind)
			}
		} else if sub.trigger {
			s.Fail("initial", "missing-with-trigger-option", "%s (%s): no initial callback", sub.name, sub.kind)
		}
		starts := w.possiblyCurrent(base, sub.subInv, upper)
		w.r.hit("subscription-start-state-matches-several-updates", !sub.ref && len(starts) > 1)
		if len(starts) == 0 {
			sig := "state-at-subscription-not-delivered"
			if hasInitial {
				sig = "delivered-state-not-current-at-subscription"
			}
			s.Fail("initial", sig, "%s (%s): subscription call [%d,%d] started from %v (initial callback: %v), which the set did not contain during the call; %s",
				sub.name, sub.kind, sub.subInv, sub.subRet, base, hasInitial, w.fmtChanges())
		}
		next := -1
		seen := map[*swrite]int{}
		for i, e := range upds {
			if e.initial {
				s.Fail("initial", "initial-callback-not-first", "%s: initial callback ran after an update callback", sub.name)
			}
			if e.wr.ord < 0 || !eqInts(e.add, e.wr.add) || !eqInts(e.del, e.wr.del) {
				s.Fail("chain", "callback-differs-from-change", "%s: callback +%v -%v ran under %s whose update was +%v -%v (ord %d)", sub.name, e.add, e.del, e.wr.desc, e.wr.add, e.wr.del, e.wr.ord)
			}
			seen[e.wr]++
			if seen[e.wr] > 1 {
				s.Fail("exactly-once", "change-delivered-twice", "%s: update %s delivered twice; log %s", sub.name, e.wr.desc, fmtSCbs(sub.cbs))
			}
			if i == 0 {
				if !hasInt(starts, e.wr.ord) {
					s.Fail("chain", "first-update-does-not-follow-subscription-state", "%s (%s): first update %s (ord %d) does not follow the state %v the subscription started from; log %s; %s",
						sub.name, sub.kind, e.wr.desc, e.wr.ord, base, fmtSCbs(sub.cbs), w.fmtChanges())
				}
			} else if e.wr.ord != next {
				s.Fail("chain", "updates-not-consecutive", "%s (%s): update %s (ord %d) delivered where ord %d was due; log %s; %s", sub.name, sub.kind, e.wr.desc, e.wr.ord, next, fmtSCbs(sub.cbs), w.fmtChanges())
			}
			next = e.wr.ord + 1
		}
		for _, c := range w.changes {
			if c.inv > sub.subRet && (sub.unsubInv == 0 || c.ret < sub.unsubInv) && seen[c] == 0 {
				s.Fail("exactly-once", "change-missed", "%s (%s, subscribed [%d,%d], unsubscribe invoked %d): update %s [%d,%d] was never delivered",
					sub.name, sub.kind, sub.subInv, sub.subRet, sub.unsubInv, c.desc, c.inv, c.ret)
			}
		}
		if sub.unsubInv == 0 {
			if len(upds) == 0 && !hasInt(starts, len(w.changes)) || len(upds) > 0 && next != len(w.changes) {
				s.Fail("final", "last-update-not-delivered", "%s (%s): still subscribed, but its log %s does not end with the last update; %s", sub.name, sub.kind, fmtSCbs(sub.cbs), w.fmtChanges())
			}
		}
		// folding (library's own Apply: adds, then deletes) must reproduce the contents after every delivered update,
		// and every reported element must be an actual change of the folded view (exactly once: no element reported
		// as added while present, or as deleted while absent)
		if ff == nil {
			fold, alt := ds.NewSet[int](), ds.NewSet[int]()
			for _, e := range sub.cbs {
				applied := fold.Apply(ds.NewSetMutations(e.add...).WithDeletedElements(ds.NewSet(e.del...)))
				// alternative reading (deletes, then adds) - used only to attribute a mismatch
				alt.DeleteAll(ds.NewSet(e.del...))
				alt.AddAll(ds.NewSet(e.add...))
				want := base
				if !e.initial {
					want = e.wr.state
				}
				got := sortedInts(fold.ToSlice())
				if !eqInts(got, want) {
					ff = &foldFail{sub: sub, e: e, got: got, want: want, overlap: intersects(e.add, e.del) && eqInts(sortedInts(alt.ToSlice()), want)}
					break
				}
				if aa, ad := mutSlices(applied); xf == nil && (!eqInts(aa, e.add) || !eqInts(ad, e.del)) {
					xf = &foldFail{sub: sub, e: e, got: got, want: aa, overlap: !eqInts(aa, e.add)}
				}
			}
		}
	}
	desc := func(f *foldFail) string {
		if f.e.wr != nil {
			return f.e.wr.desc
		}
		return "initial"
	}
	if ff != nil {
		sig := "contents-mismatch"
		if ff.overlap {
			sig += ":elements-reported-both-added-and-deleted"
		}
		s.Fail("fold", sig, "%s (%s): folding the reported mutations up to +%v -%v (%s) gives %v, the set contained %v; log %s; %s",
			ff.sub.name, ff.sub.kind, ff.e.add, ff.e.del, desc(ff), ff.got, ff.want, fmtSCbs(ff.sub.cbs), w.fmtChanges())
	}
	if xf != nil {
		sig := "absent-element-reported-as-deleted"
		if xf.overlap {
			sig = "present-element-reported-as-added"
		}
		s.Fail("exactly-once", sig, "%s (%s): callback +%v -%v (%s) reports a change that did not happen (elements it had already reported as added, or never reported); log %s; %s",
			xf.sub.name, xf.sub.kind, xf.e.add, xf.e.del, desc(xf), fmtSCbs(xf.sub.cbs), w.fmtChanges())
	}
}

// spawnSetWriters draws the scripts of 1..3 writer tasks and spawns them.
func spawnSetWriters(s *simrt.Sim, w *sworld, noReplace bool) {
	set := w.set
	nwriters := 1 + s.Choose(3)
	for i := 0; i < nwriters; i++ {
		n := 1 + s.Choose(4)
		type op struct {
			kind, pre int
			a, b      []int
		}
		ops := make([]op, n)
		for j := range ops {
			k := 0
			if noReplace {
				k = s.Weighted(4, 3, 2, 2, 2, 1)
			} else {
				k = s.Weighted(4, 3, 2, 2, 2, 1, 3)
			}
			o := op{kind: k, pre: s.Choose(3)}
			switch k {
			case 0, 1:
				o.a = []int{1 + s.Choose(setUniverse)}
			case 2, 3:
				o.a = subset(s, setUniverse, true)
			case 4, 5:
				o.a, o.b = subset(s, setUniverse, false), subset(s, setUniverse, false)
			case 6:
				o.a = subset(s, setUniverse, false)
			}
			ops[j] = o
		}
		s.Logf("script writer%d %+v", i, ops)
		s.Go(fmt.Sprintf("writer%d", i), func() {
			for _, o := range ops {
				yields(o.pre)
				switch o.kind {
				case 0:
					w.write(fmt.Sprintf("Add(%d)", o.a[0]), func() { set.Add(o.a[0]) })
				case 1:
					w.write(fmt.Sprintf("Delete(%d)", o.a[0]), func() { set.Delete(o.a[0]) })
				case 2:
					w.write("AddAll"+fmtInts(o.a), func() { set.AddAll(ds.NewSet(o.a...)) })
				case 3:
					w.write("DeleteAll"+fmtInts(o.a), func() { set.DeleteAll(ds.NewSet(o.a...)) })
				case 4:
					w.r.hit("mutation-adds-and-deletes-same-element", intersects(o.a, o.b))
					w.writeX("Apply(+"+fmtInts(o.a)+" -"+fmtInts(o.b)+")", both(o.a, o.b), false, func() {
						set.Apply(ds.NewSetMutations(o.a...).WithDeletedElements(ds.NewSet(o.b...)))
					})
				case 5:
					w.r.hit("mutation-adds-and-deletes-same-element", intersects(o.a, o.b))
					w.writeX("Compute(+"+fmtInts(o.a)+" -"+fmtInts(o.b)+")", both(o.a, o.b), false, func() {
						set.Compute(func(ds.ReadableSet[int]) ds.SetMutations[int] {
							simrt.Yield()
							return ds.NewSetMutations(o.a...).WithDeletedElements(ds.NewSet(o.b...))
						})
					})
				case 6:
					w.writeX("Replace"+fmtInts(o.a), nil, true, func() { set.Replace(ds.NewSet(o.a...)) })
				}
			}
		})
	}
}

func setBody(s *simrt.Sim) {
	noReplace := simrt.ConfigHas("noreplace")
	init := []int{}
	if s.Choose(2) == 1 {
		init = subset(s, setUniverse, false)
	}
	w := &sworld{s: s, set: rx.NewSet(init...), init: sortedInts(init), cur: map[*simrt.Task]*swrite{}, r: newReach(s)}
	s.Logf("config init=%s noreplace=%v", fmtInts(init), noReplace)
	ref := &ssub{name: "ref", kind: "OnUpdate", ref: true}
	w.subscribe(ref)
	set := w.set
	spawnSetWriters(s, w, noReplace)
	nsubs := 1 + s.Choose(3)
	for i := 0; i < nsubs; i++ {
		script := drawSubscriptions(s, 2)
		s.Logf("script subscriber%d %+v", i, script)
		s.Go(fmt.Sprintf("subscriber%d", i), func() {
			for j, sc := range script {
				yields(sc.delay)
				sub := &ssub{name: fmt.Sprintf("s%d.%d", i, j), kind: []string{"OnUpdate", "OnUpdate(true)"}[sc.kind], trigger: sc.kind == 1, yields: sc.cbYields}
				w.subscribe(sub)
				switch sc.unsubMode {
				case 1:
					yields(sc.unsubWait)
					w.unsubscribe(sub)
				case 2:
					s.Go(fmt.Sprintf("unsubscriber%d", i), func() {
						yields(sc.unsubWait)
						w.unsubscribe(sub)
					})
				}
			}
		})
	}
	left := s.Quiesce()
	hx.Stuck(s, "deadlock", left, nil)
	final := sortedInts(set.ToSlice())
	s.Logf("final %s", fmtInts(final))
	w.reachProbes()
	w.finalChecks(final)
}
