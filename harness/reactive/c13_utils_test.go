package reactive

import (
	"fmt"

	rx "github.com/iotaledger/hive.go/ds/reactive"
	"verifharness/hx"
	"verifsim/simrt"
)

// C13 on the subscription utilities of Variable[T] that are built on OnUpdate: OnUpdateOnce, OnUpdateWithContext,
// WithValue, WithNonEmptyValue; plus ToggleValue (a Set and a reset to the zero value) and Read.
//
// The construction is the one of the variable harness: a reference subscription registered first numbers the
// changes. What the utilities owe their user follows from C13 for the OnUpdate subscription they wrap:
//
//	OnUpdateOnce         the callback runs at most once, for the first transition the subscription observes that
//	                     satisfies the condition (the state at subscription time counts as the transition zero->state
//	                     if the state is not the zero value); it runs if such a transition exists; it does not start
//	                     after the returned unsubscribe function has returned
//	OnUpdateWithContext  its callback is an OnUpdate callback (all oracles of the variable harness apply); what
//	                     withinContext sets up lives until the next callback or until the returned function is called
//	WithValue(cond)      a setup per observed value that satisfies the condition, torn down by the next change (or by
//	WithNonEmptyValue    the returned function): at any time at most one setup is active, at quiescence it is the one
//	                     of the final value, after the returned function has returned none is
//
// A "setup" is active from the call of the setup function until the call of the teardown function it returned.

type usetup struct {
	value       int
	gen         int // the callback of the subscription that made the setup
	enter, exit uint64
	initial     bool
	wr          *vwrite[int]
	tds         int // calls of the teardown function
	tdEnter     uint64
	tdWr        *vwrite[int]
	tdTask      *simrt.Task
}

type oncecb struct {
	enter, exit uint64
	old, new    int
	wr          *vwrite[int]
	duringSub   bool // ran on the subscribing task before OnUpdateOnce returned
}

const (
	modeOnce = iota
	modeContext
	modeWithValue
)

type usub struct {
	*vsub[int]
	mode      int
	method    string // name of the library method, part of the signatures
	cond      func(int) bool
	cond2     func(old, new int) bool
	nsetups   int // withinContext calls per callback (OnUpdateWithContext)
	gen       int
	setups    []*usetup
	once      []*oncecb
	unsubTask *simrt.Task
}

type vread struct {
	inv, at, exit, ret uint64
	val                int
}

type uworld struct {
	s     *simrt.Sim
	w     *vworld[int]
	subs  []*usub
	reads []*vread
	wants map[*vwrite[int]]int // value a ToggleValue / reset call has to leave behind
	r     *reach
}

var valueConds = []struct {
	name string
	f    func(int) bool
}{
	{"", func(int) bool { return true }},
	{"even", func(v int) bool { return v%2 == 0 }}, // the zero value satisfies it
	{">=20", func(v int) bool { return v >= 20 }},
	{"odd", func(v int) bool { return v%2 == 1 }},
}

var transitionConds = []struct {
	name string
	f    func(old, new int) bool
}{
	{"", func(int, int) bool { return true }},
	{"new-even", func(_, n int) bool { return n%2 == 0 }},
	{"old-nonzero", func(o, _ int) bool { return o != 0 }}, // never satisfied by the state at subscription time
	{"new-zero", func(_, n int) bool { return n == 0 }},
	{"new>=20", func(_, n int) bool { return n >= 20 }},
}

// state returns the value of state k (k=0 the zero value, k>0 the value after change k-1) and the window in which
// it was current: from somewhere in [start, ...] to somewhere in [..., end].
func (w *vworld[T]) state(k int) (v T, start, end uint64) {
	end = ^uint64(0)
	if k > 0 {
		v, start = w.changes[k-1].new, w.changes[k-1].inv
	}
	if k < len(w.changes) {
		end = w.changes[k].refEnter
	}
	return v, start, end
}

// subscribe performs one subscription call of a utility on the calling task. Only OnUpdateWithContext subscriptions
// are registered with the variable world (their callbacks are judged like OnUpdate callbacks).
func (u *uworld) subscribe(sub *usub, do func() func()) {
	s := u.s
	sub.task = simrt.Current()
	u.subs = append(u.subs, sub)
	if sub.mode == modeContext {
		u.w.subs = append(u.w.subs, sub.vsub)
	}
	sub.subInv = s.Tick()
	s.Logf("subscribe %s %s", sub.name, sub.kind)
	un := do()
	sub.subRet = s.Tick()
	sub.unsub = un
	s.Logf("subscribed %s", sub.name)
}

func (u *uworld) unsubscribe(sub *usub) {
	sub.unsubTask = simrt.Current()
	u.w.unsubscribe(sub.vsub)
}

// setup is the setup function handed to WithValue / WithNonEmptyValue / withinContext.
func (u *uworld) setup(sub *usub, gen, value int) func() {
	s := u.s
	me := simrt.Current()
	st := &usetup{value: value, gen: gen, enter: s.Tick()}
	if sub.subRet == 0 && me == sub.task {
		st.initial = true
	} else {
		st.wr = u.w.authorOf(me, value)
	}
	s.Logf("setup %s %s value=%d", sub.name, cbKind(st.initial), value)
	if sub.unsubRet != 0 {
		s.Fail("setup-teardown", "setup-after-returned-teardown-function-returned:"+sub.method,
			"%s (%s): setup(%d) at step %d, the call of the returned function [%d,%d] had returned", sub.name, sub.kind, value, st.enter, sub.unsubInv, sub.unsubRet)
	}
	if !st.initial && st.wr == nil {
		s.Fail("setup-teardown", "setup-outside-any-write:"+sub.method, "%s (%s): setup(%d) ran on a task that is not inside a write call", sub.name, sub.kind, value)
	}
	if !sub.cond(value) {
		s.Fail("setup-teardown", "setup-for-value-not-satisfying-condition:"+sub.method, "%s (%s): setup(%d)", sub.name, sub.kind, value)
	}
	for _, o := range sub.setups {
		if o.tds == 0 && o.gen != gen {
			s.Fail("setup-teardown", "setup-while-setup-of-previous-value-active:"+sub.method,
				"%s (%s): setup(%d) at step %d while the setup for %d (step %d) has not been torn down", sub.name, sub.kind, value, st.enter, o.value, o.enter)
		}
	}
	sub.setups = append(sub.setups, st)
	simrt.Yield()
	st.exit = s.Tick()
	return func() {
		t := simrt.Current()
		step := s.Tick()
		s.Logf("teardown %s value=%d", sub.name, value)
		if st.tds > 0 {
			s.Fail("setup-teardown", "teardown-called-twice:"+sub.method, "%s (%s): teardown of setup(%d) called at step %d and again at %d", sub.name, sub.kind, value, st.tdEnter, step)
		}
		if st.exit == 0 {
			s.Fail("setup-teardown", "teardown-before-setup-returned:"+sub.method, "%s (%s): teardown of setup(%d) called while the setup function is running", sub.name, sub.kind, value)
		}
		st.tds++
		st.tdEnter, st.tdWr, st.tdTask = step, u.w.cur[t], t
		simrt.Yield()
		s.Tick()
	}
}

// onceCallback is the callback handed to OnUpdateOnce.
func (u *uworld) onceCallback(sub *usub) func(old, new int) {
	return func(old, new int) {
		s := u.s
		me := simrt.Current()
		e := &oncecb{enter: s.Tick(), old: old, new: new}
		if sub.subRet == 0 && me == sub.task {
			e.duringSub = true
		} else {
			e.wr = u.w.authorOf(me, new)
		}
		s.Logf("once %s enter old=%d new=%d duringSubscribe=%v", sub.name, old, new, e.duringSub)
		if len(sub.once) > 0 {
			s.Fail("once", "callback-ran-more-than-once", "%s (%s): callback (%d->%d) at step %d, it had already run for (%d->%d) at step %d", sub.name, sub.kind, old, new, e.enter, sub.once[0].old, sub.once[0].new, sub.once[0].enter)
		}
		if sub.unsubRet != 0 {
			s.Fail("unsubscribe", "callback-started-after-unsubscribe-returned:once", "%s (%s): callback (%d->%d) started at step %d, unsubscribe call [%d,%d] had returned", sub.name, sub.kind, old, new, e.enter, sub.unsubInv, sub.unsubRet)
		}
		if !sub.cond2(old, new) {
			s.Fail("once", "callback-for-transition-not-satisfying-condition", "%s (%s): callback (%d->%d)", sub.name, sub.kind, old, new)
		}
		if !e.duringSub && e.wr == nil {
			s.Fail("once", "callback-outside-any-write", "%s (%s): callback (%d->%d) ran on a task that is neither inside a write call nor inside the subscribing call", sub.name, sub.kind, old, new)
		}
		sub.once = append(sub.once, e)
		yields(sub.yields)
		e.exit = s.Tick()
		s.Logf("once %s exit", sub.name)
	}
}

// mustDeliver: a subscription that observes change c's predecessor state must be told about c.
func (sub *usub) mustDeliver(c *vwrite[int]) bool {
	return sub.unsubInv == 0 || c.ret != 0 && c.ret < sub.unsubInv
}

// checkOnce judges one OnUpdateOnce subscription at quiescence. A "start" is a state k the subscription may have
// started from (current at some instant of the subscribing call); the subscription then observes the transition
// zero->state k (if state k is not the zero value) followed by the changes k, k+1, ...
func (u *uworld) checkOnce(sub *usub) {
	w := u.w
	var starts []int
	for k := 0; k <= len(w.changes); k++ {
		if _, start, end := w.state(k); start <= sub.subRet && end >= sub.subInv {
			starts = append(starts, k)
		}
	}
	initialQualifies := func(k int) bool {
		v, _, _ := w.state(k)
		return v != 0 && sub.cond2(0, v)
	}
	// firstQualifying returns the first transition a subscription starting at state k observes that satisfies the
	// condition: -1 the state at subscription time, j >= k change j, len(changes) none; must: ... and the library has
	// to deliver it whatever the timing of the unsubscribe call
	firstQualifying := func(k int) (idx int, must bool) {
		if initialQualifies(k) {
			return -1, true
		}
		must = true
		for j := k; j < len(w.changes); j++ {
			c := w.changes[j]
			must = must && sub.mustDeliver(c)
			if sub.cond2(c.prev, c.new) {
				return j, must
			}
		}
		return len(w.changes), false
	}
	if len(sub.once) == 0 {
		for _, k := range starts {
			if _, must := firstQualifying(k); !must {
				u.r.hit("once-never-fired", true)
				return
			}
		}
		w.attrFail("once", "callback-never-ran-despite-qualifying-transition", "%s (%s, subscribed [%d,%d], unsubscribe invoked %d): no callback; possible start states %v; changes: %s",
			sub.name, sub.kind, sub.subInv, sub.subRet, sub.unsubInv, starts, w.fmtChanges())
	}
	e := sub.once[0]
	if e.wr != nil && (e.wr.ord < 0 || e.wr.prev != e.old || e.wr.new != e.new) {
		w.attrFail("once", "callback-differs-from-change", "%s (%s): callback (%d->%d) ran under %s whose change was (%d->%d, ord %d)", sub.name, sub.kind, e.old, e.new, e.wr.desc, e.wr.prev, e.wr.new, e.wr.ord)
	}
	happened := false
	for _, k := range starts {
		idx, _ := firstQualifying(k)
		switch {
		case idx == -1:
			// the state at subscription time: delivered inside the subscribing call
			v, _, _ := w.state(k)
			happened = happened || e.duringSub && e.old == 0 && e.new == v
			if e.duringSub && e.old == 0 && e.new == v {
				u.r.hit("once-fired-for-state-at-subscription", true)
				return
			}
		case idx < len(w.changes):
			c := w.changes[idx]
			if (e.wr == c || e.duringSub && c.inv < e.enter) && c.prev == e.old && c.new == e.new {
				u.r.hit("once-fired-for-change-racing-with-subscribe", e.duringSub)
				u.r.hit("once-fired-after-skipping-non-qualifying-changes", idx > k)
				return
			}
		}
	}
	for _, c := range w.changes {
		happened = happened || c.prev == e.old && c.new == e.new
	}
	sig := "callback-not-for-first-qualifying-transition"
	if !happened {
		sig = "callback-reports-transition-that-did-not-happen"
	}
	w.attrFail("once", sig, "%s (%s, subscribed [%d,%d]): callback (%d->%d) at step %d (during subscribe: %v); possible start states %v; changes: %s",
		sub.name, sub.kind, sub.subInv, sub.subRet, e.old, e.new, e.enter, e.duringSub, starts, w.fmtChanges())
}

// checkSetups judges the setups of one OnUpdateWithContext / WithValue / WithNonEmptyValue subscription.
func (u *uworld) checkSetups(sub *usub, final int) {
	s, w := u.s, u.w
	m := ":" + sub.method
	lastOrd := -1
	for i, st := range sub.setups {
		if st.initial {
			if i > 0 && !sub.setups[i-1].initial {
				s.Fail("setup-teardown", "initial-setup-not-first"+m, "%s (%s): setup(%d) inside the subscribing call after a setup made by a writer", sub.name, sub.kind, st.value)
			}
			if !w.possiblyCurrent(st.value, sub.subInv, st.enter) {
				w.attrFail("setup-teardown", "setup-value-not-current-at-subscription"+m, "%s (%s): subscribing call [%d,%d] made setup(%d), which the variable did not hold during the call; changes: %s",
					sub.name, sub.kind, sub.subInv, sub.subRet, st.value, w.fmtChanges())
			}
		} else {
			if st.wr.ord < 0 || st.wr.new != st.value {
				w.attrFail("setup-teardown", "setup-value-differs-from-change"+m, "%s (%s): setup(%d) ran under %s whose change was (%d->%d, ord %d)", sub.name, sub.kind, st.value, st.wr.desc, st.wr.prev, st.wr.new, st.wr.ord)
			}
			if st.wr.ord < lastOrd || st.wr.ord == lastOrd && sub.mode == modeWithValue {
				w.attrFail("setup-teardown", "setups-out-of-order"+m, "%s (%s): setup(%d) for change %d after the setup for change %d", sub.name, sub.kind, st.value, st.wr.ord, lastOrd)
			}
			lastOrd = st.wr.ord
		}
		if st.tds == 0 {
			continue
		}
		if st.tdWr != nil {
			// torn down by a writer: it must be the writer of the very next change
			if (st.tdWr.ord < 0 || !st.initial && st.tdWr.ord != st.wr.ord+1) && !w.crossAnnounce {
				w.attrFail("setup-teardown", "teardown-not-by-next-change"+m, "%s (%s): setup(%d) at step %d (initial: %v) was torn down under %s (ord %d); changes: %s", sub.name, sub.kind, st.value, st.enter, st.initial, st.tdWr.desc, st.tdWr.ord, w.fmtChanges())
			}
			u.r.hit("setup-torn-down-by-next-change", true)
		} else {
			if sub.unsubInv == 0 || st.tdTask != sub.unsubTask || st.tdEnter < sub.unsubInv || sub.unsubRet != 0 && st.tdEnter > sub.unsubRet {
				s.Fail("setup-teardown", "teardown-outside-write-and-returned-function"+m, "%s (%s): teardown of setup(%d) at step %d ran neither under a write nor inside the call of the returned function [%d,%d]",
					sub.name, sub.kind, st.value, st.tdEnter, sub.unsubInv, sub.unsubRet)
			}
			u.r.hit("setup-torn-down-by-returned-function", true)
		}
	}
	if sub.mode == modeWithValue {
		for _, c := range w.changes {
			if !sub.cond(c.new) || c.inv <= sub.subRet || !sub.mustDeliver(c) {
				continue
			}
			found := false
			for _, st := range sub.setups {
				found = found || st.wr == c
			}
			if !found {
				w.attrFail("setup-teardown", "setup-missed-for-qualifying-change"+m, "%s (%s, subscribed [%d,%d], returned function invoked %d): no setup for change (%d->%d) by %s [%d,%d]",
					sub.name, sub.kind, sub.subInv, sub.subRet, sub.unsubInv, c.prev, c.new, c.desc, c.inv, c.ret)
			}
		}
	}
	var active []int
	for _, st := range sub.setups {
		if st.tds == 0 {
			active = append(active, st.value)
		}
	}
	if sub.unsubRet != 0 && len(active) > 0 {
		s.Fail("setup-teardown", "setup-still-active-after-returned-teardown-function-returned"+m, "%s (%s): setups for %v were never torn down (returned function called [%d,%d])", sub.name, sub.kind, active, sub.unsubInv, sub.unsubRet)
	}
	if sub.unsubInv != 0 {
		return
	}
	want := 0
	if sub.cond(final) {
		switch sub.mode {
		case modeWithValue:
			want = 1
		case modeContext:
			if len(sub.cbs) > 0 { // no callback at all: the variable held the zero value throughout and the option was not set
				want = sub.nsetups
			}
		}
	}
	u.r.hit("attached-at-quiescence-with-active-setup", want > 0)
	u.r.hit("attached-at-quiescence-final-value-fails-condition", want == 0 && len(sub.setups) > 0)
	for _, v := range active {
		if v != final || len(active) > want {
			s.Fail("setup-teardown", "stale-setup-active-at-quiescence"+m, "%s (%s): active setups %v, final value %d (want %d active)", sub.name, sub.kind, active, final, want)
		}
	}
	if len(active) < want {
		s.Fail("setup-teardown", "no-active-setup-for-final-value"+m, "%s (%s): active setups %v, final value %d satisfies the condition (want %d active); changes: %s", sub.name, sub.kind, active, final, want, w.fmtChanges())
	}
}

func (u *uworld) finalChecks(final int) {
	w := u.w
	for _, wr := range w.writes {
		want, ok := u.wants[wr]
		if !ok || wr.ret == 0 {
			continue
		}
		kind := "ToggleValue-did-not-set-the-value"
		if want == 0 {
			kind = "reset-did-not-restore-the-zero-value"
		}
		if wr.ord >= 0 && wr.new != want || wr.ord < 0 && !w.possiblyCurrent(want, wr.inv, wr.ret) {
			w.attrFail("toggle", kind, "%s [%d,%d]: change (%d->%d, ord %d), value %d expected; changes: %s", wr.desc, wr.inv, wr.ret, wr.prev, wr.new, wr.ord, want, w.fmtChanges())
		}
	}
	for _, rd := range u.reads {
		if rd.at == 0 {
			continue
		}
		if !w.possiblyCurrent(rd.val, rd.inv, rd.at) {
			w.attrFail("read", "value-not-held-during-call", "Read [%d,%d] saw %d at step %d; changes: %s", rd.inv, rd.ret, rd.val, rd.at, w.fmtChanges())
		}
		for _, c := range w.changes {
			if rd.exit != 0 && c.inv > rd.at && c.refEnter < rd.exit {
				w.attrFail("read", "value-changed-while-read-function-ran", "Read function ran [%d,%d] with value %d; change (%d->%d) by %s invoked %d was delivered at %d", rd.at, rd.exit, rd.val, c.prev, c.new, c.desc, c.inv, c.refEnter)
			}
			u.r.hit("write-invoked-while-read-function-ran", rd.exit != 0 && c.inv > rd.at && c.inv < rd.exit)
		}
	}
	for _, sub := range u.subs {
		if sub.subRet == 0 {
			continue // reported by the deadlock oracle
		}
		for _, wr := range w.writes {
			u.r.hit("utility-subscribe-overlaps-write", stampsOverlap(sub.subInv, sub.subRet, wr.inv, wr.ret))
			u.r.hit("utility-unsubscribe-overlaps-write", sub.unsubInv != 0 && stampsOverlap(sub.unsubInv, sub.unsubRet, wr.inv, wr.ret))
		}
		if sub.mode == modeOnce {
			u.r.hit("once-fired", len(sub.once) > 0)
			u.r.hit("once-fired-under-a-write", len(sub.once) > 0 && sub.once[0].wr != nil)
			u.r.hit("once-unsubscribed-before-firing", len(sub.once) == 0 && sub.unsubRet != 0)
			u.checkOnce(sub)
		} else {
			u.checkSetups(sub, final)
		}
	}
}

type utilScript struct {
	delay     int
	kind      int
	cond      int
	nsetups   int
	cbYields  int
	unsubMode int // 0 never, 1 by the subscriber task, 2 by a separate unsubscriber task
	unsubWait int
}

var utilKinds = []string{"OnUpdateOnce", "OnUpdateOnce(cond)", "OnUpdateWithContext", "OnUpdateWithContext(true)", "WithValue", "WithValue(cond)", "WithNonEmptyValue"}

func varutilsBody(s *simrt.Sim) {
	v := rx.NewVariable[int]()
	w := newVWorld[int](s)
	u := &uworld{s: s, w: w, wants: map[*vwrite[int]]int{}, r: newReach(s)}
	ref := &vsub[int]{name: "ref", kind: "OnUpdate", ref: true}
	w.subscribe(ref, func(cb func(prev, new int)) func() { return v.OnUpdate(cb) })
	switch s.Choose(3) {
	case 1:
		w.write("main Set(5)", func() { v.Set(5) }, 5)
	case 2:
		w.write("main Set(6)", func() { v.Set(6) }, 6)
	}
	nwriters := 1 + s.Choose(2)
	for i := 0; i < nwriters; i++ {
		n := 1 + s.Choose(4)
		type op struct{ kind, val, pre int }
		ops := make([]op, n)
		for j := range ops {
			ops[j] = op{kind: s.Weighted(4, 3, 3, 1, 2, 2), val: (i+1)*10 + j + 1, pre: s.Choose(3)}
		}
		s.Logf("script writer%d %+v", i, ops)
		s.Go(fmt.Sprintf("writer%d", i), func() {
			var resets []func()
			for _, o := range ops {
				yields(o.pre)
				switch o.kind {
				case 0:
					w.write(fmt.Sprintf("Set(%d)", o.val), func() { v.Set(o.val) }, o.val)
				case 1:
					w.write(fmt.Sprintf("ToggleValue(%d)", o.val), func() {
						u.wants[w.cur[simrt.Current()]] = o.val
						resets = append(resets, v.ToggleValue(o.val))
					}, o.val)
				case 2:
					if len(resets) == 0 {
						w.write("Set(0)", func() { v.Set(0) }, 0)
						break
					}
					reset := resets[len(resets)-1]
					resets = resets[:len(resets)-1]
					w.write("reset", func() {
						u.wants[w.cur[simrt.Current()]] = 0
						reset()
					}, 0)
				case 3:
					w.write("Set(0)", func() { v.Set(0) }, 0)
				case 4:
					w.write(fmt.Sprintf("Compute(->%d)", o.val), func() {
						v.Compute(func(int) int { simrt.Yield(); return o.val })
					}, o.val)
				case 5:
					rd := &vread{inv: s.Tick()}
					u.reads = append(u.reads, rd)
					s.Logf("Read")
					v.Read(func(cur int) {
						rd.val, rd.at = cur, s.Tick()
						yields(2)
						rd.exit = s.Tick()
					})
					rd.ret = s.Tick()
					s.Logf("Read returned %d", rd.val)
				}
			}
		})
	}
	nsubs := 1 + s.Choose(3)
	for i := 0; i < nsubs; i++ {
		n := 1 + s.Choose(2)
		script := make([]utilScript, n)
		for j := range script {
			script[j] = utilScript{delay: s.Choose(5), kind: s.Choose(len(utilKinds)), cond: 1 + s.Choose(4), nsetups: 1 + s.Choose(2), cbYields: 1 + s.Choose(2), unsubMode: s.Choose(3), unsubWait: s.Choose(5)}
		}
		s.Logf("script subscriber%d %+v", i, script)
		s.Go(fmt.Sprintf("subscriber%d", i), func() {
			for j, sc := range script {
				yields(sc.delay)
				sub := &usub{vsub: &vsub[int]{name: fmt.Sprintf("u%d.%d", i, j), kind: utilKinds[sc.kind], yields: sc.cbYields}, nsetups: 1}
				sub.cond, sub.cond2 = valueConds[0].f, transitionConds[0].f
				switch sc.kind {
				case 0, 1:
					sub.mode, sub.method = modeOnce, "OnUpdateOnce"
					if sc.kind == 1 {
						sub.cond2 = transitionConds[sc.cond].f
						sub.kind += " " + transitionConds[sc.cond].name
					}
					u.subscribe(sub, func() func() {
						if sc.kind == 1 {
							return v.OnUpdateOnce(u.onceCallback(sub), sub.cond2)
						}
						return v.OnUpdateOnce(u.onceCallback(sub))
					})
				case 2, 3:
					sub.mode, sub.method = modeContext, "OnUpdateWithContext"
					sub.trigger = sc.kind == 3
					sub.nsetups = sc.nsetups
					sub.cond = valueConds[sc.cond%len(valueConds)].f
					sub.kind += fmt.Sprintf(" %s x%d", valueConds[sc.cond%len(valueConds)].name, sub.nsetups)
					var within func(func() func())
					sub.hook = func(_, new int) {
						if !sub.cond(new) {
							return
						}
						gen := len(sub.cbs)
						for k := 0; k < sub.nsetups; k++ {
							within(func() func() { return u.setup(sub, gen, new) })
						}
						made := 0
						for _, st := range sub.setups {
							if st.gen == gen {
								made++
							}
						}
						if made != sub.nsetups {
							s.Fail("setup-teardown", "withinContext-did-not-run-the-setup:OnUpdateWithContext", "%s (%s): %d withinContext calls inside the callback for %d made %d setups", sub.name, sub.kind, sub.nsetups, new, made)
						}
					}
					cb := w.callback(sub.vsub)
					u.subscribe(sub, func() func() {
						f := func(old, new int, wc func(func() func())) {
							within = wc
							cb(old, new)
						}
						if sub.trigger {
							return v.OnUpdateWithContext(f, true)
						}
						return v.OnUpdateWithContext(f)
					})
				case 4, 5, 6:
					sub.mode = modeWithValue
					setup := func(value int) func() {
						sub.gen++
						return u.setup(sub, sub.gen, value)
					}
					switch sc.kind {
					case 4:
						sub.method = "WithValue"
						u.subscribe(sub, func() func() { return v.WithValue(setup) })
					case 5:
						sub.method = "WithValue"
						c := valueConds[sc.cond%len(valueConds)]
						sub.cond = c.f
						sub.kind += " " + c.name
						u.subscribe(sub, func() func() { return v.WithValue(setup, c.f) })
					case 6:
						sub.method = "WithNonEmptyValue"
						sub.cond = func(x int) bool { return x != 0 }
						u.subscribe(sub, func() func() { return v.WithNonEmptyValue(setup) })
					}
				}
				switch sc.unsubMode {
				case 1:
					yields(sc.unsubWait)
					u.unsubscribe(sub)
				case 2:
					s.Go(fmt.Sprintf("unsubscriber%d", i), func() {
						yields(sc.unsubWait)
						u.unsubscribe(sub)
					})
				}
			}
		})
	}
	left := s.Quiesce()
	hx.Stuck(s, "deadlock", left, nil)
	final := v.Get()
	s.Logf("final %d", final)
	w.reachProbes()
	for _, wr := range w.writes {
		if want, ok := u.wants[wr]; ok {
			u.r.hit("toggle-changed-the-value", want != 0 && wr.ord >= 0)
			u.r.hit("reset-changed-the-value", want == 0 && wr.ord >= 0)
			u.r.hit("reset-found-the-zero-value", want == 0 && wr.ord < 0 && wr.ret != 0)
		}
	}
	w.finalChecks(final)
	u.finalChecks(final)
}
