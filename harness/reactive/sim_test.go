// Package reactive holds the harnesses for C13 (reactive subscribers see every change exactly once, in
// order) and C14 (derived reactive values converge to their defining function) on ds/reactive.
//
// C13 (c13_var_test.go, c13_set_test.go, c13_utils_test.go, c13_setutils_test.go)
//
//	variable  reactive.Variable[int]: 1..3 writers (Set/Compute/DefaultTo, unique values, now and then zero or a
//	          no-op), 1..3 subscriber tasks (OnUpdate with/without the initial-trigger option at decision-chosen
//	          moments), unsubscribes by the subscribing task or by a separate unsubscriber task
//	event     reactive.Event: triggerers (Trigger / Set(true) / attempts to reset), OnTrigger and OnUpdate subscribers
//	set       reactive.Set[int] over 4 elements: Add/Delete/AddAll/DeleteAll/Apply/Compute/Replace writers
//	          (VERIF_CONFIG token "noreplace" removes Replace from the mix)
//	varutils  the subscription utilities of Variable[int] built on OnUpdate: OnUpdateOnce (with/without condition),
//	          OnUpdateWithContext (1..2 withinContext set-ups per callback), WithValue (with/without condition),
//	          WithNonEmptyValue; writers Set/Compute/ToggleValue+reset/Read
//	setutils  Set.WithElements (with/without condition) and the ReadOnly view, same writers as "set"
//
// C14 (c14_*_test.go)
//
//	derived     DerivedVariable1..4, chains of derived variables, InheritFrom, DeriveValueFrom; built and torn down
//	            while writers change the inputs
//	derivedset  DerivedSet.InheritFrom of 1..3 sources (incl. unsubscribing a source) and SubtractReactive
//	            (token "noreplace": sources are never Replaced)
//	counter     Counter.Monitor of 1..3 inputs, default and custom condition
//	sortedset   SortedSet with weight variables; members (Add/Delete/AddAll/DeleteAll/Replace) racing with weighers
//	            (tokens: "nodelete" = members only add; "noadd" = all elements are members from the start and members
//	            only delete; "disjoint" = elements 3,4 are members throughout and only change weight, members add and
//	            delete 1,2 only)
//	waitgroup   WaitGroup Add/Done/Wait (token "nodupadd": an element is never added twice)
//	eviction    EvictionState Evict/EvictionEvent
//
// Every callback stamps enter/exit with the global step counter and yields inside its body. All C14 value
// oracles are evaluated at quiescence only, after the deadlock oracle.
package reactive

import (
	"fmt"
	"sort"
	"strings"
	"testing"

	"verifsim/simrt"
)

func TestSim(t *testing.T) {
	simrt.Main(t,
		&simrt.Harness{Name: "variable", Body: variableBody},
		&simrt.Harness{Name: "event", Body: eventBody},
		&simrt.Harness{Name: "set", Body: setBody},
		&simrt.Harness{Name: "varutils", Body: varutilsBody},
		&simrt.Harness{Name: "varinit", Body: varInitBody},
		&simrt.Harness{Name: "setutils", Body: setutilsBody},
		&simrt.Harness{Name: "derived", Body: derivedBody},
		&simrt.Harness{Name: "derivedset", Body: derivedSetBody},
		&simrt.Harness{Name: "counter", Body: counterBody},
		&simrt.Harness{Name: "sortedset", Body: sortedSetBody},
		&simrt.Harness{Name: "waitgroup", Body: waitGroupBody},
		&simrt.Harness{Name: "eviction", Body: evictionBody},
	)
}

// ---------------------------------------------------------------------------------------------
// small helpers

func yields(n int) {
	for i := 0; i < n; i++ {
		simrt.Yield()
	}
}

func sortedInts(l []int) []int {
	out := append([]int{}, l...)
	sort.Ints(out)
	return out
}

func eqInts(a, b []int) bool {
	if len(a) != len(b) {
		return false
	}
	for i := range a {
		if a[i] != b[i] {
			return false
		}
	}
	return true
}

func hasInt(l []int, e int) bool {
	for _, x := range l {
		if x == e {
			return true
		}
	}
	return false
}

func intersects(a, b []int) bool {
	for _, x := range a {
		if hasInt(b, x) {
			return true
		}
	}
	return false
}

// both returns the elements of a that are also in b.
func both(a, b []int) (out []int) {
	for _, x := range a {
		if hasInt(b, x) {
			out = append(out, x)
		}
	}
	return out
}

// subset draws a subset of 1..n (possibly empty unless nonEmpty).
func subset(s *simrt.Sim, n int, nonEmpty bool) []int {
	var out []int
	for e := 1; e <= n; e++ {
		if s.Choose(2) == 1 {
			out = append(out, e)
		}
	}
	if nonEmpty && len(out) == 0 {
		out = append(out, 1+s.Choose(n))
	}
	return out
}

func fmtInts(l []int) string {
	parts := make([]string, len(l))
	for i, x := range l {
		parts[i] = fmt.Sprint(x)
	}
	return "{" + strings.Join(parts, ",") + "}"
}

// interval of one harness-level call, stamped with the global step counter (ret == 0: not returned).
type call struct{ inv, ret uint64 }

func (c *call) overlaps(o *call) bool {
	return c.inv < o.retOrInf() && o.inv < c.retOrInf()
}

func (c *call) retOrInf() uint64 {
	if c.ret == 0 {
		return ^uint64(0)
	}
	return c.ret
}

// contains: was the call in flight at the given step?
func (c *call) contains(step uint64) bool { return c.inv < step && step < c.retOrInf() }

func stampsOverlap(inv1, ret1, inv2, ret2 uint64) bool {
	return (&call{inv1, ret1}).overlaps(&call{inv2, ret2})
}

// reach counts reach probes: hit calls s.Probe(name) the first time cond holds in a run, so that a probe count in
// the evidence reads "number of runs in which the situation occurred". Probes are counters only: the conditions are
// computed from what the harness records anyway, they draw no decision, add no scheduling point and do not advance
// the step counter (extra stamps taken for probes use s.Step(), never s.Tick()).
type reach struct {
	s    *simrt.Sim
	seen map[string]bool
}

func newReach(s *simrt.Sim) *reach { return &reach{s: s, seen: map[string]bool{}} }

func (r *reach) hit(name string, cond bool) {
	if cond && !r.seen[name] {
		r.seen[name] = true
		r.s.Probe(name)
	}
}
