package reactive

import (
	"fmt"

	"github.com/iotaledger/hive.go/ds"
	rx "github.com/iotaledger/hive.go/ds/reactive"
	"verifharness/hx"
	"verifsim/simrt"
)

// C13 on Set.WithElements (a subscription utility built on OnUpdate: one setup per element that satisfies the
// condition, torn down when the element is deleted or when the returned function is called) and on the read-only
// view of the set. Construction as in the set harness: the reference subscription numbers the updates and reads the
// true contents.
//
// An element's setup is active from the call of the setup function until the call of the teardown it returned.
// Folding "setup = added, teardown = deleted" is the fold of C13 restricted to the elements that satisfy the
// condition: at quiescence the active setups of a subscription that is still attached are exactly the qualifying
// elements of the set, each once; after the returned function has returned none is active.

type esetup struct {
	elem        int
	enter, exit uint64
	initial     bool
	wr          *swrite
	tds         int
	tdEnter     uint64
	tdWr        *swrite
	tdTask      *simrt.Task
}

type esub struct {
	*ssub
	cond      func(int) bool
	setups    []*esetup
	unsubTask *simrt.Task
}

type sread struct {
	inv, ret uint64
	elem     int // 0: ToSlice
	has      bool
	slice    []int
}

type eworld struct {
	s     *simrt.Sim
	w     *sworld
	subs  []*esub
	reads []*sread
}

var elemConds = []struct {
	name string
	f    func(int) bool
}{
	{"", func(int) bool { return true }},
	{"even", func(e int) bool { return e%2 == 0 }},
	{"<=2", func(e int) bool { return e <= 2 }},
}

func filterInts(l []int, f func(int) bool) []int {
	out := []int{}
	for _, x := range l {
		if f(x) {
			out = append(out, x)
		}
	}
	return out
}

func (u *eworld) setup(sub *esub, elem int) func() {
	s := u.s
	me := simrt.Current()
	st := &esetup{elem: elem, enter: s.Tick()}
	if sub.subRet == 0 && me == sub.task {
		st.initial = true
	} else {
		st.wr = u.w.cur[me]
	}
	s.Logf("setup %s %s element=%d", sub.name, cbKind(st.initial), elem)
	if sub.unsubRet != 0 {
		s.Fail("setup-teardown", "setup-after-returned-teardown-function-returned:WithElements",
			"%s (%s): setup(%d) at step %d, the call of the returned function [%d,%d] had returned", sub.name, sub.kind, elem, st.enter, sub.unsubInv, sub.unsubRet)
	}
	if !st.initial && st.wr == nil {
		s.Fail("setup-teardown", "setup-outside-any-write:WithElements", "%s (%s): setup(%d) ran on a task that is not inside a write call", sub.name, sub.kind, elem)
	}
	if !sub.cond(elem) {
		s.Fail("setup-teardown", "setup-for-element-not-satisfying-condition:WithElements", "%s (%s): setup(%d)", sub.name, sub.kind, elem)
	}
	for _, o := range sub.setups {
		if o.tds == 0 && o.elem == elem {
			s.Fail("setup-teardown", "setup-for-element-that-is-already-set-up:WithElements", "%s (%s): setup(%d) at step %d, the setup made at step %d has not been torn down", sub.name, sub.kind, elem, st.enter, o.enter)
		}
	}
	sub.setups = append(sub.setups, st)
	simrt.Yield()
	st.exit = s.Tick()
	return func() {
		t := simrt.Current()
		step := s.Tick()
		s.Logf("teardown %s element=%d", sub.name, elem)
		if st.tds > 0 {
			s.Fail("setup-teardown", "teardown-called-twice:WithElements", "%s (%s): teardown of setup(%d) called at step %d and again at %d", sub.name, sub.kind, elem, st.tdEnter, step)
		}
		if st.exit == 0 {
			s.Fail("setup-teardown", "teardown-before-setup-returned:WithElements", "%s (%s): teardown of setup(%d) called while the setup function is running", sub.name, sub.kind, elem)
		}
		st.tds++
		st.tdEnter, st.tdWr, st.tdTask = step, u.w.cur[t], t
		simrt.Yield()
		s.Tick()
	}
}

func (u *eworld) subscribe(sub *esub, do func() func()) {
	s := u.s
	sub.task = simrt.Current()
	u.subs = append(u.subs, sub)
	sub.subInv = s.Tick()
	s.Logf("subscribe %s %s", sub.name, sub.kind)
	un := do()
	sub.subRet = s.Tick()
	sub.unsub = un
	s.Logf("subscribed %s", sub.name)
}

func (u *eworld) unsubscribe(sub *esub) {
	sub.unsubTask = simrt.Current()
	u.w.unsubscribe(sub.ssub)
}

func (sub *esub) mustDeliver(c *swrite) bool {
	return c.inv > sub.subRet && (sub.unsubInv == 0 || c.ret != 0 && c.ret < sub.unsubInv)
}

// statesDuring returns the indexes k such that the state before update k may have been the contents at some
// instant of [from,to].
func (w *sworld) statesDuring(from, to uint64) (ks []int) {
	for k := 0; k <= len(w.changes); k++ {
		start, end := uint64(0), ^uint64(0)
		if k > 0 {
			start = w.changes[k-1].inv
		}
		if k < len(w.changes) {
			end = w.changes[k].refEnter
		}
		if start <= to && end >= from {
			ks = append(ks, k)
		}
	}
	return ks
}

func (u *eworld) checkSub(sub *esub, final []int) {
	s, w := u.s, u.w
	r := w.r
	var initial []int
	upper := sub.subRet
	for i, st := range sub.setups {
		if st.initial {
			if i > 0 && !sub.setups[i-1].initial {
				s.Fail("setup-teardown", "initial-setup-not-first:WithElements", "%s (%s): setup(%d) inside the subscribing call after a setup made by a writer", sub.name, sub.kind, st.elem)
			}
			if len(initial) == 0 {
				upper = st.enter
			}
			initial = append(initial, st.elem)
		} else if st.wr.ord < 0 || !hasInt(st.wr.add, st.elem) {
			s.Fail("setup-teardown", "setup-for-element-the-update-did-not-add:WithElements", "%s (%s): setup(%d) ran under %s whose update was +%v -%v (ord %d)", sub.name, sub.kind, st.elem, st.wr.desc, st.wr.add, st.wr.del, st.wr.ord)
		}
		if st.tds == 0 {
			continue
		}
		if st.tdWr != nil {
			if st.tdWr.ord < 0 || !hasInt(st.tdWr.del, st.elem) {
				s.Fail("setup-teardown", "teardown-for-element-the-update-did-not-delete:WithElements", "%s (%s): teardown of setup(%d) ran under %s whose update was +%v -%v (ord %d)", sub.name, sub.kind, st.elem, st.tdWr.desc, st.tdWr.add, st.tdWr.del, st.tdWr.ord)
			}
			r.hit("element-setup-torn-down-by-delete", true)
			r.hit("element-set-up-and-torn-down-by-the-same-update", st.tdWr == st.wr)
		} else {
			if sub.unsubInv == 0 || st.tdTask != sub.unsubTask || st.tdEnter < sub.unsubInv || sub.unsubRet != 0 && st.tdEnter > sub.unsubRet {
				s.Fail("setup-teardown", "teardown-outside-write-and-returned-function:WithElements", "%s (%s): teardown of setup(%d) at step %d ran neither under a write nor inside the call of the returned function [%d,%d]",
					sub.name, sub.kind, st.elem, st.tdEnter, sub.unsubInv, sub.unsubRet)
			}
			r.hit("element-setup-torn-down-by-returned-function", true)
		}
	}
	// the setups made inside the subscribing call are the qualifying elements of the state at subscription time
	okStart := false
	for _, k := range w.statesDuring(sub.subInv, upper) {
		okStart = okStart || eqInts(sortedInts(initial), filterInts(w.stateBefore(k), sub.cond))
	}
	if !okStart {
		s.Fail("setup-teardown", "initial-setups-differ-from-state-at-subscription:WithElements", "%s (%s): subscribing call [%d,%d] made setups for %v; %s", sub.name, sub.kind, sub.subInv, sub.subRet, initial, w.fmtChanges())
	}
	r.hit("with-elements-initial-setups", len(initial) > 0)
	for _, c := range w.changes {
		if !sub.mustDeliver(c) {
			continue
		}
		for _, e := range filterInts(c.add, sub.cond) {
			found := false
			for _, st := range sub.setups {
				found = found || st.wr == c && st.elem == e
			}
			if !found {
				s.Fail("setup-teardown", "setup-missed-for-added-element:WithElements", "%s (%s, subscribed [%d,%d], returned function invoked %d): no setup(%d) for update %s [%d,%d] +%v -%v",
					sub.name, sub.kind, sub.subInv, sub.subRet, sub.unsubInv, e, c.desc, c.inv, c.ret, c.add, c.del)
			}
		}
		for _, e := range filterInts(c.del, sub.cond) {
			found := false
			for _, st := range sub.setups {
				found = found || st.tdWr == c && st.elem == e
			}
			if !found {
				s.Fail("setup-teardown", "teardown-missed-for-deleted-element:WithElements", "%s (%s, subscribed [%d,%d], returned function invoked %d): no teardown of setup(%d) for update %s [%d,%d] +%v -%v",
					sub.name, sub.kind, sub.subInv, sub.subRet, sub.unsubInv, e, c.desc, c.inv, c.ret, c.add, c.del)
			}
		}
	}
	active := []int{}
	for _, st := range sub.setups {
		if st.tds == 0 {
			active = append(active, st.elem)
		}
	}
	active = sortedInts(active)
	if sub.unsubRet != 0 && len(active) > 0 {
		s.Fail("setup-teardown", "setup-still-active-after-returned-teardown-function-returned:WithElements", "%s (%s): setups for %v were never torn down (returned function called [%d,%d])", sub.name, sub.kind, active, sub.unsubInv, sub.unsubRet)
	}
	if sub.unsubInv == 0 {
		want := filterInts(final, sub.cond)
		r.hit("with-elements-attached-at-quiescence-with-active-setups", len(want) > 0)
		if !eqInts(active, want) {
			s.Fail("setup-teardown", "active-setups-differ-from-qualifying-elements-at-quiescence:WithElements", "%s (%s): active setups %v, the set contains %v (qualifying: %v); %s", sub.name, sub.kind, active, final, want, w.fmtChanges())
		}
	}
}

func (u *eworld) checkReads() {
	s, w := u.s, u.w
	for _, rd := range u.reads {
		if rd.ret == 0 {
			continue
		}
		ks := w.statesDuring(rd.inv, rd.ret)
		inSome, notInSome := func(e int) bool {
			for _, k := range ks {
				if hasInt(w.stateBefore(k), e) {
					return true
				}
			}
			for _, wr := range w.writes {
				// present for a moment inside a call that adds and deletes it
				if hasInt(wr.transient, e) && stampsOverlap(rd.inv, rd.ret, wr.inv, wr.ret) {
					return true
				}
			}
			return false
		}, func(e int) bool {
			for _, k := range ks {
				if !hasInt(w.stateBefore(k), e) {
					return true
				}
			}
			for _, wr := range w.writes {
				// Replace empties the set before it fills it again
				if wr.replace && stampsOverlap(rd.inv, rd.ret, wr.inv, wr.ret) {
					return true
				}
			}
			return false
		}
		w.r.hit("read-only-view-read-while-several-states-possible", len(ks) > 1)
		if rd.elem != 0 {
			if rd.has && !inSome(rd.elem) || !rd.has && !notInSome(rd.elem) {
				s.Fail("readonly", "Has-result-matches-no-state-during-call", "ReadOnly().Has(%d) [%d,%d] = %v; %s", rd.elem, rd.inv, rd.ret, rd.has, w.fmtChanges())
			}
			continue
		}
		for _, e := range rd.slice {
			if !inSome(e) {
				s.Fail("readonly", "ToSlice-lists-element-of-no-state-during-call", "ReadOnly().ToSlice() [%d,%d] = %v; %s", rd.inv, rd.ret, rd.slice, w.fmtChanges())
			}
		}
	}
}

func setutilsBody(s *simrt.Sim) {
	noReplace := s.Choose(2) == 1
	init := []int{}
	if s.Choose(2) == 1 {
		init = subset(s, setUniverse, false)
	}
	w := &sworld{s: s, set: rx.NewSet(init...), init: sortedInts(init), cur: map[*simrt.Task]*swrite{}, r: newReach(s)}
	u := &eworld{s: s, w: w}
	s.Logf("config init=%s noreplace=%v", fmtInts(init), noReplace)
	ref := &ssub{name: "ref", kind: "OnUpdate", ref: true}
	w.subscribe(ref)
	set := w.set
	spawnSetWriters(s, w, noReplace)
	type utilScript struct{ delay, cond, unsubMode, unsubWait int }
	nsubs := 1 + s.Choose(2)
	for i := 0; i < nsubs; i++ {
		n := 1 + s.Choose(2)
		script := make([]utilScript, n)
		for j := range script {
			script[j] = utilScript{delay: s.Choose(5), cond: s.Choose(len(elemConds) + 1), unsubMode: s.Choose(3), unsubWait: s.Choose(5)}
		}
		s.Logf("script subscriber%d %+v", i, script)
		s.Go(fmt.Sprintf("subscriber%d", i), func() {
			for j, sc := range script {
				yields(sc.delay)
				sub := &esub{ssub: &ssub{name: fmt.Sprintf("e%d.%d", i, j), kind: "WithElements"}, cond: elemConds[0].f}
				setup := func(e int) func() { return u.setup(sub, e) }
				if sc.cond < len(elemConds) {
					// index 0: an explicit condition that every element satisfies
					c := elemConds[sc.cond]
					sub.cond = c.f
					sub.kind = "WithElements(cond " + c.name + ")"
					u.subscribe(sub, func() func() { return set.WithElements(setup, c.f) })
				} else {
					u.subscribe(sub, func() func() { return set.WithElements(setup) })
				}
				switch sc.unsubMode {
				case 1:
					yields(sc.unsubWait)
					u.unsubscribe(sub)
				case 2:
					s.Go(fmt.Sprintf("unsubscriber%d", i), func() {
						yields(sc.unsubWait)
						u.unsubscribe(sub)
					})
				}
			}
		})
	}
	var ro ds.ReadableSet[int]
	if nreads := s.Choose(4); nreads > 0 {
		type readScript struct{ pre, elem int }
		script := make([]readScript, nreads)
		for j := range script {
			script[j] = readScript{pre: s.Choose(4), elem: s.Choose(setUniverse + 1)}
		}
		s.Logf("script reader %+v", script)
		ro = set.ReadOnly()
		s.Go("reader0", func() {
			for _, sc := range script {
				yields(sc.pre)
				rd := &sread{elem: sc.elem, inv: s.Tick()}
				u.reads = append(u.reads, rd)
				if sc.elem != 0 {
					rd.has = ro.Has(sc.elem)
					s.Logf("ReadOnly().Has(%d) = %v", sc.elem, rd.has)
				} else {
					rd.slice = sortedInts(ro.ToSlice())
					s.Logf("ReadOnly().ToSlice() = %s", fmtInts(rd.slice))
				}
				rd.ret = s.Tick()
			}
		})
	}
	left := s.Quiesce()
	hx.Stuck(s, "deadlock", left, nil)
	final := sortedInts(set.ToSlice())
	s.Logf("final %s", fmtInts(final))
	w.reachProbes()
	w.finalChecks(final)
	if ro != nil {
		if view := sortedInts(ro.ToSlice()); !eqInts(view, final) {
			s.Fail("readonly", "view-differs-from-set-at-quiescence", "ReadOnly().ToSlice() = %v, the set contains %v", view, final)
		}
	}
	u.checkReads()
	for _, sub := range u.subs {
		if sub.subRet == 0 {
			continue
		}
		for _, wr := range w.writes {
			w.r.hit("with-elements-subscribe-overlaps-write", stampsOverlap(sub.subInv, sub.subRet, wr.inv, wr.ret))
			w.r.hit("with-elements-teardown-overlaps-write", sub.unsubInv != 0 && stampsOverlap(sub.unsubInv, sub.unsubRet, wr.inv, wr.ret))
		}
		u.checkSub(sub, final)
	}
}
