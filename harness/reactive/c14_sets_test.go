package reactive

import (
	"fmt"

	"github.com/iotaledger/hive.go/ds"
	rx "github.com/iotaledger/hive.go/ds/reactive"
	"verifharness/hx"
	"verifsim/simrt"
)

// C14: DerivedSet.InheritFrom, SubtractReactive and SortedSet. Oracles at quiescence only.

// ---------------------------------------------------------------------------------------------
// derived sets

func derivedSetBody(s *simrt.Sim) {
	noReplace := simrt.ConfigHas("noreplace")
	nsrc := 1 + s.Choose(3)
	subtract := s.Choose(3) == 2
	if subtract && nsrc == 1 {
		nsrc = 2
	}
	srcs := make([]rx.Set[int], nsrc)
	inexactReport := false
	for i := range srcs {
		var init []int
		if s.Choose(2) == 1 {
			init = subset(s, setUniverse, false)
		}
		srcs[i] = rx.NewSet(init...)
		s.Logf("config src%d init=%s", i, fmtInts(init))
		// observation only: did a source ever report a change that did not happen (an element as added that it
		// had already reported, or as deleted that it had not)?
		view := ds.NewSet[int]()
		srcs[i].OnUpdate(func(m ds.SetMutations[int]) {
			a, d := mutSlices(m)
			aa, ad := mutSlices(view.Apply(ds.NewSetMutations(a...).WithDeletedElements(ds.NewSet(d...))))
			if !eqInts(a, aa) || !eqInts(d, ad) {
				inexactReport = true
			}
		})
	}
	s.Logf("config sources=%d subtract=%v noreplace=%v", nsrc, subtract, noReplace)
	// reach probes only: the write calls per source, stamped with s.Step() (the step counter is not advanced)
	var writes []*wcall
	r := newReach(s)

	nwriters := 1 + s.Choose(3)
	for i := 0; i < nwriters; i++ {
		src := s.Choose(nsrc)
		n := 1 + s.Choose(4)
		type op struct {
			kind, pre int
			a, b      []int
		}
		ops := make([]op, n)
		for j := range ops {
			k := 0
			if noReplace {
				k = s.Weighted(4, 3, 2, 2, 2)
			} else {
				k = s.Weighted(4, 3, 2, 2, 2, 3)
			}
			o := op{kind: k, pre: s.Choose(3)}
			switch k {
			case 0, 1:
				o.a = []int{1 + s.Choose(setUniverse)}
			case 2, 3:
				o.a = subset(s, setUniverse, true)
			case 4:
				o.a, o.b = subset(s, setUniverse, false), subset(s, setUniverse, false)
			case 5:
				o.a = subset(s, setUniverse, false)
			}
			ops[j] = o
		}
		s.Logf("script writer%d src=%d %+v", i, src, ops)
		s.Go(fmt.Sprintf("writer%d", i), func() {
			set := srcs[src]
			for _, o := range ops {
				yields(o.pre)
				wc := &wcall{input: src, task: simrt.Current()}
				writes = append(writes, wc)
				wc.inv = s.Step()
				switch o.kind {
				case 0:
					s.Logf("src%d.Add(%d)", src, o.a[0])
					set.Add(o.a[0])
				case 1:
					s.Logf("src%d.Delete(%d)", src, o.a[0])
					set.Delete(o.a[0])
				case 2:
					s.Logf("src%d.AddAll%s", src, fmtInts(o.a))
					set.AddAll(ds.NewSet(o.a...))
				case 3:
					s.Logf("src%d.DeleteAll%s", src, fmtInts(o.a))
					set.DeleteAll(ds.NewSet(o.a...))
				case 4:
					s.Logf("src%d.Apply(+%s -%s)", src, fmtInts(o.a), fmtInts(o.b))
					set.Apply(ds.NewSetMutations(o.a...).WithDeletedElements(ds.NewSet(o.b...)))
				case 5:
					s.Logf("src%d.Replace%s", src, fmtInts(o.a))
					set.Replace(ds.NewSet(o.a...))
				}
				wc.ret = s.Step()
				s.Logf("write returned")
			}
		})
	}

	contents := func(i int) []int { return sortedInts(srcs[i].ToSlice()) }
	suffix := func() string {
		if inexactReport {
			return ":after-source-reported-a-change-that-did-not-happen"
		}
		return ""
	}

	if subtract {
		var result rx.Set[int]
		var linked call
		delay := s.Choose(5)
		s.Go("linker", func() {
			yields(delay)
			others := make([]rx.ReadableSet[int], 0, nsrc-1)
			for _, o := range srcs[1:] {
				others = append(others, o)
			}
			linked.inv = s.Step()
			s.Logf("src0.SubtractReactive(others)")
			result = srcs[0].SubtractReactive(others...)
			linked.ret = s.Step()
			s.Logf("SubtractReactive returned")
		})
		left := s.Quiesce()
		hx.Stuck(s, "deadlock", left, nil)
		for i, a := range writes {
			r.hit("subtract-built-during-write-to-minuend", a.input == 0 && a.overlaps(&linked))
			r.hit("subtract-built-during-write-to-subtrahend", a.input != 0 && a.overlaps(&linked))
			r.hit("source-written-after-subtract-returned", a.inv >= linked.ret)
			for _, b := range writes[i+1:] {
				r.hit("writes-to-minuend-and-subtrahend-overlap", (a.input == 0) != (b.input == 0) && a.overlaps(&b.call) && a.retOrInf() > linked.inv && b.retOrInf() > linked.inv)
			}
		}
		var want []int
		for _, e := range contents(0) {
			in := false
			for i := 1; i < nsrc; i++ {
				in = in || hasInt(contents(i), e)
			}
			r.hit("final-minuend-element-in-a-subtrahend", in)
			if !in {
				want = append(want, e)
			}
		}
		got := sortedInts(result.ToSlice())
		s.Logf("result %s want %s", fmtInts(got), fmtInts(want))
		if !eqInts(got, want) {
			desc := ""
			for i := range srcs {
				desc += fmt.Sprintf(" src%d=%s", i, fmtInts(contents(i)))
			}
			s.Fail("subtract-reactive", "differs-from-source-minus-others"+suffix(), "SubtractReactive = %v, expected %v;%s", got, want, desc)
		}
		return
	}

	d := rx.NewDerivedSet[int]()
	// a subscriber of the derived set itself folds what it is told (C13: folding the reported mutations reproduces the
	// contents), and optionally somebody writes to the derived set directly (element 100 is in no source)
	mirror := ds.NewSet[int]()
	d.OnUpdate(func(m ds.SetMutations[int]) {
		a, dl := mutSlices(m)
		mirror.Apply(ds.NewSetMutations(a...).WithDeletedElements(ds.NewSet(dl...)))
	})
	directDone := false
	if s.Choose(3) == 2 {
		dd := s.Choose(6)
		s.Go("directwriter", func() {
			yields(dd)
			s.Logf("derived.Add(100)")
			d.Add(100)
			directDone = true
			r.hit("direct-write-to-the-derived-set", true)
		})
	}
	type link struct {
		name   string
		srcs   []int
		done   call
		unlink call
	}
	var links []*link
	nlinkers := 1 + s.Choose(3)
	for i := 0; i < nlinkers; i++ {
		which := subset(s, nsrc, true)
		for j := range which {
			which[j]--
		}
		delay := s.Choose(5)
		unlinkMode := s.Choose(4) // 0,1 keep; 2 linker unlinks; 3 separate task
		unlinkWait := s.Choose(5)
		s.Logf("script linker%d sources=%v delay=%d unlink=%d/%d", i, which, delay, unlinkMode, unlinkWait)
		s.Go(fmt.Sprintf("linker%d", i), func() {
			yields(delay)
			l := &link{name: fmt.Sprintf("l%d", i), srcs: which}
			links = append(links, l)
			args := make([]rx.ReadableSet[int], len(which))
			for j, k := range which {
				args[j] = srcs[k]
			}
			l.done.inv = s.Tick()
			s.Logf("InheritFrom(%v)", which)
			unsub := d.InheritFrom(args...)
			l.done.ret = s.Tick()
			s.Logf("InheritFrom returned")
			un := func() {
				yields(unlinkWait)
				l.unlink.inv = s.Tick()
				s.Logf("unsubscribe %s", l.name)
				unsub()
				l.unlink.ret = s.Tick()
				s.Logf("unsubscribe %s returned", l.name)
			}
			switch unlinkMode {
			case 2:
				un()
			case 3:
				s.Go(fmt.Sprintf("unlinker%d", i), un)
			}
		})
	}
	left := s.Quiesce()
	hx.Stuck(s, "deadlock", left, nil)
	live := 0
	for i, l := range links {
		if l.done.ret == 0 {
			continue
		}
		if l.unlink.inv == 0 {
			live++
		}
		for _, a := range writes {
			if !hasInt(l.srcs, a.input) {
				continue
			}
			r.hit("inherit-overlaps-write-to-source", a.overlaps(&l.done))
			r.hit("unsubscribe-overlaps-write-to-source", l.unlink.inv != 0 && a.overlaps(&l.unlink))
			r.hit("source-written-after-inherit-returned", l.unlink.inv == 0 && a.inv >= l.done.ret)
			r.hit("source-written-after-unsubscribe-returned", l.unlink.ret != 0 && a.inv >= l.unlink.ret)
		}
		for _, o := range links[i+1:] {
			r.hit("source-inherited-by-two-live-links", o.done.ret != 0 && o.unlink.inv == 0 && l.unlink.inv == 0 && intersects(o.srcs, l.srcs))
			r.hit("unsubscribe-overlaps-inherit-of-other-link", o.done.ret != 0 && (l.unlink.inv != 0 && l.unlink.overlaps(&o.done) || o.unlink.inv != 0 && o.unlink.overlaps(&l.done)))
		}
	}
	r.hit("every-link-unsubscribed", len(links) > 0 && live == 0)
	var want []int
	desc := ""
	for _, l := range links {
		if l.done.ret == 0 || l.unlink.inv != 0 {
			continue
		}
		for _, k := range l.srcs {
			for _, e := range contents(k) {
				r.hit("final-element-inherited-more-than-once", hasInt(want, e))
				if !hasInt(want, e) {
					want = append(want, e)
				}
			}
			desc += fmt.Sprintf(" %s:src%d=%s", l.name, k, fmtInts(contents(k)))
		}
	}
	if directDone {
		want = append(want, 100)
	}
	want = sortedInts(want)
	got := sortedInts(d.ToSlice())
	s.Logf("derived %s want %s", fmtInts(got), fmtInts(want))
	if folded := sortedInts(mirror.ToSlice()); !eqInts(folded, got) {
		s.Fail("fold", "derived-set-subscriber", "folding the mutations reported to a subscriber of the DerivedSet gives %v but the set holds %v", folded, got)
	}
	if !eqInts(got, want) {
		s.Fail("derived-set", "differs-from-union-of-sources"+suffix(), "DerivedSet = %v, union of the inherited sources = %v;%s", got, want, desc)
	}
}

// ---------------------------------------------------------------------------------------------
// sorted set

func sortedSetBody(s *simrt.Sim) {
	// configurations (VERIF_CONFIG token):
	//   ""         members add, delete and replace any element; weighers change any weight
	//   nodelete   members only add
	//   noadd      all elements are members from the start; members only delete
	//   disjoint   elements 3,4 are members from the start and only change weight; members add/delete 1,2 only
	noDelete, noAdd, disjoint := simrt.ConfigHas("nodelete"), simrt.ConfigHas("noadd"), simrt.ConfigHas("disjoint")
	const n = setUniverse
	weights := make([]rx.Variable[int], n+1)
	for e := 1; e <= n; e++ {
		weights[e] = rx.NewVariable[int]()
		if s.Choose(2) == 1 {
			weights[e].Set(s.Choose(4)) // ties (and zero) are welcome
		}
	}
	ss := rx.NewSortedSet(func(e int) rx.Variable[int] { return weights[e] })
	addable, deletable, weighable := []int{1, 2, 3, 4}, []int{1, 2, 3, 4}, []int{1, 2, 3, 4}
	if disjoint {
		addable, deletable, weighable = []int{1, 2}, []int{1, 2}, []int{3, 4}
	}
	var initial []int // reach probes only
	for e := 1; e <= n; e++ {
		if noAdd || disjoint && e >= 3 || s.Choose(3) == 1 {
			ss.Add(e)
			initial = append(initial, e)
		}
	}
	s.Logf("config nodelete=%v noadd=%v disjoint=%v initial=%v", noDelete, noAdd, disjoint, ss.Descending())
	pick := func(from []int, nonEmpty bool) (out []int) {
		for _, e := range from {
			if s.Choose(2) == 1 {
				out = append(out, e)
			}
		}
		if nonEmpty && len(out) == 0 {
			out = []int{from[s.Choose(len(from))]}
		}
		return out
	}
	// calls that may insert an element / change its weight, per element (to attribute a wrong final order)
	type ecall struct {
		call
		elems []int
	}
	var adds, weighs []*ecall
	// reach probes only: calls that may remove an element (Replace: every element it does not list), all member calls
	// with their task
	var dels, memberCalls, changedWeighs []*ecall
	memberTask := map[*ecall]*simrt.Task{}
	complement := func(l []int) (out []int) {
		for e := 1; e <= n; e++ {
			if !hasInt(l, e) {
				out = append(out, e)
			}
		}
		return out
	}

	nmembers := 1 + s.Choose(2)
	for i := 0; i < nmembers; i++ {
		cnt := 1 + s.Choose(4)
		type op struct {
			kind, pre int
			a         []int
		}
		ops := make([]op, cnt)
		for j := range ops {
			k := 0
			switch {
			case noDelete:
				k = []int{0, 2}[s.Weighted(5, 2)]
			case noAdd:
				k = []int{1, 3}[s.Weighted(5, 2)]
			case disjoint:
				k = s.Weighted(5, 4, 2, 2)
			default:
				k = s.Weighted(5, 4, 2, 2, 2)
			}
			o := op{kind: k, pre: s.Choose(3)}
			switch k {
			case 0:
				o.a = []int{addable[s.Choose(len(addable))]}
			case 1:
				o.a = []int{deletable[s.Choose(len(deletable))]}
			case 2:
				o.a = pick(addable, true)
			case 3:
				o.a = pick(deletable, true)
			case 4:
				o.a = pick(addable, false)
			}
			ops[j] = o
		}
		s.Logf("script member%d %+v", i, ops)
		s.Go(fmt.Sprintf("member%d", i), func() {
			for _, o := range ops {
				yields(o.pre)
				c := &ecall{elems: o.a}
				memberCalls = append(memberCalls, c)
				memberTask[c] = simrt.Current()
				rc := c // the same call seen as a removal
				switch o.kind {
				case 1, 3:
					dels = append(dels, rc)
				case 4:
					rc = &ecall{elems: complement(o.a)}
					dels = append(dels, rc)
				}
				c.inv = s.Tick()
				rc.inv = c.inv
				switch o.kind {
				case 0:
					adds = append(adds, c)
					s.Logf("Add(%d)", o.a[0])
					ss.Add(o.a[0])
				case 1:
					s.Logf("Delete(%d)", o.a[0])
					ss.Delete(o.a[0])
				case 2:
					adds = append(adds, c)
					s.Logf("AddAll%s", fmtInts(o.a))
					ss.AddAll(ds.NewSet(o.a...))
				case 3:
					s.Logf("DeleteAll%s", fmtInts(o.a))
					ss.DeleteAll(ds.NewSet(o.a...))
				case 4:
					adds = append(adds, c)
					s.Logf("Replace%s", fmtInts(o.a))
					ss.Replace(ds.NewSet(o.a...))
				}
				c.ret = s.Tick()
				rc.ret = c.ret
				s.Logf("member op returned")
			}
		})
	}
	nweighers := 1 + s.Choose(2)
	for i := 0; i < nweighers; i++ {
		cnt := 1 + s.Choose(4)
		type op struct{ e, w, pre int }
		ops := make([]op, cnt)
		for j := range ops {
			ops[j] = op{e: weighable[s.Choose(len(weighable))], w: s.Choose(6), pre: s.Choose(3)}
		}
		s.Logf("script weigher%d %+v", i, ops)
		s.Go(fmt.Sprintf("weigher%d", i), func() {
			for _, o := range ops {
				yields(o.pre)
				c := &ecall{elems: []int{o.e}}
				weighs = append(weighs, c)
				c.inv = s.Tick()
				s.Logf("weight[%d].Set(%d)", o.e, o.w)
				prev := weights[o.e].Set(o.w)
				c.ret = s.Tick()
				if prev != o.w {
					changedWeighs = append(changedWeighs, c)
				}
				s.Logf("weight set returned")
			}
		})
	}
	left := s.Quiesce()
	hx.Stuck(s, "deadlock", left, nil)

	members := sortedInts(ss.ToSlice())
	asc, desc := ss.Ascending(), ss.Descending()
	wOf := func(e int) int { return weights[e].Get() }
	state := fmt.Sprintf("members %v ascending %v descending %v weights [%d %d %d %d] heaviest %d lightest %d",
		members, asc, desc, wOf(1), wOf(2), wOf(3), wOf(4), ss.HeaviestElement().Get(), ss.LightestElement().Get())
	s.Logf("final %s", state)
	// a wrong final order is attributed to the insertion window if a weight update of an element overlapped a call
	// that inserted the same element
	suffix := ""
	for _, a := range adds {
		for _, wc := range weighs {
			if hasInt(a.elems, wc.elems[0]) && a.overlaps(&wc.call) {
				suffix = ":weight-update-overlapped-insertion-of-the-same-element"
			}
		}
	}
	r := newReach(s)
	r.hit("weight-update-overlaps-insertion-of-same-element", suffix != "")
	// wasMember: e was definitely a member at some moment before step t (initial member, or an insertion returned)
	wasMember := func(e int, t uint64) bool {
		if hasInt(initial, e) {
			return true
		}
		for _, a := range adds {
			if hasInt(a.elems, e) && a.ret != 0 && a.ret < t {
				return true
			}
		}
		return false
	}
	for _, wc := range changedWeighs {
		e := wc.elems[0]
		for _, d := range dels {
			if !hasInt(d.elems, e) || !wasMember(e, d.inv) {
				continue
			}
			r.hit("weight-change-overlaps-removal-of-same-element", d.overlaps(&wc.call))
			if d.ret != 0 && d.ret < wc.inv {
				// no insertion of e between the removal and the end of the weight update
				readded := false
				for _, a := range adds {
					readded = readded || hasInt(a.elems, e) && a.retOrInf() > d.inv && a.inv < wc.retOrInf()
				}
				r.hit("weight-change-of-removed-element", !readded)
			}
		}
		for _, o := range changedWeighs {
			r.hit("weight-changes-of-same-element-overlap", o != wc && o.elems[0] == e && o.overlaps(&wc.call))
		}
	}
	for _, d := range dels {
		for _, a := range adds {
			for _, e := range a.elems {
				if !hasInt(d.elems, e) || !wasMember(e, d.inv) {
					continue
				}
				r.hit("element-re-added-after-removal", d.ret != 0 && d.ret < a.inv)
				r.hit("insertion-overlaps-removal-of-same-element", d.overlaps(&a.call))
				for _, wc := range changedWeighs {
					r.hit("weight-change-of-re-added-element", d.ret != 0 && d.ret < a.inv && a.ret != 0 && a.ret < wc.inv && wc.elems[0] == e)
				}
			}
		}
	}
	for i, a := range memberCalls {
		for _, b := range memberCalls[i+1:] {
			r.hit("member-calls-overlap", memberTask[a] != memberTask[b] && a.overlaps(&b.call))
		}
	}
	r.hit("final-set-empty", len(asc) == 0)
	// with that overlap all symptoms are one finding (the unlocked weight callback of addSorted); without it every
	// symptom keeps its own signature
	bad := func(sym string) {
		if suffix != "" {
			sym = "order-or-ends-wrong"
		}
		s.Fail("sorted-set", sym+suffix, "%s", state)
	}
	if !eqInts(sortedInts(asc), members) {
		bad("ascending-lists-other-elements-than-the-set")
	}
	for i := range asc {
		if len(desc) != len(asc) || desc[len(asc)-1-i] != asc[i] {
			bad("descending-not-reverse-of-ascending")
		}
	}
	for i := 1; i < len(asc); i++ {
		wa, wb := wOf(asc[i-1]), wOf(asc[i])
		r.hit("final-order-with-equal-weights", wa == wb)
		if wa > wb {
			bad("not-ordered-by-current-weight")
		}
	}
	h, l := ss.HeaviestElement().Get(), ss.LightestElement().Get()
	if len(asc) == 0 {
		if h != 0 || l != 0 {
			bad("heaviest-lightest-set-on-empty-set")
		}
	} else {
		// ties: any element of maximal / minimal weight is accepted
		if !hasInt(members, h) || wOf(h) != wOf(asc[len(asc)-1]) {
			bad("heaviest-element-wrong")
		}
		if !hasInt(members, l) || wOf(l) != wOf(asc[0]) {
			bad("lightest-element-wrong")
		}
	}
}
