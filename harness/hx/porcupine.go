package hx

import (
	"sync/atomic"
	"time"

	"github.com/anishathalye/porcupine"
)

// CheckBounded runs porcupine with a bound on the number of model steps it may evaluate. Inside a simulator bubble
// porcupine's own wall-clock timeout never fires (the bubble's clock only advances when every goroutine is blocked, and
// the checker is busy), and the search is exponential in the number of operations that share an interval; the bound
// is counted, not timed, so that a run replays identically. A search that runs out of its budget is inconclusive
// (porcupine.Unknown), never a violation. steps reports how many model steps were evaluated.
func CheckBounded(m porcupine.Model, ops []porcupine.Operation, maxSteps int64) (res porcupine.CheckResult, steps int64) {
	var n atomic.Int64
	var exhausted atomic.Bool
	wm := m
	wm.Step = func(st, in, out interface{}) (bool, interface{}) {
		if n.Add(1) > maxSteps {
			exhausted.Store(true)
			return false, st
		}
		return m.Step(st, in, out)
	}
	res = porcupine.CheckOperationsTimeout(wm, ops, 10*time.Second)
	if exhausted.Load() {
		return porcupine.Unknown, n.Load()
	}
	return res, n.Load()
}

// StepBucket names the order of magnitude of a search, for reach probes.
func StepBucket(steps int64) string {
	switch {
	case steps <= 1000:
		return "<=1e3"
	case steps <= 10000:
		return "<=1e4"
	case steps <= 100000:
		return "<=1e5"
	case steps <= 1000000:
		return "<=1e6"
	}
	return ">1e6"
}
