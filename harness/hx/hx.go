// Package hx holds helpers shared by the simulation harnesses.
package hx

import (
	"fmt"
	"sort"
	"strings"

	"verifsim/simrt"
)

// Try runs f and reports a panic instead of propagating it.
func Try(f func()) (panicked bool, val any) {
	defer func() {
		if r := recover(); r != nil {
			panicked, val = true, r
		}
	}()
	f()
	return
}

// Stuck fails the run if any unfinished task at quiescence matches relevant. The signature lists the
// kind and blocking site of every unfinished task (relevant or not), so that a known finding is
// identified by the whole stuck configuration and a different hang is still reported.
func Stuck(s *simrt.Sim, oracle string, left []simrt.TaskInfo, relevant func(simrt.TaskInfo) bool) {
	hit := false
	var names, kinds []string
	for _, t := range left {
		if relevant == nil || relevant(t) {
			hit = true
		}
		names = append(names, fmt.Sprintf("%s(%s) %s on %s", t.Name, t.ID, t.State, t.WaitOn))
		kinds = append(kinds, kindOf(t.Name)+":"+t.WaitOn)
	}
	if hit {
		sort.Strings(kinds)
		kinds = uniq(kinds)
		s.Fail(oracle, strings.Join(kinds, "+"), "blocked forever at quiescence: %s", strings.Join(names, "; "))
	}
}

func kindOf(name string) string {
	// strip trailing digits / indexes: "client3" -> "client"
	return strings.TrimRight(name, "0123456789")
}

func uniq(in []string) []string {
	var out []string
	for i, x := range in {
		if i == 0 || x != in[i-1] {
			out = append(out, x)
		}
	}
	return out
}

// LinOp is one completed (or pending) operation of a concurrent history.
type LinOp struct {
	Call, Ret uint64 // Ret == 0: the call never returned (may or may not have taken effect)
	In, Out   any
	Desc      string
}

// Linearizable decides by exhaustive search (DFS over linearization orders, memoised on the set of linearized
// operations and the model state) whether the history is linearizable w.r.t. the sequential model. step returns
// the successor state and whether the operation's recorded output is legal in that state; key must identify a state.
// Pending operations may be linearized anywhere after their call or not at all.
func Linearizable[S any](ops []LinOp, init S, step func(S, LinOp) (S, bool), key func(S) string) bool {
	n := len(ops)
	if n > 62 {
		panic("history too long for the exact checker")
	}
	full := uint64(0)
	for i, o := range ops {
		if o.Ret != 0 {
			full |= 1 << uint(i)
		}
	}
	seen := map[string]bool{}
	var dfs func(done uint64, st S) bool
	dfs = func(done uint64, st S) bool {
		if done&full == full {
			return true
		}
		k := fmt.Sprintf("%x|%s", done, key(st))
		if seen[k] {
			return false
		}
		seen[k] = true
		// an operation can be linearized next if no other un-linearized completed operation returned before it was called
		minRet := ^uint64(0)
		for i, o := range ops {
			if done&(1<<uint(i)) == 0 && o.Ret != 0 && o.Ret < minRet {
				minRet = o.Ret
			}
		}
		for i, o := range ops {
			if done&(1<<uint(i)) != 0 || o.Call > minRet {
				continue
			}
			if ns, ok := step(st, o); ok {
				if dfs(done|1<<uint(i), ns) {
					return true
				}
			}
		}
		return false
	}
	return dfs(0, init)
}
