// Package hx holds helpers shared by the simulation harnesses.
package hx

import (
	"fmt"
	"sort"
	"strings"

	"verifsim/simrt"
)

// Try runs f and reports a panic instead of propagating it.
func Try(f func()) (panicked bool, val any) {
	defer func() {
		if r := recover(); r != nil {
			panicked, val = true, r
		}
	}()
	f()
	return
}

// Stuck fails the run if any unfinished task at quiescence matches relevant. The signature lists the
// kind and blocking site of every unfinished task (relevant or not), so that a known finding is
// identified by the whole stuck configuration and a different hang is still reported.
func Stuck(s *simrt.Sim, oracle string, left []simrt.TaskInfo, relevant func(simrt.TaskInfo) bool) {
	hit := false
	var names, kinds []string
	for _, t := range left {
		if relevant == nil || relevant(t) {
			hit = true
		}
		names = append(names, fmt.Sprintf("%s(%s) %s on %s", t.Name, t.ID, t.State, t.WaitOn))
		kinds = append(kinds, kindOf(t.Name)+":"+t.WaitOn)
	}
	if hit {
		sort.Strings(kinds)
		kinds = uniq(kinds)
		s.Fail(oracle, strings.Join(kinds, "+"), "blocked forever at quiescence: %s", strings.Join(names, "; "))
	}
}

func kindOf(name string) string {
	// strip trailing digits / indexes: "client3" -> "client"
	return strings.TrimRight(name, "0123456789")
}

func uniq(in []string) []string {
	var out []string
	for i, x := range in {
		if i == 0 || x != in[i-1] {
			out = append(out, x)
		}
	}
	return out
}
