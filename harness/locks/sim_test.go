package locks

import (
	"fmt"
	"sort"
	"strings"
	"testing"

	"github.com/iotaledger/hive.go/runtime/syncutils"
	"verifharness/hx"
	"verifsim/simrt"
)

func TestSim(t *testing.T) {
	simrt.Main(t,
		&simrt.Harness{Name: "starving", Body: starving},
		&simrt.Harness{Name: "dag", Body: dag},
		&simrt.Harness{Name: "misuse", Body: misuse},
		&simrt.Harness{Name: "counter", Body: counterWaits},
		&simrt.Harness{Name: "stack", Body: stackWaits},
	)
}

// ghost holder sets -----------------------------------------------------------------------------

type holders struct {
	readers map[int]int
	writer  map[int]string
}

func newHolders() *holders { return &holders{readers: map[int]int{}, writer: map[int]string{}} }

func (h *holders) acquire(s *simrt.Sim, who string, e int, write bool) {
	if write {
		if h.writer[e] != "" || h.readers[e] > 0 {
			s.Fail("exclusion", "write-granted-while-held", "%s got write lock on entity %d while writer=%q readers=%d", who, e, h.writer[e], h.readers[e])
		}
		h.writer[e] = who
	} else {
		if h.writer[e] != "" {
			s.Fail("exclusion", "read-granted-while-writer", "%s got read lock on entity %d while writer=%q holds it", who, e, h.writer[e])
		}
		h.readers[e]++
	}
}

// request is called right before a lock call: probes for calls that certainly have to wait.
func (h *holders) request(s *simrt.Sim, e int, write bool) {
	switch {
	case write && h.writer[e] != "":
		s.Probe("write-requested-while-writer-holds")
	case write && h.readers[e] > 0:
		s.Probe("write-requested-while-readers-hold")
	case !write && h.writer[e] != "":
		s.Probe("read-requested-while-writer-holds")
	case !write && h.readers[e] > 0:
		s.Probe("read-requested-while-readers-hold")
	}
}

func (h *holders) release(e int, write bool) {
	if write {
		h.writer[e] = ""
	} else {
		h.readers[e]--
	}
}

// StarvingMutex ---------------------------------------------------------------------------------

func starving(s *simrt.Sim) {
	m := syncutils.NewStarvingMutex()
	h := newHolders()
	nthreads := 2 + s.Choose(simrt.Bound(3, 5))
	for i := 0; i < nthreads; i++ {
		name := fmt.Sprintf("thread%d", i)
		nops := 1 + s.Choose(simrt.Bound(3, 4))
		ops := make([]bool, nops)
		hold := make([]int, nops)
		for j := range ops {
			ops[j] = s.Choose(2) == 1 // write?
			hold[j] = s.Choose(3)
		}
		s.Logf("script %s %v hold %v", name, ops, hold)
		s.Go(name, func() {
			for j, w := range ops {
				h.request(s, 0, w)
				if w {
					m.Lock()
				} else {
					m.RLock()
				}
				h.acquire(s, name, 0, w)
				s.Logf("%s acquired write=%v", name, w)
				for k := 0; k < hold[j]; k++ {
					simrt.Yield()
				}
				h.release(0, w)
				if w {
					m.Unlock()
				} else {
					m.RUnlock()
				}
				s.Logf("%s released write=%v", name, w)
			}
		})
	}
	left := s.Quiesce()
	hx.Stuck(s, "lost-wakeup", left, nil)
}

// DAGMutex --------------------------------------------------------------------------------------

type seg struct {
	ents  []int
	write bool // single entity if write
	hold  int
	multi bool // one RLock(ids...) call instead of one per id
	dup   bool // the multi-id call lists its first entity twice (a recursive read lock, which the starving mutex allows)
}

// ids is the id list of a multi-id RLock/RUnlock call.
func (sg *seg) ids() []int {
	if sg.dup {
		return append(append([]int{}, sg.ents...), sg.ents[0])
	}
	return sg.ents
}

func dag(s *simrt.Sim) {
	m := syncutils.NewDAGMutex[int]()
	h := newHolders()
	nent := 1 + s.Choose(3)
	nthreads := 2 + s.Choose(simrt.Bound(3, 5))
	for i := 0; i < nthreads; i++ {
		name := fmt.Sprintf("thread%d", i)
		nseg := 1 + s.Choose(2)
		var segs []seg
		for j := 0; j < nseg; j++ {
			var sg seg
			sg.hold = s.Choose(3)
			// choose an ascending subset of entities (acyclic order)
			for e := 0; e < nent; e++ {
				if s.Choose(2) == 1 {
					sg.ents = append(sg.ents, e)
				}
			}
			if len(sg.ents) == 0 {
				sg.ents = []int{s.Choose(nent)}
			}
			sg.write = s.Choose(2) == 1
			sg.multi = s.Choose(2) == 1
			sg.dup = sg.multi && !sg.write && s.Choose(4) == 3
			segs = append(segs, sg)
		}
		s.Logf("script %s %+v", name, segs)
		s.Go(name, func() {
			for _, sg := range segs {
				if sg.write {
					// writers lock one entity at a time, ascending
					for _, e := range sg.ents {
						h.request(s, e, true)
						m.Lock(e)
						h.acquire(s, name, e, true)
					}
				} else if sg.multi {
					for _, e := range sg.ents {
						h.request(s, e, false)
					}
					if sg.dup {
						s.Probe("multi-id-rlock-with-duplicate-id")
					}
					m.RLock(sg.ids()...)
					for _, e := range sg.ids() {
						h.acquire(s, name, e, false)
					}
				} else {
					for _, e := range sg.ents {
						h.request(s, e, false)
						m.RLock(e)
						h.acquire(s, name, e, false)
					}
				}
				s.Logf("%s holds %v write=%v", name, sg.ents, sg.write)
				for k := 0; k < sg.hold; k++ {
					simrt.Yield()
				}
				if sg.multi && !sg.write {
					for _, e := range sg.ids() {
						h.release(e, false)
					}
				} else {
					for _, e := range sg.ents {
						h.release(e, sg.write)
					}
				}
				if sg.write {
					for _, e := range sg.ents {
						m.Unlock(e)
					}
				} else if sg.multi {
					m.RUnlock(sg.ids()...)
				} else {
					for _, e := range sg.ents {
						m.RUnlock(e)
					}
				}
				s.Logf("%s released %v", name, sg.ents)
			}
		})
	}
	left := s.Quiesce()
	hx.Stuck(s, "lost-wakeup", left, nil)
}

// misuse ----------------------------------------------------------------------------------------

func misuse(s *simrt.Sim) {
	kind := s.Choose(6)
	switch kind {
	case 0, 1, 2: // StarvingMutex
		m := syncutils.NewStarvingMutex()
		// background state: nothing / a reader / a writer held by another task
		bg := s.Choose(3)
		switch bg {
		case 1:
			m.RLock()
		case 2:
			m.Lock()
		}
		before := m.String()
		var what string
		var f func()
		switch {
		case bg == 0 && kind == 0:
			what, f = "Unlock-unheld", m.Unlock
		case bg == 0:
			what, f = "RUnlock-unheld", m.RUnlock
		case bg == 1:
			what, f = "Unlock-while-readers", m.Unlock
		default:
			what, f = "RUnlock-while-writer", m.RUnlock
		}
		p, v := hx.Try(f)
		s.Logf("%s panicked=%v %v", what, p, v)
		if !p && m.String() != before {
			s.Fail("misuse", what, "%s neither panicked nor left the state unchanged: %s -> %s", what, before, m.String())
		}
		if p {
			return // the internal mutex may be left locked by the panic; nothing more to observe
		}
		// the lock must still work
		switch bg {
		case 1:
			m.RUnlock()
		case 2:
			m.Unlock()
		}
		done := false
		s.Go("prober", func() { m.Lock(); m.Unlock(); m.RLock(); m.RUnlock(); done = true })
		s.Quiesce()
		if !done {
			s.Fail("misuse", what+"-corrupts", "lock unusable after %s", what)
		}
	default: // DAGMutex
		m := syncutils.NewDAGMutex[int]()
		bg := s.Choose(3)
		switch bg {
		case 1:
			m.RLock(1)
		case 2:
			m.Lock(1)
		}
		var what string
		var f func()
		switch s.Choose(4) {
		case 0:
			what, f = "Unlock-unregistered", func() { m.Unlock(2) }
		case 1:
			what, f = "RUnlock-unregistered", func() { m.RUnlock(2) }
		case 2:
			what, f = "RUnlock-twice", func() { m.RLock(3); m.RUnlock(3); m.RUnlock(3) }
		default:
			what, f = "Unlock-twice", func() { m.Lock(3); m.Unlock(3); m.Unlock(3) }
		}
		p, v := hx.Try(f)
		s.Logf("%s panicked=%v %v", what, p, v)
		if p && strings.HasPrefix(what, "Unlock") {
			return // the write path panics with the DAGMutex's internal mutex held: nothing more can be observed
		}
		if p {
			s.Probe("dag-state-probed-after-recovered-runlock-panic")
		}
		// no panic, or a panic "instead of corrupting state" on the read path (which releases the internal mutex): the
		// state must be unchanged, i.e. entity 1 still held as before and 2/3 free and fully usable - also by two
		// consumers at a time
		h := newHolders()
		switch bg {
		case 1:
			h.acquire(s, "bg", 1, false)
		case 2:
			h.acquire(s, "bg", 1, true)
		}
		got := map[string]bool{}
		finished := 0
		for _, e := range []int{1, 2, 3, 2, 3} {
			e := e
			s.Go(fmt.Sprintf("prober%d", e), func() {
				m.Lock(e)
				h.acquire(s, "prober", e, true)
				got[fmt.Sprint(e)] = true
				simrt.Yield()
				h.release(e, true)
				m.Unlock(e)
				m.RLock(e)
				h.acquire(s, "prober", e, false)
				h.release(e, false)
				m.RUnlock(e)
				finished++
			})
		}
		s.Quiesce()
		want := 4
		if bg == 0 {
			want = 5
		}
		if finished != want {
			s.Fail("misuse", what+"-corrupts", "after %s (panicked=%v) only %d of %d consumers of the free entities finished", what, p, finished, want)
		}
		if !got["2"] || !got["3"] {
			s.Fail("misuse", what+"-corrupts", "entities unusable after %s: got %v", what, got)
		}
		if bg != 0 && got["1"] {
			s.Fail("misuse", what+"-corrupts", "entity 1 was granted although still held after %s", what)
		}
	}
}

// Counter ---------------------------------------------------------------------------------------

type change struct {
	step uint64
	val  int
}

func counterWaits(s *simrt.Sim) {
	c := syncutils.NewCounter()
	var tl []change // timeline of values (exact: recorded inside the critical section)
	tl = append(tl, change{0, 0})
	c.Subscribe(func(_, nv int) { tl = append(tl, change{s.Tick(), nv}) })
	type waiter struct {
		kind, thr int
		inv, ret  uint64
		done      bool
	}
	nw := 1 + s.Choose(3)
	ws := make([]*waiter, nw)
	nu := 1 + s.Choose(3)
	for i := 0; i < nu; i++ {
		nops := 1 + s.Choose(4)
		ops := make([]int, nops)
		for j := range ops {
			ops[j] = s.Choose(5)
		}
		s.Go(fmt.Sprintf("updater%d", i), func() {
			for _, o := range ops {
				switch o {
				case 0, 1:
					c.Increase()
				case 2:
					c.Decrease()
				case 3:
					c.Update(2)
				case 4:
					c.Set(0)
				}
			}
		})
	}
	holds := func(w *waiter, v int) bool {
		switch w.kind {
		case 0:
			return v < 1
		case 1:
			return v < w.thr
		default:
			return v > w.thr
		}
	}
	for i := range ws {
		w := &waiter{kind: s.Choose(3), thr: s.Choose(4) - 1}
		ws[i] = w
		s.Go(fmt.Sprintf("waiter%d", i), func() {
			w.inv = s.Tick()
			if !holds(w, tl[len(tl)-1].val) {
				s.Probe("counter-wait-invoked-while-condition-false")
			}
			switch w.kind {
			case 0:
				c.WaitIsZero()
			case 1:
				c.WaitIsBelow(w.thr)
			default:
				c.WaitIsAbove(w.thr)
			}
			w.ret = s.Tick()
			w.done = true
			// safety: the condition held at some instant inside [inv, ret]
			ok := false
			cur := 0
			for _, ch := range tl {
				if ch.step <= w.inv {
					cur = ch.val
					continue
				}
				if holds(w, cur) {
					ok = true
				}
				cur = ch.val
				if ch.step > w.ret {
					break
				}
			}
			if holds(w, cur) {
				ok = true
			}
			if !ok {
				s.Fail("wait-safety", fmt.Sprintf("counter-kind%d", w.kind), "wait kind=%d thr=%d returned although its condition never held in [%d,%d]; timeline %v", w.kind, w.thr, w.inv, w.ret, tl)
			}
		})
	}
	s.Quiesce()
	final := tl[len(tl)-1].val
	if c.Get() != final {
		s.Fail("counter-model", "value", "Get()=%d but last notified value %d", c.Get(), final)
	}
	for i, w := range ws {
		if !w.done {
			s.Probe("counter-waiter-blocked-at-quiescence")
			for _, ch := range tl {
				if ch.step > w.inv && holds(w, ch.val) {
					s.Probe("counter-condition-held-only-transiently")
					break
				}
			}
		}
		if !w.done && holds(w, final) {
			s.Fail("wait-liveness", fmt.Sprintf("counter-kind%d", w.kind), "waiter%d kind=%d thr=%d still blocked at quiescence although value=%d satisfies it", i, w.kind, w.thr, final)
		}
	}
}

// Stack -----------------------------------------------------------------------------------------

type ival struct {
	inv, ret uint64
	ok       bool
}

func stackWaits(s *simrt.Sim) {
	st := syncutils.NewStack[int]()
	var pushes, pops []*ival
	popped := map[int]int{}
	pushedVals := map[int]bool{}
	next := 0
	stop := false
	var stopStep uint64 // the step at which the PopOrWait wait condition was turned off
	var gaveUp []*ival  // PopOrWait calls that returned false
	np := 1 + s.Choose(3)
	for i := 0; i < np; i++ {
		nops := 1 + s.Choose(4)
		ops := make([]int, nops)
		for j := range ops {
			ops[j] = s.Choose(3)
		}
		s.Go(fmt.Sprintf("mutator%d", i), func() {
			for _, o := range ops {
				if o < 2 {
					next++
					v := next
					pushedVals[v] = true
					iv := &ival{inv: s.Tick()}
					pushes = append(pushes, iv)
					st.Push(v)
					iv.ret = s.Tick()
					iv.ok = true
				} else {
					iv := &ival{inv: s.Tick()}
					pops = append(pops, iv)
					v, ok := st.Pop()
					iv.ret = s.Tick()
					iv.ok = ok
					if ok {
						popped[v]++
					}
				}
			}
		})
	}
	type waiter struct {
		kind, thr int
		iv        *ival
		done      bool
	}
	nw := 1 + s.Choose(3)
	var ws []*waiter
	for i := 0; i < nw; i++ {
		w := &waiter{kind: s.Choose(4), thr: s.Choose(3)}
		ws = append(ws, w)
		s.Go(fmt.Sprintf("waiter%d", i), func() {
			w.iv = &ival{inv: s.Tick()}
			switch w.kind {
			case 0:
				st.WaitIsEmpty()
			case 1:
				st.WaitSizeIsBelow(w.thr + 1)
			case 2:
				st.WaitSizeIsAbove(w.thr)
			default:
				iv := &ival{inv: s.Tick()}
				pops = append(pops, iv)
				v, ok := st.PopOrWait(func() bool { return !stop })
				iv.ret = s.Tick()
				iv.ok = ok
				if ok {
					popped[v]++
				} else {
					gaveUp = append(gaveUp, iv)
				}
				if !ok && !stop {
					s.Fail("wait-safety", "poporwait-false", "PopOrWait returned false although the wait condition never failed")
				}
			}
			w.iv.ret = s.Tick()
			w.done = true
		})
	}
	// a signaller that turns the PopOrWait wait condition off and signals the waiters while they are arriving
	signalled := false
	if s.Choose(2) == 1 {
		d := s.Choose(6)
		s.Go("signaller", func() {
			for i := 0; i < d; i++ {
				simrt.Yield()
			}
			stop = true
			stopStep = s.Tick()
			for _, w := range ws {
				if w.kind == 3 && w.iv != nil && !w.done {
					s.Probe("shutdown-signalled-while-poporwait-in-flight")
				}
			}
			st.SignalShutdown()
			signalled = true
			s.Logf("wait condition turned off, SignalShutdown returned")
		})
	}
	s.Quiesce()
	// liveness at quiescence: a waiter whose condition holds now must have returned (PopOrWait: a non-empty stack, or
	// a wait condition that was turned off and signalled)
	size1 := st.Size()
	for i, w := range ws {
		if w.done {
			if w.kind == 3 {
				s.Probe("poporwait-returned")
			}
			continue
		}
		s.Probe(fmt.Sprintf("stack-waiter-kind%d-blocked-at-first-quiescence", w.kind))
		sat := false
		switch w.kind {
		case 0:
			sat = size1 < 1
		case 1:
			sat = size1 < w.thr+1
		case 2:
			sat = size1 > w.thr
		case 3:
			sat = size1 > 0 || signalled
		}
		if sat {
			s.Fail("wait-liveness", fmt.Sprintf("stack-kind%d", w.kind), "waiter%d kind=%d thr=%d still blocked at quiescence although size=%d satisfies it", i, w.kind, w.thr, size1)
		}
	}
	// release PopOrWait waiters that are legitimately blocked on an empty stack
	if !stop {
		stop = true
		stopStep = s.Tick()
	}
	st.SignalShutdown()
	left := s.Quiesce()
	size := st.Size()
	npush, npop := 0, 0
	for v, n := range popped {
		if n > 1 || !pushedVals[v] {
			s.Fail("conservation", "pop", "value %d popped %d times (pushed=%v)", v, n, pushedVals[v])
		}
		npop++
	}
	npush = len(pushedVals)
	if npush-npop != size {
		s.Fail("conservation", "size", "pushed %d popped %d but Size()=%d", npush, npop, size)
	}
	// bounds on the size at an instant t: pushes returned by t minus successful pops invoked by t
	// (lower), pushes invoked by t minus successful pops returned by t (upper)
	var evs []uint64
	for _, p := range pushes {
		evs = append(evs, p.inv, p.ret)
	}
	for _, p := range pops {
		evs = append(evs, p.inv, p.ret)
	}
	sort.Slice(evs, func(i, j int) bool { return evs[i] < evs[j] })
	lower := func(t uint64) int {
		n := 0
		for _, p := range pushes {
			if p.ok && p.ret <= t {
				n++
			}
		}
		for _, p := range pops {
			if p.inv <= t && (p.ok || p.ret == 0) {
				n--
			}
		}
		return n
	}
	upper := func(t uint64) int {
		n := 0
		for _, p := range pushes {
			if p.inv <= t {
				n++
			}
		}
		for _, p := range pops {
			if p.ok && p.ret != 0 && p.ret <= t {
				n--
			}
		}
		return n
	}
	// PopOrWait gives up (false) only when it finds the stack empty and the wait condition off: some instant of the
	// call, not before the condition was turned off, at which the stack can have been empty
	for _, iv := range gaveUp {
		from := max(iv.inv, stopStep)
		pts := []uint64{from, iv.ret}
		for _, e := range evs {
			if e > from && e < iv.ret {
				pts = append(pts, e)
			}
		}
		possible := false
		for _, t := range pts {
			possible = possible || lower(t) < 1
		}
		if possible {
			s.Probe("poporwait-gave-up-on-a-possibly-empty-stack")
		} else {
			s.Fail("wait-safety", "poporwait-false-on-a-non-empty-stack", "PopOrWait returned false in [%d,%d] although the stack held at least one element at every instant since the wait condition was turned off (step %d)", iv.inv, iv.ret, stopStep)
		}
	}
	for i, w := range ws {
		if w.kind == 3 {
			continue
		}
		if w.done {
			// safety: some instant in [inv,ret] where the condition could have held
			possible := false
			pts := []uint64{w.iv.inv, w.iv.ret}
			for _, e := range evs {
				if e > w.iv.inv && e < w.iv.ret {
					pts = append(pts, e)
				}
			}
			for _, t := range pts {
				switch w.kind {
				case 0:
					possible = possible || lower(t) < 1
				case 1:
					possible = possible || lower(t) < w.thr+1
				case 2:
					possible = possible || upper(t) > w.thr
				}
			}
			if !possible {
				s.Fail("wait-safety", fmt.Sprintf("stack-kind%d", w.kind), "waiter%d kind=%d thr=%d returned in [%d,%d] although its condition cannot have held", i, w.kind, w.thr, w.iv.inv, w.iv.ret)
			}
		} else {
			sat := false
			switch w.kind {
			case 0:
				sat = size < 1
			case 1:
				sat = size < w.thr+1
			case 2:
				sat = size > w.thr
			}
			if sat {
				s.Fail("wait-liveness", fmt.Sprintf("stack-kind%d", w.kind), "waiter%d kind=%d thr=%d blocked at quiescence although size=%d satisfies it", i, w.kind, w.thr, size)
			}
		}
	}
	for _, t := range left {
		if strings.HasPrefix(t.Name, "waiter") {
			for i, w := range ws {
				if fmt.Sprintf("waiter%d", i) == t.Name && w.kind == 3 {
					s.Fail("wait-liveness", "poporwait", "PopOrWait still blocked after its wait condition failed and SignalShutdown")
				}
			}
		} else {
			s.Fail("wait-liveness", "mutator", "%s blocked forever", t.Name)
		}
	}
}
