package daemon

// C20: app/daemon.OrderedDaemon stops background workers in descending shutdown order.
//
// One run = one daemon, 1..5 initial workers (orders from {-2,-1,0,1,1,3,7}), Start (by main or by a task) or Run
// (own task), 0..2 registrar tasks (new name / name of an existing worker, finished or still running at that moment),
// 1..3 Shutdown / ShutdownAndWait callers at decision-chosen moments, optional registration / Start attempts after
// ShutdownAndWait returned.
//
// Every worker stamps (Sim.Tick) the step at which its body started, at which `<-ctx.Done()` returned and at which it
// returned; in addition every such event polls ctx.Err() of all running workers, so a context that is cancelled too
// early is noticed at the next event even if its owner has not been scheduled yet.
//
// VERIF_CONFIG tokens (keep one defect from masking the rest):
//   startfirst  the daemon is running before any registrar or Shutdown caller moves
//   nolate      every registration has returned before the first Shutdown/ShutdownAndWait is invoked

import (
	"context"
	"errors"
	"fmt"
	"math"
	"testing"
	"time"

	"github.com/iotaledger/hive.go/app/daemon"
	"verifharness/hx"
	"verifsim/simrt"
)

func TestSim(t *testing.T) {
	simrt.Main(t, &simrt.Harness{Name: "daemon", Body: body, Cfg: simrt.Config{StallMenu: []time.Duration{5 * time.Millisecond}}})
}

var orderMenu = []int{-2, -1, 0, 1, 1, 3, 7}

// rarely an order from the ends of the int range (differences between orders then overflow)
var extremeOrders = []int{math.MaxInt, math.MinInt, math.MaxInt - 1, math.MinInt + 1}

const (
	kImmediate  = iota // returns as soon as the context is cancelled
	kYields            // a few scheduling points of work after the cancel
	kSleep             // sleeps on the fake clock after the cancel
	kSelfYields        // returns on its own (never looks at the context)
	kSelfSleep         // returns on its own after a sleep
	kPeerWait          // after its own cancel waits until every initial worker of the same order is cancelled too
)

var kindNames = []string{"on-cancel", "cancel+yields", "cancel+sleep", "self-return", "self-return-sleep", "peer-wait"}

// inst is one BackgroundWorker call and, if accepted, the worker it registered.
type inst struct {
	id      int
	name    string
	order   int
	kind    int
	work    int
	sleep   time.Duration
	initial bool // registered by main before Start/Run was invoked

	regInv, regRet uint64
	err            error
	accepted       bool

	ctx        context.Context
	started    uint64 // body invoked
	cancelSeen uint64 // <-ctx.Done() returned in the body
	cancelAt   uint64 // first step at which the context was observed cancelled while the body was running
	returned   uint64
	peers      []*inst
}

func (in *inst) waitsForCancel() bool {
	return in.kind == kImmediate || in.kind == kYields || in.kind == kSleep || in.kind == kPeerWait
}

type world struct {
	s     *simrt.Sim
	d     *daemon.OrderedDaemon
	insts []*inst
	// latest accepted registration per name
	latest map[string]*inst

	startInv, startRet uint64 // Start (mode start) or Run (mode run: startRet stays 0)
	runningAt          uint64 // first evidence that the daemon is running: Start returned or a worker body started
	runInv, runRet     uint64
	firstShutInv       uint64 // first Shutdown / ShutdownAndWait invocation
	sawRet             uint64 // first ShutdownAndWait return

	runningCtx    context.Context // cancelled when runningAt is set (gate for startfirst)
	runningOpen   context.CancelFunc
	regsCtx       context.Context // cancelled when all registrars are done (gate for nolate)
	regsOpen      context.CancelFunc
	registrarLeft int
}

// late: the registration did not return before the first Shutdown/ShutdownAndWait was invoked.
func (w *world) late(in *inst) bool {
	return w.firstShutInv != 0 && (in.regRet == 0 || in.regRet > w.firstShutInv)
}

// startOverlap: a shutdown call was invoked before there was evidence that the daemon runs, and Start/Run was
// invoked before ShutdownAndWait returned.
func (w *world) startOverlap() bool {
	if w.firstShutInv == 0 || w.startInv == 0 {
		return false
	}
	if w.runningAt != 0 && w.runningAt < w.firstShutInv {
		return false
	}
	// a shutdown that found the daemon not running cancels nobody
	w.poll()
	for _, in := range w.insts {
		if in.cancelAt != 0 {
			return false
		}
	}
	return w.sawRet == 0 || w.startInv < w.sawRet
}

// suffix classifies a violation by how the worker came to run: known race windows get their own signatures.
func (w *world) suffix(ins ...*inst) string {
	for _, in := range ins {
		if w.late(in) {
			return ":registered-during-shutdown"
		}
	}
	if w.startOverlap() {
		return ":start-overlaps-shutdown"
	}
	return ""
}

func (w *world) setRunning(step uint64) {
	if w.runningAt == 0 {
		w.runningAt = step
		simrt.Cancel(w.runningOpen)
	}
}

// poll notes contexts of running workers that are cancelled by now.
func (w *world) poll() {
	for _, b := range w.insts {
		if b.started != 0 && b.returned == 0 && b.cancelAt == 0 && b.ctx.Err() != nil {
			b.cancelAt = w.s.Tick()
		}
	}
}

// checkOrder polls the contexts of running workers and evaluates the ordering oracle on everything known so far.
func (w *world) checkOrder() {
	s := w.s
	w.poll()
	for _, b := range w.insts {
		if b.cancelAt == 0 {
			continue
		}
		for _, a := range w.insts {
			if a.started == 0 || a.order <= b.order {
				continue
			}
			if a.returned == 0 || a.returned > b.cancelAt {
				s.Fail("order", "lower-cancelled-before-higher-returned"+w.suffix(a, b),
					"context of %s (order %d) was cancelled by step %d but %s (order %d, started at %d) returned at step %d (0 = not yet)",
					b.name, b.order, b.cancelAt, a.name, a.order, a.started, a.returned)
			}
		}
	}
}

func (w *world) handler(in *inst) daemon.WorkerFunc {
	return func(ctx context.Context) {
		s := w.s
		if in.started != 0 {
			s.Fail("start-once", "worker-started-twice", "handler of %s#%d invoked twice", in.name, in.id)
		}
		in.ctx = ctx
		in.started = s.Tick()
		s.Logf("worker %s#%d (order %d, %s) started", in.name, in.id, in.order, kindNames[in.kind])
		if w.sawRet != 0 {
			s.Fail("after-shutdown", "worker-started"+w.suffix(in), "worker %s#%d started at step %d, after ShutdownAndWait had returned at step %d (registered in [%d,%d], first shutdown call at %d, Start/Run invoked at %d)",
				in.name, in.id, in.started, w.sawRet, in.regInv, in.regRet, w.firstShutInv, w.startInv)
		}
		w.setRunning(in.started)
		w.checkOrder()
		switch in.kind {
		case kSelfYields:
			for i := 0; i < in.work; i++ {
				simrt.Yield()
			}
		case kSelfSleep:
			simrt.Sleep(in.sleep)
		default:
			simrt.Recv(ctx.Done())
			in.cancelSeen = s.Tick()
			if in.cancelAt == 0 {
				in.cancelAt = in.cancelSeen
			}
			s.Logf("worker %s#%d saw cancel", in.name, in.id)
			w.checkOrder()
			switch in.kind {
			case kYields:
				for i := 0; i < in.work; i++ {
					simrt.Yield()
				}
			case kSleep:
				simrt.Sleep(in.sleep)
			case kPeerWait:
				for _, p := range in.peers {
					if p != in && p.started != 0 && p.returned == 0 {
						simrt.Recv(p.ctx.Done())
					}
				}
			}
		}
		in.returned = s.Tick()
		s.Logf("worker %s#%d returned", in.name, in.id)
		w.checkOrder()
	}
}

func (w *world) newInst(name string, initial bool) *inst {
	s := w.s
	in := &inst{id: len(w.insts), name: name, initial: initial,
		order: orderMenu[s.Choose(len(orderMenu))],
		kind:  s.Weighted(3, 2, 2, 2, 1, 1),
		work:  1 + s.Choose(3),
		sleep: simrt.Knob(s, time.Millisecond, 5*time.Millisecond, 50*time.Millisecond),
	}
	if s.Choose(10) == 9 {
		in.order = extremeOrders[s.Choose(len(extremeOrders))]
		s.Probe("worker-with-extreme-order")
	}
	w.insts = append(w.insts, in)
	return in
}

// register performs one BackgroundWorker call and checks its result.
func (w *world) register(in *inst) {
	s := w.s
	prev := w.latest[in.name]
	prevLive := prev != nil && prev.returned == 0
	running := w.runningAt != 0
	afterSAW := w.sawRet != 0
	in.regInv = s.Tick()
	s.Logf("BackgroundWorker(%s#%d, order %d, %s)", in.name, in.id, in.order, kindNames[in.kind])
	var err error
	if in.order == 0 && in.work == 1 {
		err = w.d.BackgroundWorker(in.name, w.handler(in)) // default order
	} else {
		err = w.d.BackgroundWorker(in.name, w.handler(in), in.order)
	}
	in.regRet = s.Tick()
	in.err, in.accepted = err, err == nil
	s.Logf("BackgroundWorker(%s#%d) = %v", in.name, in.id, err)
	raced := w.latest[in.name] != prev // another registration of the same name completed meanwhile
	switch {
	case errors.Is(err, daemon.ErrExistingBackgroundWorkerStillRunning):
		s.Probe("refused-still-running")
	case errors.Is(err, daemon.ErrDuplicateBackgroundWorker):
		s.Probe("refused-duplicate")
	case errors.Is(err, daemon.ErrDaemonAlreadyStopped):
		s.Probe("refused-already-stopped")
	case err == nil && !in.initial && prev != nil:
		s.Probe("accepted-name-of-finished-worker")
	case err == nil && !in.initial && w.firstShutInv != 0:
		s.Probe("accepted-during-shutdown")
	case err == nil && !in.initial:
		s.Probe("accepted-new-name-while-running")
	}
	if in.accepted {
		w.latest[in.name] = in
	}
	if afterSAW && !errors.Is(err, daemon.ErrDaemonAlreadyStopped) {
		s.Fail("after-shutdown", "registration-not-refused", "BackgroundWorker(%s) invoked at step %d, after ShutdownAndWait had returned at step %d, returned %v", in.name, in.regInv, w.sawRet, err)
	}
	if in.accepted && prevLive && prev.returned == 0 && running && !raced {
		s.Fail("still-running", "registration-accepted"+w.suffix(in), "BackgroundWorker(%s) in steps [%d,%d] was accepted although worker %s#%d (started at %d) was running during the whole call",
			in.name, in.regInv, in.regRet, prev.name, prev.id, prev.started)
	}
}

func (w *world) shutdownCall(wait bool) {
	s := w.s
	inv := s.Tick()
	if w.firstShutInv == 0 {
		w.firstShutInv = inv
	}
	if !wait {
		s.Logf("Shutdown")
		w.d.Shutdown()
		s.Logf("Shutdown returned")
		return
	}
	s.Logf("ShutdownAndWait")
	w.d.ShutdownAndWait()
	ret := s.Tick()
	if w.sawRet == 0 {
		w.sawRet = ret
	}
	s.Logf("ShutdownAndWait returned")
	w.checkOrder()
	for _, in := range w.insts {
		if in.started != 0 && in.returned == 0 {
			s.Fail("shutdown-waits", "worker-running-at-return"+w.suffix(in), "ShutdownAndWait (steps [%d,%d]) returned while worker %s#%d (order %d, registered in [%d,%d], started at %d, cancel seen at %d) had not returned",
				inv, ret, in.name, in.id, in.order, in.regInv, in.regRet, in.started, in.cancelSeen)
		}
	}
}

func body(s *simrt.Sim) {
	startFirst := simrt.ConfigHas("startfirst")
	noLate := simrt.ConfigHas("nolate")
	w := &world{s: s, d: daemon.New(), latest: map[string]*inst{}}
	w.runningCtx, w.runningOpen = context.WithCancel(context.Background())
	w.regsCtx, w.regsOpen = context.WithCancel(context.Background())

	// initial workers, registered before Start
	nworkers := 1 + s.Choose(5)
	var initial []*inst
	for i := 0; i < nworkers; i++ {
		name := fmt.Sprintf("w%d", i)
		if i > 0 && s.Choose(10) == 9 {
			name = fmt.Sprintf("w%d", s.Choose(i)) // duplicate before Start: refused, the first registration stays
		}
		in := w.newInst(name, true)
		w.register(in)
		if in.accepted {
			initial = append(initial, in)
		}
	}
	for _, in := range initial {
		for _, p := range initial {
			if p.order == in.order && p.waitsForCancel() {
				in.peers = append(in.peers, p)
			}
		}
	}

	mode := s.Choose(3) // 0: main calls Start, 1: a task calls Start, 2: a task calls Run
	s.Logf("config workers=%d mode=%d startfirst=%v nolate=%v", nworkers, mode, startFirst, noLate)
	doStart := func() {
		w.startInv = s.Tick()
		s.Logf("Start")
		w.d.Start()
		w.startRet = s.Tick()
		s.Logf("Start returned")
		w.setRunning(w.startRet)
	}
	switch mode {
	case 0:
		doStart()
	case 1:
		s.Go("starter", doStart)
	case 2:
		s.Go("runner", func() {
			w.runInv = s.Tick()
			w.startInv = w.runInv
			s.Logf("Run")
			w.d.Run()
			w.runRet = s.Tick()
			s.Logf("Run returned")
			if w.firstShutInv == 0 {
				s.Probe("run-returned-before-shutdown")
			}
			for _, in := range w.insts {
				if in.started != 0 && in.returned == 0 && in.regRet != 0 && in.regRet < w.runInv {
					s.Fail("run-waits", "worker-running-at-return"+w.suffix(in), "Run (steps [%d,%d]) returned while worker %s#%d (order %d, registered before Run, started at %d) had not returned",
						w.runInv, w.runRet, in.name, in.id, in.order, in.started)
				}
			}
		})
	}
	waitRunning := func() {
		if startFirst && w.runningAt == 0 {
			simrt.Recv(w.runningCtx.Done())
		}
	}

	// registrars
	nreg := s.Choose(3)
	w.registrarLeft = nreg
	if nreg == 0 {
		w.regsOpen()
	}
	xn := 0
	for r := 0; r < nreg; r++ {
		n := 1 + s.Choose(2)
		type step struct {
			delay int
			in    *inst
		}
		steps := make([]step, n)
		for j := range steps {
			name := fmt.Sprintf("x%d", xn)
			if s.Choose(3) != 0 {
				name = fmt.Sprintf("w%d", s.Choose(nworkers))
			} else {
				xn++
			}
			steps[j].delay = s.Choose(6)
			steps[j].in = w.newInst(name, false)
		}
		s.Go(fmt.Sprintf("registrar%d", r), func() {
			waitRunning()
			for _, st := range steps {
				for i := 0; i < st.delay; i++ {
					simrt.Yield()
				}
				w.register(st.in)
			}
			w.registrarLeft--
			if w.registrarLeft == 0 {
				simrt.Cancel(w.regsOpen)
			}
		})
	}

	// shutdown callers
	nstop := 1 + s.Choose(3)
	for i := 0; i < nstop; i++ {
		wait := s.Choose(2) == 0
		delay := s.Choose(10)
		var sleep time.Duration
		if s.Choose(3) == 2 {
			sleep = simrt.Knob(s, time.Millisecond, 5*time.Millisecond, 20*time.Millisecond)
		}
		after := s.Choose(4) // after ShutdownAndWait: 0 nothing, 1 register new, 2 register existing, 3 Start again
		var afterInst *inst
		switch {
		case wait && after == 1:
			afterInst = w.newInst(fmt.Sprintf("y%d", i), false)
		case wait && after == 2:
			afterInst = w.newInst(fmt.Sprintf("w%d", s.Choose(nworkers)), false)
		}
		s.Go(fmt.Sprintf("stopper%d", i), func() {
			waitRunning()
			if noLate && w.registrarLeft > 0 {
				simrt.Recv(w.regsCtx.Done())
			}
			for k := 0; k < delay; k++ {
				simrt.Yield()
			}
			if sleep > 0 {
				simrt.Sleep(sleep)
			}
			w.shutdownCall(wait)
			if !wait {
				return
			}
			if afterInst != nil {
				w.register(afterInst)
			}
			if after == 3 {
				s.Logf("Start (after shutdown)")
				w.d.Start()
				s.Logf("Start (after shutdown) returned")
			}
		})
	}

	// 0-2 observers that list the running workers at drawn moments (a read-only call: it must not disturb anything, and
	// its result is only logged: a worker counts as running from its registration on)
	nobs := s.Choose(3)
	for o := 0; o < nobs; o++ {
		calls := 1 + s.Choose(3)
		gap := s.Choose(4)
		s.Go(fmt.Sprintf("observer%d", o), func() {
			for c := 0; c < calls; c++ {
				for k := 0; k < gap; k++ {
					simrt.Yield()
				}
				names := w.d.GetRunningBackgroundWorkers()
				s.Logf("GetRunningBackgroundWorkers -> %v", names)
			}
		})
	}

	left := s.Quiesce()
	w.checkOrder()
	// at quiescence every started worker has returned. A worker that was registered during shutdown and is never
	// cancelled also keeps stopWorkers (and with it every worker of a lower order) waiting: it is reported first.
	var running []*inst
	for _, in := range w.insts {
		if in.started != 0 && in.returned == 0 && w.late(in) {
			running = append(running, in)
		}
	}
	lateRunning := len(running) > 0
	for _, in := range w.insts {
		if in.started != 0 && in.returned == 0 && !w.late(in) {
			running = append(running, in)
		}
	}
	for _, in := range running {
		suffix := w.suffix(in)
		if lateRunning {
			suffix = ":registered-during-shutdown"
		}
		if in.kind == kPeerWait && in.cancelSeen != 0 {
			s.Fail("equal-order", "peer-not-cancelled"+suffix, "worker %s#%d (order %d) saw its cancel at step %d but an initial worker of the same order was never cancelled; unfinished: %v", in.name, in.id, in.order, in.cancelSeen, left)
		}
		what := "never-cancelled"
		if in.cancelAt != 0 {
			what = "cancelled-but-running"
		}
		s.Fail("left-running", what+suffix, "worker %s#%d (order %d, %s, registered in [%d,%d] = %v, started at %d, cancel seen at %d) has not returned at quiescence; first shutdown call at step %d, ShutdownAndWait returned at %d; unfinished: %v",
			in.name, in.id, in.order, kindNames[in.kind], in.regInv, in.regRet, in.err, in.started, in.cancelSeen, w.firstShutInv, w.sawRet, left)
	}
	hx.Stuck(s, "termination", left, nil)
}
