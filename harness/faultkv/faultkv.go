// Package faultkv is the simulated "disk" seam: a kvstore.KVStore that forwards to the real
// (rewritten) mapdb and lets the harness fail a call before it takes effect, or observe / crash at
// the boundary before and after every store call.
package faultkv

import (
	"errors"

	"github.com/iotaledger/hive.go/kvstore"
	"github.com/iotaledger/hive.go/kvstore/mapdb"
	"verifsim/simrt"
)

// ErrInjected is returned by a call the harness decided to fail.
var ErrInjected = errors.New("injected store failure")

// Store wraps a mapdb.
type Store struct {
	S     *simrt.Sim
	Inner kvstore.KVStore
	// Before is called before every store call (op name); returning true fails the call with ErrInjected
	// before it takes effect. It may also freeze (crash) the calling task.
	Before func(op string) (fail bool)
	// After is called after the call took effect (it may crash the calling task: the effect is durable, the
	// caller never learns).
	After func(op string)
	// AtomicOps makes the inner store call one indivisible step (needed when tasks can be frozen: a crashed task
	// must not hold the store's own lock).
	AtomicOps bool
	Calls     int
}

func New(s *simrt.Sim) *Store { return &Store{S: s, Inner: mapdb.NewMapDB()} }

func (f *Store) before(op string) bool {
	f.Calls++
	if f.Before != nil {
		return f.Before(op)
	}
	return false
}

func (f *Store) after(op string) {
	if f.After != nil {
		f.After(op)
	}
}

func (f *Store) do(fn func()) {
	if f.AtomicOps {
		f.S.Atomic(fn)
	} else {
		fn()
	}
}

func (f *Store) WithRealm(realm kvstore.Realm) (kvstore.KVStore, error) {
	in, err := f.Inner.WithRealm(realm)
	if err != nil {
		return nil, err
	}
	c := *f
	c.Inner = in
	return &c, nil
}

func (f *Store) WithExtendedRealm(realm kvstore.Realm) (kvstore.KVStore, error) {
	in, err := f.Inner.WithExtendedRealm(realm)
	if err != nil {
		return nil, err
	}
	c := *f
	c.Inner = in
	return &c, nil
}

func (f *Store) Realm() kvstore.Realm { return f.Inner.Realm() }

func (f *Store) Iterate(prefix kvstore.KeyPrefix, fn kvstore.IteratorKeyValueConsumerFunc, d ...kvstore.IterDirection) (err error) {
	if f.before("Iterate") {
		return ErrInjected
	}
	f.do(func() { err = f.Inner.Iterate(prefix, fn, d...) })
	f.after("Iterate")
	return err
}

func (f *Store) IterateKeys(prefix kvstore.KeyPrefix, fn kvstore.IteratorKeyConsumerFunc, d ...kvstore.IterDirection) (err error) {
	if f.before("IterateKeys") {
		return ErrInjected
	}
	f.do(func() { err = f.Inner.IterateKeys(prefix, fn, d...) })
	f.after("IterateKeys")
	return err
}

func (f *Store) Clear() (err error) {
	if f.before("Clear") {
		return ErrInjected
	}
	f.do(func() { err = f.Inner.Clear() })
	f.after("Clear")
	return err
}

func (f *Store) Get(key kvstore.Key) (v kvstore.Value, err error) {
	if f.before("Get") {
		return nil, ErrInjected
	}
	f.do(func() { v, err = f.Inner.Get(key) })
	f.after("Get")
	return v, err
}

func (f *Store) Set(key kvstore.Key, value kvstore.Value) (err error) {
	if f.before("Set") {
		return ErrInjected
	}
	f.do(func() { err = f.Inner.Set(key, value) })
	f.after("Set")
	return err
}

func (f *Store) Has(key kvstore.Key) (has bool, err error) {
	if f.before("Has") {
		return false, ErrInjected
	}
	f.do(func() { has, err = f.Inner.Has(key) })
	f.after("Has")
	return has, err
}

func (f *Store) Delete(key kvstore.Key) (err error) {
	if f.before("Delete") {
		return ErrInjected
	}
	f.do(func() { err = f.Inner.Delete(key) })
	f.after("Delete")
	return err
}

func (f *Store) DeletePrefix(prefix kvstore.KeyPrefix) (err error) {
	if f.before("DeletePrefix") {
		return ErrInjected
	}
	f.do(func() { err = f.Inner.DeletePrefix(prefix) })
	f.after("DeletePrefix")
	return err
}

func (f *Store) Flush() (err error) {
	if f.before("Flush") {
		return ErrInjected
	}
	f.do(func() { err = f.Inner.Flush() })
	f.after("Flush")
	return err
}

func (f *Store) Close() error { return f.Inner.Close() }

func (f *Store) Batched() (kvstore.BatchedMutations, error) {
	if f.before("Batched") {
		return nil, ErrInjected
	}
	b, err := f.Inner.Batched()
	if err != nil {
		return nil, err
	}
	return &batch{f: f, b: b}, nil
}

type batch struct {
	f *Store
	b kvstore.BatchedMutations
}

func (b *batch) Set(k kvstore.Key, v kvstore.Value) error { return b.b.Set(k, v) }
func (b *batch) Delete(k kvstore.Key) error               { return b.b.Delete(k) }
func (b *batch) Cancel()                                  { b.b.Cancel() }
func (b *batch) Commit() (err error) {
	if b.f.before("Commit") {
		b.b.Cancel()
		return ErrInjected
	}
	b.f.do(func() { err = b.b.Commit() })
	b.f.after("Commit")
	return err
}

// Raw reads a key from the un-faulted inner store (side door for oracles).
func (f *Store) Raw(key []byte) (v []byte, ok bool) {
	f.S.Atomic(func() {
		x, err := f.Inner.Get(key)
		if err == nil {
			v, ok = x, true
		}
	})
	return
}
