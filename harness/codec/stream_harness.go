package codec

// C01 (a): every stream Write*/Read* helper pair, written to a stream.ByteBuffer and read back through
// the simulated reader. One helper family per run, so that a defect of one family cannot hide another.

import (
	"bytes"
	"fmt"
	"io"
	"reflect"

	"github.com/iotaledger/hive.go/serializer/v2"
	"github.com/iotaledger/hive.go/serializer/v2/serix"
	"github.com/iotaledger/hive.go/serializer/v2/stream"
	"verifharness/hx"
	"verifsim/simrt"
)

var lenTypes = []serializer.SeriLengthPrefixType{
	serializer.SeriLengthPrefixTypeAsByte, serializer.SeriLengthPrefixTypeAsUint16,
	serializer.SeriLengthPrefixTypeAsUint32, serializer.SeriLengthPrefixTypeAsUint64,
}
var lenTypeNames = []string{"u8", "u16", "u32", "u64"}
var lenTypeWidth = []int{1, 2, 4, 8}

type A32 [32]byte
type A36 [36]byte
type A38 [38]byte

// item is one value written with a Write* helper and read back with its Read* mirror.
type item struct {
	helper string // name of the read helper (signature)
	desc   string
	empty  bool // the value occupies zero bytes in the stream
	write  func(w io.WriteSeeker) error
	read   func(r io.ReadSeeker) (string, error) // "" = value equal, else a description of the difference
}

func scalarItem[T comparable](helper string, x T) *item {
	return &item{helper: helper, desc: fmt.Sprintf("%T(%v)", x, x),
		write: func(w io.WriteSeeker) error { return writeScalar(w, x) },
		read: func(r io.ReadSeeker) (string, error) {
			got, err := readScalar[T](r)
			if err != nil {
				return "", err
			}
			if got != x {
				return fmt.Sprintf("got %v want %v", got, x), nil
			}
			return "", nil
		}}
}

func writeScalar[T comparable](w io.Writer, x T) error {
	switch v := any(x).(type) {
	case bool:
		return stream.Write(w, v)
	case uint8:
		return stream.Write(w, v)
	case uint16:
		return stream.Write(w, v)
	case uint32:
		return stream.Write(w, v)
	case uint64:
		return stream.Write(w, v)
	case int8:
		return stream.Write(w, v)
	case int16:
		return stream.Write(w, v)
	case int32:
		return stream.Write(w, v)
	case int64:
		return stream.Write(w, v)
	case A32:
		return stream.Write(w, v)
	case A36:
		return stream.Write(w, v)
	case A38:
		return stream.Write(w, v)
	}
	panic("unsupported scalar")
}

func readScalar[T comparable](r io.Reader) (T, error) {
	var zero T
	switch any(zero).(type) {
	case bool:
		v, err := stream.Read[bool](r)
		return any(v).(T), err
	case uint8:
		v, err := stream.Read[uint8](r)
		return any(v).(T), err
	case uint16:
		v, err := stream.Read[uint16](r)
		return any(v).(T), err
	case uint32:
		v, err := stream.Read[uint32](r)
		return any(v).(T), err
	case uint64:
		v, err := stream.Read[uint64](r)
		return any(v).(T), err
	case int8:
		v, err := stream.Read[int8](r)
		return any(v).(T), err
	case int16:
		v, err := stream.Read[int16](r)
		return any(v).(T), err
	case int32:
		v, err := stream.Read[int32](r)
		return any(v).(T), err
	case int64:
		v, err := stream.Read[int64](r)
		return any(v).(T), err
	case A32:
		v, err := stream.Read[A32](r)
		return any(v).(T), err
	case A36:
		v, err := stream.Read[A36](r)
		return any(v).(T), err
	case A38:
		v, err := stream.Read[A38](r)
		return any(v).(T), err
	}
	panic("unsupported scalar")
}

func genScalarItem(s *simrt.Sim, helper string) *item {
	switch s.Choose(12) {
	case 0:
		return scalarItem(helper, s.Choose(2) == 1)
	case 1:
		return scalarItem(helper, uint8(genBits(s, 8)))
	case 2:
		return scalarItem(helper, uint16(genBits(s, 16)))
	case 3:
		return scalarItem(helper, uint32(genBits(s, 32)))
	case 4:
		return scalarItem(helper, genBits(s, 64))
	case 5:
		return scalarItem(helper, int8(genBits(s, 8)))
	case 6:
		return scalarItem(helper, int16(genBits(s, 16)))
	case 7:
		return scalarItem(helper, int32(genBits(s, 32)))
	case 8:
		return scalarItem(helper, int64(genBits(s, 64)))
	case 9:
		var a A32
		copy(a[:], genRawBytes(s, 32))
		return scalarItem(helper, a)
	case 10:
		var a A36
		copy(a[:], genRawBytes(s, 36))
		return scalarItem(helper, a)
	default:
		var a A38
		copy(a[:], genRawBytes(s, 38))
		return scalarItem(helper, a)
	}
}

func diffBytes(got, want []byte) string {
	if !bytes.Equal(got, want) {
		return fmt.Sprintf("got %x want %x", clip(got), clip(want))
	}
	return ""
}

// payload draws a zoo value and returns the entry, the original Go value (pointer), and the expected
// decoded value (pointer).
func payload(s *simrt.Sim) (e *entry, orig, want reflect.Value, ref *frag) {
	for {
		e = zoo[s.Choose(len(zoo))]
		if !e.decodeBroken && !e.allocProne {
			break
		}
	}
	orig, want, ref = genCase(s, e)
	return
}

func genCase(s *simrt.Sim, e *entry) (orig, want reflect.Value, ref *frag) {
	v := gen(s, e.n, 0)
	conform(e.n, v)
	orig = e.goValue(v) // before canonicalisation: auto-sorted slices are still unsorted here
	ref = refEncode(e.n, v)
	want = e.goValue(v)
	return
}

func valOpts(validate bool) []serix.Option {
	if validate {
		return []serix.Option{serix.WithValidation()}
	}
	return nil
}

func encodeReal(s *simrt.Sim, obj reflect.Value, validate bool) (b []byte, err error) {
	s.Atomic(func() {
		b, err = api.Encode(ctx, obj.Elem().Interface(), valOpts(validate)...)
		b = append([]byte{}, b...)
	})
	return
}

func objectItem(s *simrt.Sim, helper string, withSize bool, lt int) *item {
	e, orig, want, ref := payload(s)
	validate := s.Choose(2) == 1
	toBytes := func(x reflect.Value) ([]byte, error) { return encodeReal(s, x, validate) }
	var decodePanic any
	fromBytes := func(b []byte) (reflect.Value, int, error) {
		p := reflect.New(e.rt)
		var n int
		var err error
		s.Atomic(func() {
			if panicked, pv := hx.Try(func() { n, err = api.Decode(ctx, b, p.Interface(), valOpts(validate)...) }); panicked {
				decodePanic = pv
				err = fmt.Errorf("payload decode panicked: %v", pv)
			}
		})
		return p, n, err
	}
	it := &item{helper: helper, desc: fmt.Sprintf("%s(%d bytes, validate=%v)", e.name, len(ref.b), validate)}
	if withSize {
		it.desc += " prefix=" + lenTypeNames[lt]
		it.write = func(w io.WriteSeeker) error { return stream.WriteObjectWithSize(w, orig, lenTypes[lt], toBytes) }
		it.read = func(r io.ReadSeeker) (string, error) {
			got, err := stream.ReadObjectWithSize(r, lenTypes[lt], fromBytes)
			if decodePanic != nil {
				s.Fail("serix-roundtrip", "panic:Decode:"+e.name+":"+panicClass(decodePanic), "Decode of a valid %s encoding panicked: %v", e.name, decodePanic)
			}
			if err != nil {
				return "", err
			}
			return same(want.Elem(), got.Elem(), e.name), nil
		}
	} else {
		it.write = func(w io.WriteSeeker) error { return stream.WriteObject(w, orig, toBytes) }
		it.read = func(r io.ReadSeeker) (string, error) {
			got, err := stream.ReadObject(r, len(ref.b), fromBytes)
			if decodePanic != nil {
				s.Fail("serix-roundtrip", "panic:Decode:"+e.name+":"+panicClass(decodePanic), "Decode of a valid %s encoding panicked: %v", e.name, decodePanic)
			}
			if err != nil {
				return "", err
			}
			return same(want.Elem(), got.Elem(), e.name), nil
		}
	}
	return it
}

func bytesPayload(s *simrt.Sim, lt int) []byte {
	// mostly serix encodings of zoo values, sometimes raw / empty / longer than one prefix byte's range
	switch s.Choose(7) {
	case 6:
		// around the size up to which ReadBytes allocates up front (4096) and well beyond it
		if lt >= 1 {
			n := 4090 + s.Choose(12)
			if s.Choose(4) == 3 {
				n = 9000 + s.Choose(100)
			}
			b := make([]byte, n)
			seed := s.Choose(256)
			for i := range b {
				b[i] = byte(seed + i*7)
			}
			return b
		}
		return genRawBytes(s, 1+s.Choose(8))
	case 0:
		return []byte{}
	case 1:
		return genRawBytes(s, 1+s.Choose(8))
	case 2:
		if lt >= 1 {
			return genRawBytes(s, 256+s.Choose(64))
		}
		return genRawBytes(s, 200+s.Choose(56))
	default:
		_, _, _, ref := payload(s)
		b := ref.b
		if lt == 0 && len(b) > 255 {
			b = b[:255]
		}
		return b
	}
}

type streamFamily struct {
	name string
	gen  func(s *simrt.Sim) *item
}

// widths is the number of length-prefix widths an item may draw from. Only the first item of a stream
// uses the 8-byte width: should a defective helper misalign the stream, a later item's 8-byte prefix
// would be read from arbitrary bytes, and stream.ReadBytes turns values between 2^33 and 2^47 into an
// unrecoverable runtime out-of-memory abort of the whole worker (see faults.go dangerous()).
var widths = 4

var streamFamilies = []streamFamily{
	{"Read", func(s *simrt.Sim) *item { return genScalarItem(s, "Read") }},
	{"ReadBytes", func(s *simrt.Sim) *item {
		b := bytesPayload(s, 3)
		return &item{helper: "ReadBytes", desc: fmt.Sprintf("%d bytes", len(b)), empty: len(b) == 0,
			write: func(w io.WriteSeeker) error { return stream.WriteBytes(w, b) },
			read: func(r io.ReadSeeker) (string, error) {
				got, err := stream.ReadBytes(r, len(b))
				if err != nil {
					return "", err
				}
				return diffBytes(got, b), nil
			}}
	}},
	{"ReadBytesWithSize", func(s *simrt.Sim) *item {
		lt := s.Choose(widths)
		b := bytesPayload(s, lt)
		return &item{helper: "ReadBytesWithSize", desc: fmt.Sprintf("%d bytes prefix=%s", len(b), lenTypeNames[lt]),
			write: func(w io.WriteSeeker) error { return stream.WriteBytesWithSize(w, b, lenTypes[lt]) },
			read: func(r io.ReadSeeker) (string, error) {
				got, err := stream.ReadBytesWithSize(r, lenTypes[lt])
				if err != nil {
					return "", err
				}
				return diffBytes(got, b), nil
			}}
	}},
	{"ReadObject", func(s *simrt.Sim) *item { return objectItem(s, "ReadObject", false, 0) }},
	{"ReadObjectWithSize", func(s *simrt.Sim) *item { return objectItem(s, "ReadObjectWithSize", true, 1+s.Choose(widths-1)) }},
	{"ReadCollection", func(s *simrt.Sim) *item { return collectionItem(s, false) }},
	{"PeekSize", func(s *simrt.Sim) *item { return collectionItem(s, true) }},
	{"ReadObjectFromReader", func(s *simrt.Sim) *item {
		a, b := uint16(genBits(s, 16)), genBits(s, 64)
		type pair struct {
			a uint16
			b uint64
		}
		return &item{helper: "ReadObjectFromReader", desc: fmt.Sprintf("pair(%d,%d)", a, b),
			write: func(w io.WriteSeeker) error {
				if err := stream.Write(w, a); err != nil {
					return err
				}
				return stream.Write(w, b)
			},
			read: func(r io.ReadSeeker) (string, error) {
				got, err := stream.ReadObjectFromReader(r, func(r io.ReadSeeker) (pair, error) {
					x, err := stream.Read[uint16](r)
					if err != nil {
						return pair{}, err
					}
					y, err := stream.Read[uint64](r)
					return pair{x, y}, err
				})
				if err != nil {
					return "", err
				}
				if got != (pair{a, b}) {
					return fmt.Sprintf("got %v want %v", got, pair{a, b}), nil
				}
				return "", nil
			}}
	}},
}

// collectionItem: WriteCollection / ReadCollection (optionally preceded by PeekSize) with elements
// written by Write[uint16] / Write[uint64].
func collectionItem(s *simrt.Sim, peek bool) *item {
	lt := s.Choose(widths)
	// elements are read with Read[T] or, rarely, ReadBytesWithSize (whose single-Read defect has its own
	// signatures under the ReadBytesWithSize family; here it would only multiply them)
	inner := s.Choose(2)
	cnt := s.Choose(5)
	var elems [][]byte
	var nums []uint64
	for i := 0; i < cnt; i++ {
		nums = append(nums, genBits(s, 64))
		elems = append(elems, genRawBytes(s, s.Choose(5)))
	}
	helper := "ReadCollection"
	if peek {
		helper = "PeekSize+ReadCollection"
	}
	innerName := []string{"Read[uint16]", "Read[uint64]", "ReadBytesWithSize"}[inner]
	helper += ">" + innerName
	return &item{helper: helper, desc: fmt.Sprintf("%d elements prefix=%s inner=%s", cnt, lenTypeNames[lt], innerName),
		write: func(w io.WriteSeeker) error {
			return stream.WriteCollection(w, lenTypes[lt], func() (int, error) {
				for i := 0; i < cnt; i++ {
					var err error
					switch inner {
					case 0:
						err = stream.Write(w, uint16(nums[i]))
					case 1:
						err = stream.Write(w, nums[i])
					default:
						err = stream.WriteBytesWithSize(w, elems[i], serializer.SeriLengthPrefixTypeAsUint16)
					}
					if err != nil {
						return 0, err
					}
				}
				return cnt, nil
			})
		},
		read: func(r io.ReadSeeker) (string, error) {
			if peek {
				n, err := stream.PeekSize(r, lenTypes[lt])
				if err != nil {
					return "", fmt.Errorf("PeekSize: %w", err)
				}
				if n != cnt {
					return fmt.Sprintf("PeekSize got %d want %d", n, cnt), nil
				}
			}
			diff := ""
			seen := 0
			err := stream.ReadCollection(r, lenTypes[lt], func(i int) error {
				seen++
				if i >= cnt {
					// stop: a wrong (e.g. byte-swapped) count would otherwise iterate for ever
					return fmt.Errorf("callback for element %d of a collection of %d", i, cnt)
				}
				switch inner {
				case 0:
					v, err := stream.Read[uint16](r)
					if err != nil {
						return err
					}
					if v != uint16(nums[i]) && diff == "" {
						diff = fmt.Sprintf("element %d: got %d want %d", i, v, uint16(nums[i]))
					}
				case 1:
					v, err := stream.Read[uint64](r)
					if err != nil {
						return err
					}
					if v != nums[i] && diff == "" {
						diff = fmt.Sprintf("element %d: got %d want %d", i, v, nums[i])
					}
				default:
					v, err := stream.ReadBytesWithSize(r, serializer.SeriLengthPrefixTypeAsUint16)
					if err != nil {
						return err
					}
					if d := diffBytes(v, elems[i]); d != "" && diff == "" {
						diff = fmt.Sprintf("element %d: %s", i, d)
					}
				}
				return nil
			})
			if err != nil {
				return "", err
			}
			if diff == "" && seen != cnt {
				diff = fmt.Sprintf("%d callbacks for %d elements", seen, cnt)
			}
			return diff, nil
		}}
}

func streamBody(s *simrt.Sim) {
	chunk := simrt.ConfigHas("chunk")
	nfam := len(streamFamilies) + 1
	fi := s.Choose(nfam)
	if fi == len(streamFamilies) {
		byteBufferModel(s)
		return
	}
	fam := streamFamilies[fi]
	nitems := 1 + s.Choose(3)
	// sometimes the writer already holds bytes (a pre-sized buffer that is overwritten in place): what is written must
	// land where the writer stands, whatever lies behind it
	presized := 0
	if s.Choose(4) == 3 {
		presized = simrt.Knob(s, 8, 64, 300)
	}
	buf := stream.NewByteBuffer()
	if presized > 0 {
		buf = stream.NewByteBuffer(presized)
	}
	var items []*item
	for i := 0; i < nitems; i++ {
		widths = 4
		if i > 0 {
			widths = 3
		}
		it := fam.gen(s)
		items = append(items, it)
		var err error
		if panicked, pv := hx.Try(func() { err = it.write(buf) }); panicked {
			s.Fail("stream-roundtrip", "Write:"+fam.name+":panic", "write helper of %s panicked: %v (%s)", fam.name, pv, it.desc)
		}
		if err != nil {
			s.Fail("stream-roundtrip", "Write:"+fam.name+":error", "write helper of %s failed: %v (%s)", fam.name, err, it.desc)
		}
		s.Logf("write %s %s", it.helper, it.desc)
	}
	data, _ := buf.Bytes()
	data = append([]byte{}, data...)
	if presized > 0 {
		// only what was written counts: cut the stream at the writer's position
		end, err := buf.Seek(0, io.SeekCurrent)
		if err != nil || int(end) > len(data) {
			s.Fail("stream-roundtrip", "ByteBuffer:position", "Seek(0, current) = %d, %v with %d bytes in the buffer", end, err, len(data))
		}
		data = data[:end]
	}
	s.Logf("stream %d bytes chunk=%v presized=%d", len(data), chunk, presized)

	// In the chunk-free configuration half of the runs read through the package's own ByteReader.
	var r io.ReadSeeker
	var sr *simReader
	var br *stream.ByteReader
	if !chunk && presized == 0 && s.Choose(2) == 1 {
		br = buf.Reader()
		r = br
	} else {
		sr = newSimReader(s, data, chunk)
		r = sr
	}
	for i, it := range items {
		if sr != nil {
			sr.markItem()
		}
		var diff string
		var err error
		atEOF := (sr != nil && sr.remaining() == 0) || (br != nil && br.Len() == 0)
		panicked, pv := hx.Try(func() { diff, err = it.read(r) })
		fault := "nofault"
		if sr != nil && sr.itemFault != "" {
			fault = sr.itemFault
		} else if it.empty && atEOF {
			fault = "nofault:zero-length-at-eof"
		}
		switch {
		case panicked:
			s.Fail("stream-roundtrip", it.helper+":panic:"+fault, "item %d (%s): read helper panicked: %v", i, it.desc, pv)
		case err != nil:
			s.Fail("stream-roundtrip", it.helper+":error:"+fault, "item %d (%s): read helper failed although the stream holds the complete value: %v\nreader: %s", i, it.desc, err, readerState(sr))
		case diff != "":
			s.Fail("stream-roundtrip", it.helper+":mismatch:"+fault, "item %d (%s): %s", i, it.desc, diff)
		}
		s.Logf("read %s ok (%s)", it.helper, fault)
	}
	switch {
	case sr != nil && sr.pos != len(data):
		s.Fail("stream-roundtrip", fam.name+":unconsumed", "%d of %d bytes consumed after reading all items", sr.pos, len(data))
	case br != nil && (br.BytesRead() != len(data) || br.Len() != 0):
		s.Fail("stream-roundtrip", fam.name+":unconsumed:ByteReader", "ByteReader.BytesRead()=%d Len()=%d after reading all %d bytes", br.BytesRead(), br.Len(), len(data))
	}
}

func readerState(sr *simReader) string {
	if sr == nil {
		return "stream.ByteReader"
	}
	return fmt.Sprintf("pos=%d/%d reads=%d faults=%v last=%q", sr.pos, len(sr.data), sr.reads, fmtCounts(sr.faults), sr.lastFault)
}

func fmtCounts(m map[string]int) string {
	out := ""
	for _, k := range []string{"short-read", "zero-read", "eof-with-data"} {
		if m[k] > 0 {
			out += fmt.Sprintf("%s=%d ", k, m[k])
		}
	}
	return out
}

// byteBufferModel checks stream.ByteBuffer (Write / Seek / Bytes / Reader) against a trivial model.
func byteBufferModel(s *simrt.Sim) {
	var model []byte
	pos := 0
	var buf *stream.ByteBuffer
	if s.Choose(3) == 0 {
		n := s.Choose(6)
		buf = stream.NewByteBuffer(n)
		model = make([]byte, n)
		s.Logf("NewByteBuffer(%d)", n)
	} else {
		buf = stream.NewByteBuffer()
	}
	nops := 1 + s.Choose(8)
	for i := 0; i < nops; i++ {
		if s.Choose(3) > 0 {
			p := genRawBytes(s, s.Choose(7))
			n, err := buf.Write(p)
			if pos > len(model) {
				model = append(model, make([]byte, pos-len(model))...)
			}
			k := copy(model[pos:], p)
			model = append(model, p[k:]...)
			pos += len(p)
			s.Logf("Write(%x) -> %d %v", p, n, err)
			if err != nil || n != len(p) {
				s.Fail("bytebuffer-model", "Write", "Write(%x) returned (%d, %v)", p, n, err)
			}
		} else {
			whence := s.Choose(3)
			off := int64(s.Choose(12)) - 4
			var want int
			switch whence {
			case io.SeekStart:
				want = int(off)
			case io.SeekCurrent:
				want = pos + int(off)
			default:
				want = len(model) + int(off)
			}
			got, err := buf.Seek(off, whence)
			s.Logf("Seek(%d,%d) -> %d %v", off, whence, got, err)
			if want < 0 {
				if err == nil {
					s.Fail("bytebuffer-model", "Seek:negative-accepted", "Seek(%d,%d) to negative position %d returned no error", off, whence, want)
				}
				continue
			}
			if err != nil || got != int64(want) {
				s.Fail("bytebuffer-model", "Seek", "Seek(%d,%d) returned (%d, %v), model %d", off, whence, got, err, want)
			}
			pos = want
		}
	}
	got, err := buf.Bytes()
	if err != nil || !bytes.Equal(got, model) {
		s.Fail("bytebuffer-model", "Bytes", "Bytes() = %x, %v; model %x", got, err, model)
	}
	r := buf.Reader()
	all, err := io.ReadAll(r)
	if err != nil || !bytes.Equal(all, model) || r.BytesRead() != len(model) {
		s.Fail("bytebuffer-model", "Reader", "Reader() content %x err %v BytesRead %d; model %x", all, err, r.BytesRead(), model)
	}
}
