package codec

// Storage / transport faults applied to a valid encoding, and the per-call oracle of the fault legs.

import (
	"fmt"
	"runtime"
	"runtime/debug"
	"strings"
	"syscall"

	"verifharness/hx"
	"verifsim/simrt"
)

// fault classes (one per run)
var faultClasses = []string{"truncate", "flip-structural", "inflate-prefix", "flip-sampled", "splice"}

const hugeThreshold = 1 << 28

// inflated values for a prefix of width w: beyond what the remaining input could hold and, for the
// 4/8-byte widths, beyond the allocation bound. 2^31 and 2^32-1 really are allocated (and zeroed) by a
// decoder that trusts them - gigabytes and about a second per call - so they are tried on one prefix of
// rare "huge" runs only, to keep 16 parallel workers inside the machine's memory and budget.
func inflatedValues(w int) []uint64 {
	switch w {
	case 1:
		return []uint64{0xff, 0x80}
	case 2:
		return []uint64{0xffff, 0x8000, 0x0100}
	case 4:
		return []uint64{1 << 17, 1 << 20}
	default:
		return []uint64{1 << 17, 1 << 20, 1 << 63, 1<<64 - 1, 1<<63 - 1}
	}
}

// dangerous returns the byte positions (2 and up of a 4/8-byte prefix that the decoder allocates
// from) where an arbitrary byte value means a 16 MiB .. 16 EiB allocation request. A decoder that
// trusts the prefix (the defect C02 is about) then zeroes gigabytes per call, and for 8-byte prefixes
// between 2^33 and 2^47 the Go runtime aborts the whole process with an unrecoverable "out of memory"
// fatal error, which no harness can survive. The injector therefore only changes the lowest bit of
// byte 2 (+-64 KiB) and leaves bytes 3.. alone; prefixes are still inflated to 2^17 and 2^20 in every
// inflate-prefix run, to 2^31 / 2^32-1 in rare huge runs, and to 2^63 / 2^64-1 for 8-byte prefixes.
func dangerous(marks []mark) map[int]int {
	out := map[int]int{}
	for _, m := range marks {
		if m.alloc && m.w >= 4 {
			out[m.off+2] = 1 // lowest bit only
			for i := 3; i < m.w; i++ {
				out[m.off+i] = 2 // never
			}
		}
	}
	return out
}

func putLE(b []byte, off, w int, u uint64) {
	for i := 0; i < w; i++ {
		b[off+i] = byte(u >> (8 * i))
	}
}

// forEachFault enumerates the faulted variants of in for one fault class. The enumeration starts at a
// decision-chosen rotation so that a defect at one position cannot permanently hide one at a later
// position (a run ends at its first violation). fn returns false to stop.
func forEachFault(s *simrt.Sim, class string, in []byte, marks []mark, huge bool, fn0 func(b []byte, kind, desc string)) {
	fn := func(b []byte, desc string) { fn0(b, faultKindOf(class), desc) }
	switch class {
	case "truncate":
		// complete: every proper prefix
		n := len(in)
		if n == 0 {
			return
		}
		start := s.Choose(n)
		for i := 0; i < n; i++ {
			k := (start + i) % n
			s.Fault("truncate")
			fn(in[:k:k], fmt.Sprintf("truncate@%d/%d", k, n))
		}
	case "flip-structural":
		// complete: every byte of every length prefix / count / type code / optional marker / bool
		type pos struct {
			off  int
			kind string
		}
		var ps []pos
		for _, m := range marks {
			for i := 0; i < m.w; i++ {
				if m.alloc && m.w >= 4 && i >= 3 {
					continue // see dangerous()
				}
				ps = append(ps, pos{m.off + i, m.kind})
			}
		}
		if len(ps) == 0 {
			return
		}
		dang := dangerous(marks)
		start := s.Choose(len(ps))
		for i := range ps {
			p := ps[(start+i)%len(ps)]
			variants := []string{"^01", "^80", "=ff", "=00", "+1"}
			vstart := s.Choose(len(variants))
			for vi := range variants {
				variant := variants[(vstart+vi)%len(variants)]
				b := append([]byte{}, in...)
				old := b[p.off]
				switch variant {
				case "^01":
					b[p.off] ^= 0x01
				case "^80":
					b[p.off] ^= 0x80
				case "=ff":
					b[p.off] = 0xff
				case "=00":
					b[p.off] = 0
				case "+1":
					b[p.off]++
				}
				if b[p.off] == old || (dang[p.off] > 0 && variant != "^01") {
					continue
				}
				s.Fault("flip-" + p.kind)
				fn(b, fmt.Sprintf("flip %s byte @%d %s", p.kind, p.off, variant))
			}
		}
	case "inflate-prefix":
		var ms []mark
		for _, m := range marks {
			if m.kind == "len" || m.kind == "count" || m.kind == "opt" {
				ms = append(ms, m)
			}
		}
		if len(ms) == 0 {
			return
		}
		start := s.Choose(len(ms))
		for i := range ms {
			m := ms[(start+i)%len(ms)]
			vals := inflatedValues(m.w)
			if huge && i == 0 && m.w >= 4 {
				// one gigabyte-sized value per (rare) huge run
				vals = append(vals, []uint64{1 << 31, 1<<32 - 1}[s.Choose(2)])
			}
			vstart := s.Choose(len(vals))
			for vi := range vals {
				u := vals[(vstart+vi)%len(vals)]
				b := append([]byte{}, in...)
				putLE(b, m.off, m.w, u)
				s.Fault("inflate-" + m.kind)
				fn(b, fmt.Sprintf("inflate %s prefix @%d w=%d to %#x", m.kind, m.off, m.w, u))
			}
		}
	case "flip-sampled":
		if len(in) == 0 {
			return
		}
		dang := dangerous(marks)
		for i := 0; i < 24; i++ {
			b := append([]byte{}, in...)
			nf := 1 + s.Choose(3)
			var d []string
			for j := 0; j < nf; j++ {
				p := s.Choose(len(b))
				mask := byte(1 << s.Choose(8))
				if s.Choose(4) == 0 {
					mask = byte(1 + s.Choose(255))
				}
				if dang[p] == 2 {
					continue
				}
				if dang[p] == 1 {
					mask = 1
				}
				b[p] ^= mask
				d = append(d, fmt.Sprintf("@%d^%02x", p, mask))
			}
			s.Fault("flip-data")
			fn(b, "flip "+strings.Join(d, ","))
		}
	case "splice":
		if len(in) < 2 {
			return
		}
		if len(dangerous(marks)) > 0 {
			// shifting bytes into a 4/8-byte allocation prefix produces random gigabyte lengths
			forEachFault(s, "flip-sampled", in, marks, huge, fn0)
			return
		}
		for i := 0; i < 16; i++ {
			a := s.Choose(len(in))
			l := 1 + s.Choose(min(8, len(in)-a))
			k := s.Choose(len(in) + 1)
			var b []byte
			var desc string
			switch s.Choose(3) {
			case 0: // duplicate region [a,a+l) at k
				b = append(b, in[:k]...)
				b = append(b, in[a:a+l]...)
				b = append(b, in[k:]...)
				desc = fmt.Sprintf("duplicate [%d,%d) at %d", a, a+l, k)
				s.Fault("duplicate-region")
			case 1: // drop region
				b = append(b, in[:a]...)
				b = append(b, in[a+l:]...)
				desc = fmt.Sprintf("drop [%d,%d)", a, a+l)
				s.Fault("drop-region")
			default: // overwrite region at k with [a,a+l)
				b = append(b, in...)
				if k+l > len(b) {
					k = len(b) - l
				}
				copy(b[k:k+l], in[a:a+l])
				desc = fmt.Sprintf("overwrite [%d,%d) with [%d,%d)", k, k+l, a, a+l)
				s.Fault("overwrite-region")
			}
			fn(b, desc)
		}
	}
}

// panicClass maps a panic value to a short stable class.
func panicClass(v any) string {
	msg := fmt.Sprint(v)
	switch {
	case strings.Contains(msg, "makeslice"):
		return "makeslice-len-out-of-range"
	case strings.Contains(msg, "interface conversion"):
		return "type-assertion"
	case strings.Contains(msg, "unaddressable"):
		return "reflect-set-unaddressable"
	case strings.Contains(msg, "reflect.Set: value of type"), strings.Contains(msg, "reflect: call of reflect.Value.Set"):
		return "reflect-set"
	case strings.Contains(msg, "reflect: call of"), strings.Contains(msg, "reflect.Value."):
		return "reflect-wrong-kind"
	case strings.Contains(msg, "index out of range"), strings.Contains(msg, "slice bounds out of range"):
		return "bounds"
	case strings.Contains(msg, "nil pointer"), strings.Contains(msg, "nil map"):
		return "nil-deref"
	case strings.Contains(msg, "out of memory"), strings.Contains(msg, "cap out of range"):
		return "alloc-size"
	}
	var b strings.Builder
	for _, r := range msg {
		if r >= '0' && r <= '9' {
			continue
		}
		if r == '\n' {
			break
		}
		b.WriteRune(r)
		if b.Len() >= 48 {
			break
		}
	}
	return b.String()
}

// ---------------------------------------------------------------------------------------------
// per-call oracle

func cpuNanos() int64 {
	var ru syscall.Rusage
	if err := syscall.Getrusage(syscall.RUSAGE_SELF, &ru); err != nil {
		return 0
	}
	return ru.Utime.Nano() + ru.Stime.Nano()
}

type probeStats struct {
	calls, accepted, rejected, measured int
}

// probe runs one decoder call on one faulted input and applies the C02 oracle.
//   - call returns the number of bytes the decoder reports as consumed (-1: the entry point reports
//     none) and whether it accepted the input.
//   - measure: sample allocation (runtime.ReadMemStats is a stop-the-world call, so not every call is
//     measured; every call with an inflated prefix is).
//
// The allocation bound is 64*len(input)+64KiB of TotalAlloc for the whole call; only one task runs at a
// time in the simulator, so nothing else allocates meanwhile. The iteration bound is 3 s of process
// CPU time for one call on an input of at most a few hundred bytes (a decoder looping on an inflated
// count of 2^24..2^32 needs far more; a bounded one needs microseconds).
func probe(s *simrt.Sim, st *probeStats, target, faultKind, desc string, in []byte, measure bool, call func() (int, bool)) (n int, ok bool) {
	var m0, m1 runtime.MemStats
	var c0 int64
	if measure {
		runtime.ReadMemStats(&m0)
		c0 = cpuNanos()
	}
	panicked, pv := hx.Try(func() { n, ok = call() })
	var alloc uint64
	var cpu int64
	if measure {
		cpu = cpuNanos() - c0
		runtime.ReadMemStats(&m1)
		alloc = m1.TotalAlloc - m0.TotalAlloc
		st.measured++
		if alloc > hugeThreshold {
			debug.FreeOSMemory()
		}
	}
	st.calls++
	if panicked {
		sig := "panic:" + target + ":" + faultKind
		if target != "serix.MapDecode" && target != "serix.JSONDecode" {
			// binary decoders: the panic class separates different defects of one entry point. For the JSON
			// tree faults the fault kind already names the schema position whose conversion is unchecked.
			sig += ":" + panicClass(pv)
		}
		s.Fail("decode-total", sig,
			"%s panicked on faulted input (%s)\ninput (%d bytes): %s\npanic: %v", target, desc, len(in), show(in), pv)
	}
	if ok {
		st.accepted++
	} else {
		st.rejected++
	}
	if n > len(in) {
		s.Fail("decode-total", "overread:"+target+":"+faultKind,
			"%s reports %d consumed bytes for an input of %d bytes (%s)\ninput: %s", target, n, len(in), desc, show(in))
	}
	if measure {
		bound := uint64(64*len(in) + 64<<10)
		if alloc > bound {
			// every fault that rewrites bytes can end up as a larger length prefix; the signature names
			// that effect, whatever the fault kind that produced it (the detail has the exact fault)
			effect := faultKind
			switch faultKind {
			case "structural-flip", "data-flip", "splice":
				effect = "inflated-prefix"
			}
			s.Fail("decode-bounded", "alloc:"+target+":"+effect,
				"%s allocated %d bytes for an input of %d bytes (bound %d) (%s)\ninput: %s", target, alloc, len(in), bound, desc, show(in))
		}
		if cpu > 3_000_000_000 {
			s.Fail("decode-bounded", "iter:"+target+":"+faultKind,
				"%s used %.1fs CPU for an input of %d bytes (%s)\ninput: %s", target, float64(cpu)/1e9, len(in), desc, show(in))
		}
	}
	return n, ok
}

// show renders an input for a failure report: JSON documents as text, binary data as hex.
func show(b []byte) string {
	if len(b) > 0 && (b[0] == '{' || b[0] == '[') {
		return string(clip(b))
	}
	return fmt.Sprintf("%x", clip(b))
}

func clip(b []byte) []byte {
	if len(b) > 400 {
		return b[:400]
	}
	return b
}

// faultKindOf reduces a fault description class to the kind used in signatures.
func faultKindOf(class string) string {
	switch class {
	case "truncate":
		return "truncated"
	case "flip-structural":
		return "structural-flip"
	case "inflate-prefix":
		return "inflated-prefix"
	case "flip-sampled":
		return "data-flip"
	case "splice":
		return "splice"
	}
	return class
}
