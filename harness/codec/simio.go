package codec

// simio: a simulated io.Reader / io.ReadSeeker. Every Read is a decision point: the simulator chooses
// how the byte stream is split. All behaviours are legal for an io.Reader:
//   - a full read (as much as fits)
//   - a 1-byte read, a short read (fewer bytes than requested although more are available)
//   - a zero-length read with a nil error, followed by data on a later call
//   - n > 0 together with io.EOF when the chunk reaches the end of the stream
// In no-chunk mode it behaves exactly like bytes.Reader. A reader can also carry a transport fault:
// an injected non-EOF error at a given offset.

import (
	"errors"
	"io"

	"verifsim/simrt"
)

var errInjected = errors.New("simio: injected transport error")

type simReader struct {
	s      *simrt.Sim
	data   []byte
	pos    int
	chunk  bool
	failAt int // >= 0: reads that would cross this offset stop there and the next one fails
	zeroes int // consecutive zero-length reads (bounded so that io.ReadFull terminates)

	// observations
	reads     int
	lastFault string // fault injected by the most recent Read ("" = none)
	faults    map[string]int
	itemFault string // last fault since markItem()
}

func newSimReader(s *simrt.Sim, data []byte, chunk bool) *simReader {
	return &simReader{s: s, data: data, chunk: chunk, failAt: -1, faults: map[string]int{}}
}

func (r *simReader) markItem() { r.itemFault = "" }

func (r *simReader) fault(kind string) {
	r.s.Fault(kind)
	r.faults[kind]++
	r.lastFault = kind
	r.itemFault = kind
}

func (r *simReader) remaining() int { return len(r.data) - r.pos }

func (r *simReader) Read(p []byte) (int, error) {
	r.reads++
	r.lastFault = ""
	limit := len(r.data)
	if r.failAt >= 0 && r.failAt < limit {
		limit = r.failAt
	}
	if r.failAt >= 0 && r.pos >= r.failAt {
		return 0, errInjected
	}
	if !r.chunk {
		// bytes.Reader semantics
		if r.pos >= limit {
			if limit < len(r.data) {
				return 0, errInjected
			}
			return 0, io.EOF
		}
		n := copy(p, r.data[r.pos:limit])
		r.pos += n
		return n, nil
	}
	if len(p) == 0 {
		return 0, nil
	}
	if r.pos >= limit {
		if limit < len(r.data) {
			return 0, errInjected
		}
		return 0, io.EOF
	}
	avail := limit - r.pos
	full := len(p)
	if avail < full {
		full = avail
	}
	n := full
	mode := r.s.Weighted(4, 2, 2, 1) // full, one byte, short, zero
	switch mode {
	case 1:
		if full > 1 {
			n = 1
			r.fault("short-read")
		}
	case 2:
		if full > 1 {
			n = 1 + r.s.Choose(full-1)
			if n < full {
				r.fault("short-read")
			}
		}
	case 3:
		if r.zeroes < 2 {
			r.zeroes++
			r.fault("zero-read")
			return 0, nil
		}
	}
	r.zeroes = 0
	copy(p, r.data[r.pos:r.pos+n])
	r.pos += n
	if r.pos == len(r.data) && r.s.Choose(2) == 1 {
		r.fault("eof-with-data")
		return n, io.EOF
	}
	return n, nil
}

func (r *simReader) Seek(offset int64, whence int) (int64, error) {
	var np int64
	switch whence {
	case io.SeekStart:
		np = offset
	case io.SeekCurrent:
		np = int64(r.pos) + offset
	case io.SeekEnd:
		np = int64(len(r.data)) + offset
	}
	if np < 0 {
		return 0, errors.New("simio: negative position")
	}
	if np > int64(len(r.data)) {
		np = int64(len(r.data))
	}
	r.pos = int(np)
	return np, nil
}
