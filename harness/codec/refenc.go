package codec

// Independent reference encoder, written from the documented wire layout and driven by the schema:
// little-endian fixed-width numbers, one byte 0/1 booleans, length prefixes of the configured width,
// uint8/uint32 type-code prefixes, a uint32 length marker before optional fields (0 = absent),
// 32-byte little-endian uint256, uint64 nanosecond timestamps, map entries (key||value) in byte-lexical
// order, auto-sorted slices in byte-lexical order. It shares no code with /repo/serializer.
//
// While encoding it records where the structural bytes are (marks): the fault injector aims at them.

import (
	"bytes"
	"sort"
)

type mark struct {
	off, w int
	kind   string // "len" (byte length of a string/byte slice), "count" (elements of a slice/map), "code", "opt", "bool"
	// alloc: the decoder allocates this many bytes straight from the prefix (byte slices). For 4/8 byte
	// prefixes the fault injector keeps such values below 2^22 except in rare "huge" runs (see faults.go).
	alloc bool
}

type frag struct {
	b     []byte
	marks []mark
}

func (f *frag) put(b ...byte) { f.b = append(f.b, b...) }

func (f *frag) le(u uint64, w int) {
	for i := 0; i < w; i++ {
		f.b = append(f.b, byte(u>>(8*i)))
	}
}

func (f *frag) marked(kind string, u uint64, w int) {
	f.marks = append(f.marks, mark{off: len(f.b), w: w, kind: kind})
	f.le(u, w)
}

func (f *frag) add(g *frag) {
	base := len(f.b)
	f.b = append(f.b, g.b...)
	for _, m := range g.marks {
		m.off += base
		f.marks = append(f.marks, m)
	}
}

func (f *frag) code(n *node) {
	if n.code >= 0 {
		f.marked("code", uint64(n.code), n.codeW)
	}
}

// refEncode encodes v according to n. It puts v into canonical form on the way (children of maps and
// of auto-sorted slices are reordered in place), so that a Go value built from v afterwards is the
// value a decoder is expected to produce.
func refEncode(n *node, v *val) *frag {
	f := &frag{}
	switch n.kind {
	case kBool:
		f.marked("bool", v.u&1, 1)
	case kUint, kInt, kFloat:
		f.le(v.u, n.bits/8)
	case kString, kBytes:
		f.marked("len", uint64(len(v.b)), n.prefix)
		f.marks[len(f.marks)-1].alloc = n.kind == kBytes
		f.put(v.b...)
	case kByteArray:
		f.code(n)
		f.put(v.b...)
	case kU256:
		f.put(v.b...)
	case kTime:
		f.le(v.u, 8)
	case kStruct:
		f.code(n)
		encFields(f, n, v)
	case kPtr:
		return refEncode(n.elem, v)
	case kIface:
		return refEncode(n.impls[v.alt], v.kids[0])
	case kSlice, kArray:
		parts := make([]*frag, len(v.kids))
		for i, k := range v.kids {
			parts[i] = refEncode(n.elem, k)
		}
		if n.autosort {
			sortParts(parts, v.kids)
		}
		f.marked("count", uint64(len(parts)), n.prefix)
		for _, p := range parts {
			f.add(p)
		}
	case kMap:
		parts := make([]*frag, len(v.kids))
		for i, p := range v.kids {
			g := refEncode(n.key, p.kids[0])
			g.add(refEncode(n.elem, p.kids[1]))
			parts[i] = g
		}
		sortParts(parts, v.kids)
		f.marked("count", uint64(len(parts)), n.prefix)
		for _, p := range parts {
			f.add(p)
		}
	case kCustom:
		f.code(n)
		f.put(0xC5, byte(v.u>>8), byte(v.u), byte(len(v.b)))
		f.put(v.b...)
	}
	return f
}

func encFields(f *frag, n *node, v *val) {
	for i, fd := range n.fields {
		k := v.kids[i]
		switch {
		case fd.flatten:
			encFields(f, fd.n, k)
		case fd.optional:
			if k.nilp {
				f.marked("opt", 0, 4)
				continue
			}
			g := refEncode(fd.n, k)
			f.marked("opt", uint64(len(g.b)), 4)
			f.add(g)
		default:
			f.add(refEncode(fd.n, k))
		}
	}
}

type partSorter struct {
	parts []*frag
	kids  []*val
}

func (p *partSorter) Len() int           { return len(p.parts) }
func (p *partSorter) Less(i, j int) bool { return bytes.Compare(p.parts[i].b, p.parts[j].b) < 0 }
func (p *partSorter) Swap(i, j int) {
	p.parts[i], p.parts[j] = p.parts[j], p.parts[i]
	p.kids[i], p.kids[j] = p.kids[j], p.kids[i]
}

func sortParts(parts []*frag, kids []*val) { sort.Stable(&partSorter{parts, kids}) }

// conform makes a generated value satisfy the validation rules of its schema: map keys unique,
// no-duplicate slices deduplicated, lexically ordered (not auto-sorted) slices sorted, at most one
// element of each implementation, must-occur implementations present.
func conform(n *node, v *val) {
	switch n.kind {
	case kStruct:
		for i, fd := range n.fields {
			if !v.kids[i].nilp {
				conform(fd.n, v.kids[i])
			}
		}
	case kPtr:
		conform(n.elem, v)
	case kIface:
		conform(n.impls[v.alt], v.kids[0])
	case kArray:
		for _, k := range v.kids {
			conform(n.elem, k)
		}
	case kSlice:
		for _, k := range v.kids {
			conform(n.elem, k)
		}
		if n.oneOfEach {
			seen := map[int]bool{}
			var out []*val
			for _, k := range v.kids {
				if !seen[k.alt] {
					seen[k.alt] = true
					out = append(out, k)
				}
			}
			for _, m := range n.must {
				if !seen[m] {
					// replace the last element, or append when the slice is empty
					repl := &val{alt: m, kids: []*val{zeroVal(n.elem.impls[m])}}
					if len(out) > 0 && (n.max > 0 && len(out) >= n.max) {
						seen[out[len(out)-1].alt] = false
						out[len(out)-1] = repl
					} else {
						out = append(out, repl)
					}
					seen[m] = true
				}
			}
			v.kids = out
		}
		if n.nodup || (n.lexical && !n.autosort) {
			parts := make([]*frag, len(v.kids))
			for i, k := range v.kids {
				parts[i] = refEncode(n.elem, k)
			}
			if n.nodup {
				seen := map[string]bool{}
				var ks []*val
				var ps []*frag
				for i, k := range v.kids {
					if !seen[string(parts[i].b)] {
						seen[string(parts[i].b)] = true
						ks = append(ks, k)
						ps = append(ps, parts[i])
					}
				}
				v.kids, parts = ks, ps
			}
			if n.lexical && !n.autosort {
				sortParts(parts, v.kids)
			}
		}
	case kMap:
		seen := map[string]bool{}
		var out []*val
		for _, p := range v.kids {
			conform(n.key, p.kids[0])
			conform(n.elem, p.kids[1])
			kb := string(refEncode(n.key, p.kids[0]).b)
			if !seen[kb] {
				seen[kb] = true
				out = append(out, p)
			}
		}
		v.kids = out
	}
}

// zeroVal is the all-zero value of a struct schema (used to satisfy must-occur rules).
func zeroVal(n *node) *val {
	v := &val{}
	switch n.kind {
	case kStruct:
		for _, fd := range n.fields {
			if fd.optional {
				v.kids = append(v.kids, &val{nilp: true})
			} else {
				v.kids = append(v.kids, zeroVal(fd.n))
			}
		}
	case kPtr:
		return zeroVal(n.elem)
	case kString, kBytes:
		v.b = bytes.Repeat([]byte{'m'}, n.min)
	case kByteArray:
		v.b = make([]byte, n.n)
	case kU256:
		v.b = make([]byte, 32)
	case kIface:
		v.kids = []*val{zeroVal(n.impls[0])}
	case kArray:
		for i := 0; i < n.n; i++ {
			v.kids = append(v.kids, zeroVal(n.elem))
		}
	}
	return v
}
