package codec

// C02: decoders on faulted stored data. One target family per harness configuration, one entry point
// and one fault class per run. C03 (reverse direction) reuses the serix leg with the re-encode oracle.

import (
	"bytes"
	"encoding/json"
	"fmt"
	"io"
	"math/big"
	"reflect"
	"sort"
	"time"

	"github.com/iotaledger/hive.go/ds/serializableorderedmap"
	"github.com/iotaledger/hive.go/serializer/v2"
	"github.com/iotaledger/hive.go/serializer/v2/stream"
	"github.com/iotaledger/hive.go/serializer/v2/typeutils"
	"verifharness/hx"
	"verifsim/simrt"
)

// faultRun drives one (target, fault class) combination: the unfaulted input first, then every
// variant of the class.
type faultRun struct {
	s      *simrt.Sim
	st     probeStats
	target string
	class  string
	huge   bool
	ncall  int
}

func newFaultRun(s *simrt.Sim, target string, classes []string) *faultRun {
	fr := &faultRun{s: s, target: target}
	fr.class = classes[s.Choose(len(classes))]
	if fr.class == "inflate-prefix" {
		fr.huge = s.Chance(1, 400)
	}
	return fr
}

func (fr *faultRun) measure() bool {
	fr.ncall++
	return fr.class == "inflate-prefix" || fr.ncall%8 == 1
}

func (fr *faultRun) done() {
	fr.s.Logf("%s class=%s calls=%d accepted=%d rejected=%d measured=%d", fr.target, fr.class, fr.st.calls, fr.st.accepted, fr.st.rejected, fr.st.measured)
}

// ---------------------------------------------------------------------------------------------
// serix Decode (with and without validation) on every zoo type; with the re-encode oracle this is
// also the reverse direction of C03.

func faultSerixBody(s *simrt.Sim) {
	if s.Choose(12) == 11 {
		oddDecode(s)
		return
	}
	serixLeg(s, false)
}

func reencodeBody(s *simrt.Sim) {
	if s.Choose(12) == 11 {
		oddRules(s)
		return
	}
	serixLeg(s, true)
}

func serixLeg(s *simrt.Sim, reencode bool) {
	e := zoo[s.Choose(len(zoo))]
	if reencode && e.decodeBroken {
		e = zoo[0]
	}
	orig, _, ref := genCase(s, e)
	validate := reencode || s.Choose(2) == 1
	b, err := encodeReal(s, orig, true)
	if err != nil {
		s.Fail("encode-accepts", "Encode:"+e.name, "Encode with validation rejected a generated %s value: %v", e.name, err)
	}
	if !bytes.Equal(b, ref.b) {
		s.Probe("reference-mismatch(see refenc)")
	}
	classes := faultClasses
	if e.decodeBroken {
		classes = []string{"none"}
	}
	if e.allocProne {
		classes = []string{"truncate", "flip-structural", "inflate-prefix", "flip-sampled"}
	}
	fr := newFaultRun(s, "serix.Decode", classes)
	s.Logf("type=%s validate=%v class=%s huge=%v encoding(%d)=%x", e.name, validate, fr.class, fr.huge, len(b), clip(b))
	var dst reflect.Value
	decode := func(in []byte) func() (int, bool) {
		return func() (n int, ok bool) {
			dst = reflect.New(e.rt)
			var err error
			s.Atomic(func() { n, err = api.Decode(ctx, in, dst.Interface(), valOpts(validate)...) })
			return n, err == nil
		}
	}
	// unfaulted
	n, ok := probe(s, &fr.st, fr.target, "none", fmt.Sprintf("unfaulted %s validate=%v", e.name, validate), b, true, decode(b))
	if !ok || n != len(b) {
		s.Fail("serix-roundtrip", "Decode-rejects-valid:"+e.name, "Decode(validate=%v) of a valid %s encoding returned n=%d ok=%v (len %d)", validate, e.name, n, ok, len(b))
	}
	if reencode && s.Choose(3) == 2 {
		// a stored image of a value that violates one of its length bounds (written by a non-validating encoder): the
		// validating decoder must reject it, or it must re-encode to itself
		v := gen(s, e.n, 0)
		conform(e.n, v)
		if what := violate(s, e.n, v); what != "" {
			obj := e.goValue(v)
			var vb []byte
			var verr error
			if panicked, _ := hx.Try(func() { vb, verr = encodeReal(s, obj, false) }); !panicked && verr == nil {
				s.Fault("rule-violating-image")
				var n int
				var ok bool
				if panicked, _ := hx.Try(func() { n, ok = decode(vb)() }); panicked {
					s.Probe("decode-panicked(see C02)")
				} else if ok {
					checkReencode(s, e, "rule-violation:"+what, "image of a value violating "+what, vb, n, dst, vb, nil, "rule-violation")
				} else {
					s.Probe("rule-violating-image-rejected")
				}
			}
		}
	}
	forEachFault(s, fr.class, b, ref.marks, fr.huge, func(in []byte, kind, desc string) {
		if reencode {
			var n int
			var ok bool
			// the byte string the statement speaks about is the one handed to the decoder: the comparison uses a copy taken
			// before the call
			pristine := append([]byte{}, in...)
			if panicked, _ := hx.Try(func() { n, ok = decode(in)() }); panicked {
				s.Probe("decode-panicked(see C02)")
				return
			}
			fr.st.calls++
			if !ok {
				fr.st.rejected++
				return
			}
			fr.st.accepted++
			if !bytes.Equal(pristine, in) {
				// "yields exactly b[:n]": with a decoder that rewrites the bytes it was given there are two b's, and the
				// re-encoding can only equal one of them
				s.Fail("canonical-decode", "decode-modifies-input:"+e.name+":"+kind, "validating Decode accepted a %s encoding (%s, n=%d) and changed the bytes it was given\nbefore: %x\nafter:  %x", e.name, desc, n, clip(pristine), clip(in))
			}
			checkReencode(s, e, kind, desc, pristine, n, dst, b, ref.marks, fr.class)
			return
		}
		probe(s, &fr.st, fr.target, kind, fmt.Sprintf("%s; type=%s validate=%v", desc, e.name, validate), in, fr.measure(), decode(in))
	})
	fr.done()
}

// checkReencode: a faulted encoding that the validating decoder accepts must be the canonical
// encoding of the value it decoded to.
func checkReencode(s *simrt.Sim, e *entry, kind, desc string, in []byte, n int, dst reflect.Value, orig []byte, marks []mark, class string) {
	if n > len(in) || n < 0 {
		return // C02's oracle
	}
	if hasOutOfRangeTime(dst.Elem()) {
		s.Probe("accepted-but-excluded(timestamp-out-of-int64ns)")
		return
	}
	s.Probe("accepted-faulted-encoding")
	var b2 []byte
	var err error
	if panicked, pv := hx.Try(func() { b2, err = encodeReal(s, dst, true) }); panicked {
		s.Fail("canonical-decode", "reencode-panics:"+e.name+":"+kind, "Decode accepted a faulted %s encoding (%s) but Encode of the decoded value panicked: %v\ninput: %x", e.name, desc, pv, clip(in))
	}
	if err != nil {
		s.Fail("canonical-decode", "reencode-rejected:"+e.name+":"+kind,
			"validating Decode accepted a faulted %s encoding (%s, n=%d) but validating Encode rejects the decoded value: %v\ninput:    %x\noriginal: %x", e.name, desc, n, err, clip(in), clip(orig))
	}
	if !bytes.Equal(b2, in[:n]) {
		where := "-"
		if class == "flip-structural" || class == "inflate-prefix" || class == "flip-sampled" {
			where = "payload"
			d := firstDiff(b2, in[:n])
			for _, m := range marks {
				if d >= m.off && d < m.off+m.w {
					where = m.kind
				}
			}
		}
		s.Fail("canonical-decode", "reencode-differs:"+e.name+":"+kind+":"+where,
			"validating Decode accepted a faulted %s encoding (%s, n=%d) whose re-encoding differs (malleable encoding)\naccepted: %x\nre-enc:   %x\noriginal: %x", e.name, desc, n, clip(in[:n]), clip(b2), clip(orig))
	}
}

func firstDiff(a, b []byte) int {
	for i := 0; i < len(a) && i < len(b); i++ {
		if a[i] != b[i] {
			return i
		}
	}
	return min(len(a), len(b))
}

// ---------------------------------------------------------------------------------------------
// stream Read* helpers on a faulting reader

type streamTarget struct {
	name  string
	build func(s *simrt.Sim) (data []byte, marks []mark, read func(r io.ReadSeeker) error)
}

func lenMark(lt int, kind string) []mark {
	return []mark{{off: 0, w: lenTypeWidth[lt], kind: kind, alloc: kind == "len"}}
}

func written(f func(w *stream.ByteBuffer) error) []byte {
	buf := stream.NewByteBuffer()
	must(f(buf))
	b, _ := buf.Bytes()
	return append([]byte{}, b...)
}

func rawObject(short bool) func(b []byte) ([]byte, int, error) {
	return func(b []byte) ([]byte, int, error) {
		if short && len(b) > 0 {
			return b, len(b) - 1, nil
		}
		return b, len(b), nil
	}
}

var streamTargets = []streamTarget{
	// the typeutils decoders as object callbacks: the size of the object comes from the input's own length prefix, so
	// they see byte strings of every length (here: the announced and supplied length is drawn from 0..40)
	{"stream.ReadObjectWithSize(typeutils)", func(s *simrt.Sim) ([]byte, []mark, func(io.ReadSeeker) error) {
		lt := s.Choose(4)
		b := genRawBytes(s, s.Choose(41))
		wide := s.Choose(2) == 1
		return written(func(w *stream.ByteBuffer) error { return stream.WriteBytesWithSize(w, b, lenTypes[lt]) }), lenMark(lt, "len"),
			func(r io.ReadSeeker) error {
				var err error
				if wide {
					_, err = stream.ReadObjectWithSize(r, lenTypes[lt], typeutils.ByteArray32FromBytes)
				} else {
					_, err = stream.ReadObjectWithSize(r, lenTypes[lt], typeutils.Uint64FromBytes)
				}
				return err
			}
	}},
	{"stream.Read", func(s *simrt.Sim) ([]byte, []mark, func(io.ReadSeeker) error) {
		switch s.Choose(4) {
		case 0:
			return written(func(w *stream.ByteBuffer) error { return stream.Write(w, uint16(genBits(s, 16))) }), nil,
				func(r io.ReadSeeker) error { _, err := stream.Read[uint16](r); return err }
		case 1:
			return written(func(w *stream.ByteBuffer) error { return stream.Write(w, genBits(s, 64)) }), nil,
				func(r io.ReadSeeker) error { _, err := stream.Read[uint64](r); return err }
		case 2:
			return written(func(w *stream.ByteBuffer) error { return stream.Write(w, true) }), []mark{{off: 0, w: 1, kind: "bool"}},
				func(r io.ReadSeeker) error { _, err := stream.Read[bool](r); return err }
		default:
			var a A36
			copy(a[:], genRawBytes(s, 36))
			return written(func(w *stream.ByteBuffer) error { return stream.Write(w, a) }), nil,
				func(r io.ReadSeeker) error { _, err := stream.Read[A36](r); return err }
		}
	}},
	{"stream.ReadBytes", func(s *simrt.Sim) ([]byte, []mark, func(io.ReadSeeker) error) {
		b := genRawBytes(s, 1+s.Choose(40))
		return written(func(w *stream.ByteBuffer) error { return stream.WriteBytes(w, b) }), nil,
			func(r io.ReadSeeker) error { _, err := stream.ReadBytes(r, len(b)); return err }
	}},
	{"stream.ReadBytesWithSize", func(s *simrt.Sim) ([]byte, []mark, func(io.ReadSeeker) error) {
		lt := s.Choose(4)
		b := genRawBytes(s, s.Choose(40))
		return written(func(w *stream.ByteBuffer) error { return stream.WriteBytesWithSize(w, b, lenTypes[lt]) }), lenMark(lt, "len"),
			func(r io.ReadSeeker) error { _, err := stream.ReadBytesWithSize(r, lenTypes[lt]); return err }
	}},
	// The object callback is a trivial one here (the payload decoders are the serix / deser families'
	// business): it accepts any bytes, or reports fewer consumed bytes than it was given.
	{"stream.ReadObject", func(s *simrt.Sim) ([]byte, []mark, func(io.ReadSeeker) error) {
		b := genRawBytes(s, 1+s.Choose(30))
		short := s.Choose(4) == 0
		data := written(func(w *stream.ByteBuffer) error {
			return stream.WriteObject(w, b, func(x []byte) ([]byte, error) { return x, nil })
		})
		return data, nil, func(r io.ReadSeeker) error {
			_, err := stream.ReadObject(r, len(data), rawObject(short))
			return err
		}
	}},
	{"stream.ReadObjectWithSize", func(s *simrt.Sim) ([]byte, []mark, func(io.ReadSeeker) error) {
		lt := s.Choose(4)
		b := genRawBytes(s, s.Choose(30))
		short := s.Choose(4) == 0
		data := written(func(w *stream.ByteBuffer) error {
			return stream.WriteObjectWithSize(w, b, lenTypes[lt], func(x []byte) ([]byte, error) { return x, nil })
		})
		return data, lenMark(lt, "len"), func(r io.ReadSeeker) error {
			_, err := stream.ReadObjectWithSize(r, lenTypes[lt], rawObject(short))
			return err
		}
	}},
	{"stream.ReadCollection", func(s *simrt.Sim) ([]byte, []mark, func(io.ReadSeeker) error) {
		lt := s.Choose(4)
		cnt := s.Choose(5)
		data := written(func(w *stream.ByteBuffer) error {
			return stream.WriteCollection(w, lenTypes[lt], func() (int, error) {
				for i := 0; i < cnt; i++ {
					must(stream.Write(w, uint16(i*257)))
				}
				return cnt, nil
			})
		})
		return data, lenMark(lt, "count"), func(r io.ReadSeeker) error {
			return stream.ReadCollection(r, lenTypes[lt], func(int) error { _, err := stream.Read[uint16](r); return err })
		}
	}},
	{"stream.PeekSize", func(s *simrt.Sim) ([]byte, []mark, func(io.ReadSeeker) error) {
		lt := s.Choose(4)
		b := genRawBytes(s, s.Choose(10))
		return written(func(w *stream.ByteBuffer) error { return stream.WriteBytesWithSize(w, b, lenTypes[lt]) }), lenMark(lt, "len"),
			func(r io.ReadSeeker) error { _, err := stream.PeekSize(r, lenTypes[lt]); return err }
	}},
}

func faultStreamBody(s *simrt.Sim) {
	tg := streamTargets[s.Choose(len(streamTargets))]
	data, marks, read := tg.build(s)
	fr := newFaultRun(s, tg.name, append([]string{"transport-error"}, faultClasses...))
	chunk := s.Choose(2) == 1
	s.Logf("target=%s class=%s huge=%v chunk=%v stream(%d)=%x", tg.name, fr.class, fr.huge, chunk, len(data), clip(data))
	call := func(in []byte, failAt int) func() (int, bool) {
		return func() (int, bool) {
			r := newSimReader(s, in, chunk)
			r.failAt = failAt
			err := read(r)
			return r.pos, err == nil
		}
	}
	probe(s, &fr.st, fr.target, "none", "unfaulted", data, true, call(data, -1))
	if fr.class == "transport-error" {
		n := len(data)
		start := s.Choose(n + 1)
		for i := 0; i <= n; i++ {
			k := (start + i) % (n + 1)
			s.Fault("transport-error")
			probe(s, &fr.st, fr.target, "transport-error", fmt.Sprintf("reader fails at offset %d/%d", k, n), data, fr.measure(), call(data, k))
		}
	} else {
		forEachFault(s, fr.class, data, marks, fr.huge, func(in []byte, kind, desc string) {
			probe(s, &fr.st, fr.target, kind, desc, in, fr.measure(), call(in, -1))
		})
	}
	fr.done()
}

// ---------------------------------------------------------------------------------------------
// Deserializer primitives

type tinySeri struct {
	den serializer.TypeDenotationType
	ty  uint32
	v   uint16
}

func (t *tinySeri) MarshalJSON() ([]byte, error) { return nil, nil }
func (t *tinySeri) UnmarshalJSON([]byte) error   { return nil }
func (t *tinySeri) Serialize(serializer.DeSerializationMode, interface{}) ([]byte, error) {
	se := serializer.NewSerializer()
	if t.den == serializer.TypeDenotationByte {
		se.WriteNum(uint8(t.ty), passErr)
	} else {
		se.WriteNum(t.ty, passErr)
	}
	return se.WriteNum(t.v, passErr).Serialize()
}
func (t *tinySeri) Deserialize(data []byte, _ serializer.DeSerializationMode, _ interface{}) (int, error) {
	return serializer.NewDeserializer(data).CheckTypePrefix(t.ty, t.den, passErr).ReadNum(&t.v, passErr).Done()
}

func passErr(err error) error { return err }

// deserOp is one Serializer write and its Deserializer mirror.
type deserOp struct {
	name  string
	write func(se *serializer.Serializer) (marks []mark) // marks relative to the op's start
	read  func(d *serializer.Deserializer)
	// the reader's own rules may turn the un-faulted encoding down: success is not required
	rejects bool
}

var seriLen = []serializer.SeriLengthPrefixType{serializer.SeriLengthPrefixTypeAsByte, serializer.SeriLengthPrefixTypeAsUint16, serializer.SeriLengthPrefixTypeAsUint32}

func genDeserOp(s *simrt.Sim, first bool) deserOp {
	// The first op of a chain is the entry point under test; the followers are fixed-size reads that do
	// not allocate (they check that the error / offset state is carried on), so that an allocation or
	// panic is attributed to the right entry point.
	pick := s.Choose(17)
	if !first {
		pick = []int{0, 1, 3, 4, 16}[s.Choose(5)]
	}
	mode := serializer.DeSeriModeNoValidation
	if s.Choose(2) == 1 {
		mode = serializer.DeSeriModePerformValidation
	}
	tinySel := func(den serializer.TypeDenotationType) serializer.SerializableReadGuardFunc {
		return func(ty uint32) (serializer.Serializable, error) {
			if ty != 7 && ty != 8 {
				return nil, fmt.Errorf("unknown type %d", ty)
			}
			return &tinySeri{den: den, ty: ty}, nil
		}
	}
	switch pick {
	case 0:
		x := uint16(genBits(s, 16))
		return deserOp{name: "ReadNum[uint16]", write: func(se *serializer.Serializer) []mark { se.WriteNum(x, passErr); return nil },
			read: func(d *serializer.Deserializer) { var v uint16; d.ReadNum(&v, passErr) }}
	case 1:
		x := genBits(s, 64)
		return deserOp{name: "ReadNum[uint64]", write: func(se *serializer.Serializer) []mark { se.WriteNum(x, passErr); return nil },
			read: func(d *serializer.Deserializer) { var v uint64; d.ReadNum(&v, passErr) }}
	case 2:
		x := float32(genBits(s, 16))
		return deserOp{name: "ReadNum[float32]", write: func(se *serializer.Serializer) []mark { se.WriteNum(x, passErr); return nil },
			read: func(d *serializer.Deserializer) { var v float32; d.ReadNum(&v, passErr) }}
	case 3:
		x := s.Choose(2) == 1
		return deserOp{name: "ReadBool", write: func(se *serializer.Serializer) []mark {
			se.WriteBool(x, passErr)
			return []mark{{off: 0, w: 1, kind: "bool"}}
		},
			read: func(d *serializer.Deserializer) { var v bool; d.ReadBool(&v, passErr) }}
	case 4:
		x := byte(genBits(s, 8))
		return deserOp{name: "ReadByte", write: func(se *serializer.Serializer) []mark { se.WriteByte(x, passErr); return nil },
			read: func(d *serializer.Deserializer) { var v byte; d.ReadByte(&v, passErr) }}
	case 5:
		x := leBigInt(genRawBytes(s, 32))
		return deserOp{name: "ReadUint256", write: func(se *serializer.Serializer) []mark { se.WriteUint256(x, passErr); return nil },
			read: func(d *serializer.Deserializer) { var v *big.Int; d.ReadUint256(&v, passErr) }}
	case 6:
		x := time.Unix(0, int64(genBits(s, 63))).UTC()
		return deserOp{name: "ReadTime", write: func(se *serializer.Serializer) []mark { se.WriteTime(x, passErr); return nil },
			read: func(d *serializer.Deserializer) { var v time.Time; d.ReadTime(&v, passErr) }}
	case 7:
		x := genRawBytes(s, s.Choose(9))
		return deserOp{name: "ReadBytes", write: func(se *serializer.Serializer) []mark { se.WriteBytes(x, passErr); return nil },
			read: func(d *serializer.Deserializer) { var v []byte; d.ReadBytes(&v, len(x), passErr) }}
	case 8:
		x := genRawBytes(s, s.Choose(9))
		return deserOp{name: "ReadBytesInPlace", write: func(se *serializer.Serializer) []mark { se.WriteBytes(x, passErr); return nil },
			read: func(d *serializer.Deserializer) { d.ReadBytesInPlace(make([]byte, len(x)), passErr) }}
	case 9:
		w := s.Choose(3)
		x := genRawBytes(s, s.Choose(9))
		minL, maxL := 0, 0
		if s.Choose(2) == 1 {
			maxL = 16
		}
		return deserOp{name: "ReadVariableByteSlice", write: func(se *serializer.Serializer) []mark {
			se.WriteVariableByteSlice(x, seriLen[w], passErr, minL, maxL)
			return []mark{{0, 1 << w, "len", true}}
		}, read: func(d *serializer.Deserializer) {
			var v []byte
			d.ReadVariableByteSlice(&v, seriLen[w], passErr, minL, maxL)
		}}
	case 10:
		w := s.Choose(3)
		x := string(genStringBytes(s, 0, 8))
		minL, maxL := 0, 0
		if s.Choose(2) == 1 {
			maxL = 16
		}
		return deserOp{name: "ReadString", write: func(se *serializer.Serializer) []mark {
			se.WriteString(x, seriLen[w], passErr, minL, maxL)
			return []mark{{off: 0, w: 1 << w, kind: "len"}}
		}, read: func(d *serializer.Deserializer) { var v string; d.ReadString(&v, seriLen[w], passErr, minL, maxL) }}
	case 11:
		x := s.Choose(70000)
		return deserOp{name: "ReadPayloadLength", write: func(se *serializer.Serializer) []mark {
			se.WritePayloadLength(x, passErr)
			return []mark{{off: 0, w: 4, kind: "len"}}
		},
			read: func(d *serializer.Deserializer) { _, _ = d.ReadPayloadLength() }}
	case 12:
		w := s.Choose(3)
		cnt := s.Choose(4)
		var data [][]byte
		for i := 0; i < cnt; i++ {
			data = append(data, []byte{byte(i), byte(genBits(s, 8))})
		}
		rules := &serializer.ArrayRules{Max: 8, ValidationMode: serializer.ArrayValidationModeLexicalOrdering | serializer.ArrayValidationModeNoDuplicates}
		// the reader may come with a type-uniqueness rule on top (elements of two bytes are shorter than a uint32 type
		// denotation: with validation the rule has to turn them down with an error)
		readRules := *rules
		extra := []serializer.ArrayValidationMode{0, 0, serializer.ArrayValidationModeAtMostOneOfEachTypeByte, serializer.ArrayValidationModeAtMostOneOfEachTypeUint32}[s.Choose(4)]
		readRules.ValidationMode |= extra
		rejects := extra == serializer.ArrayValidationModeAtMostOneOfEachTypeUint32 && cnt > 0 && mode == serializer.DeSeriModePerformValidation
		return deserOp{name: "ReadSequenceOfObjects", rejects: rejects, write: func(se *serializer.Serializer) []mark {
			se.WriteSliceOfByteSlices(data, mode, seriLen[w], rules, passErr)
			return []mark{{off: 0, w: 1 << w, kind: "count"}}
		}, read: func(d *serializer.Deserializer) {
			d.ReadSequenceOfObjects(func(b []byte) (int, error) {
				if len(b) < 2 {
					return 0, serializer.ErrDeserializationNotEnoughData
				}
				return 2, nil
			}, mode, seriLen[w], &readRules, passErr)
		}}
	case 13:
		w := s.Choose(3)
		den := serializer.TypeDenotationType(s.Choose(2))
		cnt := s.Choose(4)
		var seris serializer.Serializables
		for i := 0; i < cnt; i++ {
			ty := uint32(7 + s.Choose(2))
			if i == 0 {
				ty = 7 // must occur
			}
			seris = append(seris, &tinySeri{den: den, ty: ty, v: uint16(genBits(s, 16))})
		}
		rules := &serializer.ArrayRules{Max: 8, Guards: serializer.SerializableGuard{ReadGuard: tinySel(den)}}
		if cnt > 0 {
			rules.MustOccur = serializer.TypePrefixes{7: struct{}{}}
		}
		tw := 4
		if den == serializer.TypeDenotationByte {
			tw = 1
		}
		return deserOp{name: "ReadSliceOfObjects", write: func(se *serializer.Serializer) []mark {
			se.WriteSliceOfObjects(seris, serializer.DeSeriModeNoValidation, nil, seriLen[w], rules, passErr)
			ms := []mark{{off: 0, w: 1 << w, kind: "count"}}
			for i := 0; i < cnt; i++ {
				ms = append(ms, mark{off: 1<<w + i*(tw+2), w: tw, kind: "code"})
			}
			return ms
		}, read: func(d *serializer.Deserializer) {
			d.ReadSliceOfObjects(func(serializer.Serializables) {}, mode, nil, seriLen[w], den, rules, passErr)
		}}
	case 14:
		den := serializer.TypeDenotationType(s.Choose(2))
		t := &tinySeri{den: den, ty: 7, v: uint16(genBits(s, 16))}
		tw := 4
		if den == serializer.TypeDenotationByte {
			tw = 1
		}
		return deserOp{name: "ReadObject", write: func(se *serializer.Serializer) []mark {
			se.WriteObject(t, serializer.DeSeriModeNoValidation, nil, nil, passErr)
			return []mark{{off: 0, w: tw, kind: "code"}}
		}, read: func(d *serializer.Deserializer) {
			var out serializer.Serializable
			d.ReadObject(&out, mode, nil, den, tinySel(den), passErr)
		}}
	case 15:
		var t serializer.Serializable
		if s.Choose(3) > 0 {
			t = &tinySeri{den: serializer.TypeDenotationUint32, ty: 8, v: uint16(genBits(s, 16))}
		}
		return deserOp{name: "ReadPayload", write: func(se *serializer.Serializer) []mark {
			se.WritePayload(t, serializer.DeSeriModeNoValidation, nil, nil, passErr)
			if t == nil {
				return []mark{{off: 0, w: 4, kind: "len"}}
			}
			return []mark{{off: 0, w: 4, kind: "len"}, {off: 4, w: 4, kind: "code"}}
		}, read: func(d *serializer.Deserializer) {
			var out serializer.Serializable
			d.ReadPayload(&out, mode, nil, tinySel(serializer.TypeDenotationUint32), passErr)
		}}
	default:
		x := genRawBytes(s, s.Choose(6))
		return deserOp{name: "Skip", write: func(se *serializer.Serializer) []mark { se.WriteBytes(x, passErr); return nil },
			read: func(d *serializer.Deserializer) { d.Skip(len(x), passErr) }}
	}
}

func faultDeserBody(s *simrt.Sim) {
	// the entry point under test comes first in the chain (so its name is the target); 0-2 more follow
	nops := 1 + s.Choose(3)
	var ops []deserOp
	se := serializer.NewSerializer()
	var marks []mark
	for i := 0; i < nops; i++ {
		op := genDeserOp(s, i == 0)
		base := se.Written()
		for _, m := range op.write(se) {
			m.off += base
			marks = append(marks, m)
		}
		ops = append(ops, op)
	}
	data, err := se.Serialize()
	if err != nil {
		s.Fail("encode-accepts", "Serializer:"+ops[0].name, "Serializer rejected a generated script: %v", err)
	}
	data = append([]byte{}, data...)
	fr := newFaultRun(s, "Deserializer."+ops[0].name, faultClasses)
	names := ""
	for _, op := range ops {
		names += op.name + " "
	}
	s.Logf("chain=%sclass=%s huge=%v data(%d)=%x", names, fr.class, fr.huge, len(data), clip(data))
	call := func(in []byte) func() (int, bool) {
		return func() (int, bool) {
			d := serializer.NewDeserializer(in)
			for _, op := range ops {
				op.read(d)
			}
			n, err := d.Done()
			return n, err == nil
		}
	}
	n, ok := probe(s, &fr.st, fr.target, "none", "unfaulted", data, true, call(data))
	if ops[0].rejects {
		// (whether the rule turns elements without room for a type down or lets them pass is not C02's business: the call
		// has to return, that is all)
		s.Probe("reader-rules-may-turn-the-unfaulted-encoding-down")
	} else if !ok || n != len(data) {
		s.Fail("deser-roundtrip", "Deserializer:"+ops[0].name, "reading back an unfaulted Serializer output returned n=%d ok=%v (len %d)", n, ok, len(data))
	}
	forEachFault(s, fr.class, data, marks, fr.huge, func(in []byte, kind, desc string) {
		probe(s, &fr.st, fr.target, kind, desc+"; chain="+names, in, fr.measure(), call(in))
	})
	fr.done()
}

// ---------------------------------------------------------------------------------------------
// SerializableOrderedMap.Decode

func faultSOMapBody(s *simrt.Sim) {
	m := serializableorderedmap.New[uint16, Name]()
	cnt := s.Choose(4)
	var marks []mark
	marks = append(marks, mark{off: 0, w: 4, kind: "count"})
	off := 4
	s.Atomic(func() {
		for i := 0; i < cnt; i++ {
			name := Name(genStringBytes(s, 1, 6))
			k := uint16(genBits(s, 16))
			if _, has := m.Get(k); has {
				continue
			}
			m.Set(k, name)
			marks = append(marks, mark{off: off + 2, w: 1, kind: "len"})
			off += 2 + 1 + len(name)
		}
	})
	var data []byte
	var err error
	s.Atomic(func() { data, err = m.Encode(api) })
	if err != nil {
		s.Fail("encode-accepts", "SerializableOrderedMap.Encode", "Encode failed: %v", err)
	}
	data = append([]byte{}, data...)
	fr := newFaultRun(s, "SerializableOrderedMap.Decode", faultClasses)
	s.Logf("entries=%d class=%s huge=%v data(%d)=%x", m.Size(), fr.class, fr.huge, len(data), clip(data))
	call := func(in []byte) func() (int, bool) {
		return func() (n int, ok bool) {
			out := serializableorderedmap.New[uint16, Name]()
			var err error
			s.Atomic(func() { n, err = out.Decode(api, in) })
			return n, err == nil
		}
	}
	n, ok := probe(s, &fr.st, fr.target, "none", "unfaulted", data, true, call(data))
	if !ok || n != len(data) {
		s.Fail("serix-roundtrip", "SerializableOrderedMap.Decode-rejects-valid", "Decode of a valid encoding returned n=%d ok=%v (len %d)", n, ok, len(data))
	}
	forEachFault(s, fr.class, data, marks, fr.huge, func(in []byte, kind, desc string) {
		probe(s, &fr.st, fr.target, kind, desc, in, fr.measure(), call(in))
	})
	fr.done()
}

// ---------------------------------------------------------------------------------------------
// JSON: MapDecode / JSONDecode on a faulted document tree

// jsonSite is one place in the document where a fault can be applied.
type jsonSite struct {
	kind   string // schema kind expected at this place
	path   string
	set    func(v any)
	del    func() // nil when the value is an array element
	expect any
}

func jsonSites(n *node, j any, path string, set func(any), del func(), out *[]jsonSite) {
	kindName := n.kind.String()
	if n.kind == kUint || n.kind == kInt {
		if n.bits == 64 {
			kindName += "64"
		} else {
			kindName += "8-32"
		}
	}
	if n.kind == kByteArray && n.code >= 0 {
		kindName = "bytearray-typed"
	}
	*out = append(*out, jsonSite{kind: kindName, path: path, set: set, del: del, expect: j})
	switch n.kind {
	case kPtr:
		*out = (*out)[:len(*out)-1]
		jsonSites(n.elem, j, path, set, del, out)
	case kIface:
		if m, ok := j.(map[string]any); ok {
			if code, ok := m["type"].(float64); ok {
				for _, impl := range n.impls {
					if float64(impl.code) == code {
						structSites(impl, m, path, out)
					}
				}
			}
		}
	case kStruct:
		if m, ok := j.(map[string]any); ok {
			structSites(n, m, path, out)
		}
	case kSlice, kArray:
		if a, ok := j.([]any); ok {
			for i := range a {
				jsonSites(n.elem, a[i], fmt.Sprintf("%s[%d]", path, i), func(v any) { a[i] = v }, nil, out)
			}
		}
	case kMap:
		if m, ok := j.(map[string]any); ok {
			for _, k := range sortedKeys(m) {
				jsonSites(n.elem, m[k], path+"{"+k+"}", func(v any) { m[k] = v }, func() { delete(m, k) }, out)
			}
		}
	}
}

func structSites(n *node, m map[string]any, path string, out *[]jsonSite) {
	if n.code >= 0 {
		*out = append(*out, jsonSite{kind: "typecode", path: path + ".type", set: func(v any) { m["type"] = v }, del: func() { delete(m, "type") }, expect: m["type"]})
	}
	for _, fd := range n.fields {
		if fd.flatten || fd.inlined {
			structSites(fd.n, m, path, out)
			continue
		}
		v, has := m[fd.key]
		if !has {
			continue
		}
		jsonSites(fd.n, v, path+"."+fd.key, func(x any) { m[fd.key] = x }, func() { delete(m, fd.key) }, out)
	}
}

func sortedKeys(m map[string]any) []string {
	ks := make([]string, 0, len(m))
	for k := range m {
		ks = append(ks, k)
	}
	sort.Strings(ks)
	return ks
}

// replacement values of every JSON dynamic type, plus out-of-range numbers
var jsonReplacements = []struct {
	name string
	v    func() any
}{
	{"null", func() any { return nil }},
	{"bool", func() any { return true }},
	{"number", func() any { return float64(3) }},
	{"string", func() any { return "zz" }},
	{"hexstring", func() any { return "0x0102" }},
	{"numstring", func() any { return "12" }},
	{"array", func() any { return []any{float64(1), "a"} }},
	{"emptyarray", func() any { return []any{} }},
	{"object", func() any { return map[string]any{"type": float64(1), "x": "y"} }},
	{"emptyobject", func() any { return map[string]any{} }},
	{"number-negative", func() any { return float64(-1) }},
	{"number-fraction", func() any { return 1.5 }},
	{"number-huge", func() any { return 1e40 }},
	{"numstring-huge", func() any { return "99999999999999999999999999" }},
	{"string-1char-digit", func() any { return "7" }},
	{"string-1char", func() any { return "x" }},
	{"string-empty", func() any { return "" }},
	{"hexprefix-only", func() any { return "0x" }},
	{"hexstring-odd", func() any { return "0x1" }},
}

func jsonTypeName(v any) string {
	switch v.(type) {
	case nil:
		return "null"
	case bool:
		return "bool"
	case float64:
		return "number"
	case string:
		return "string"
	case []any:
		return "array"
	case map[string]any:
		return "object"
	}
	return fmt.Sprintf("%T", v)
}

func faultJSONBody(s *simrt.Sim) {
	var cands []*entry
	for _, e := range zoo {
		if e.json {
			cands = append(cands, e)
		}
	}
	e := cands[s.Choose(len(cands))]
	orig, _, _ := genCase(s, e)
	validate := s.Choose(2) == 1
	var doc []byte
	var err error
	s.Atomic(func() { doc, err = api.JSONEncode(ctx, orig.Elem().Interface(), valOpts(validate)...) })
	if err != nil {
		s.Fail("encode-accepts", "JSONEncode:"+e.name, "JSONEncode rejected a generated %s value: %v", e.name, err)
	}
	classes := []string{"wrong-json-type", "key-dropped", "truncate", "key-duplicated", "flip-sampled", "array-resized"}
	class := classes[s.Choose(len(classes))]
	viaJSON := s.Choose(2) == 1 // JSONDecode (text) or MapDecode (tree)
	if class == "truncate" || class == "key-duplicated" || class == "flip-sampled" {
		viaJSON = true
	}
	entryPoint := "MapDecode"
	if viaJSON {
		entryPoint = "JSONDecode"
	}
	target := "serix.MapDecode"
	if class == "truncate" || class == "key-duplicated" || class == "flip-sampled" {
		target = "serix.JSONDecode"
	}
	fr := &faultRun{s: s, target: target, class: class}
	s.Logf("type=%s validate=%v class=%s via=%s doc=%s", e.name, validate, class, entryPoint, clip(doc))
	decodeTree := func(tree map[string]any) func() (int, bool) {
		return func() (int, bool) {
			dst := reflect.New(e.rt)
			var err error
			s.Atomic(func() { err = api.MapDecode(ctx, tree, dst.Interface(), valOpts(validate)...) })
			return -1, err == nil
		}
	}
	decodeText := func(text []byte) func() (int, bool) {
		return func() (int, bool) {
			dst := reflect.New(e.rt)
			var err error
			s.Atomic(func() { err = api.JSONDecode(ctx, text, dst.Interface(), valOpts(validate)...) })
			return -1, err == nil
		}
	}
	parse := func() map[string]any {
		m := map[string]any{}
		if err := json.Unmarshal(doc, &m); err != nil {
			s.Fail("json-roundtrip", "JSONEncode-invalid-json:"+e.name, "JSONEncode output does not parse: %v\n%s", err, doc)
		}
		return m
	}
	_, ok := probe(s, &fr.st, fr.target, "none", "unfaulted", doc, true, decodeText(doc))
	if !ok {
		s.Fail("json-roundtrip", "JSONDecode-rejects-valid:"+e.name, "JSONDecode(validate=%v) rejected the output of JSONEncode for %s\n%s", validate, e.name, clip(doc))
	}
	run := func(tree map[string]any, kind, desc string) {
		if viaJSON {
			text, err := json.Marshal(tree)
			if err != nil {
				return
			}
			probe(s, &fr.st, fr.target, kind, desc, text, fr.measure(), decodeText(text))
		} else {
			probe(s, &fr.st, fr.target, kind, desc, doc, fr.measure(), decodeTree(tree))
		}
	}
	switch class {
	case "wrong-json-type":
		// every site x every replacement of another dynamic type (complete for this document)
		var sites []jsonSite
		jsonSites(e.n, parse(), "$", func(any) {}, nil, &sites)
		if len(sites) <= 1 {
			break
		}
		start := 1 + s.Choose(len(sites)-1)
		for i := 1; i < len(sites); i++ {
			idx := 1 + (start-1+i-1)%(len(sites)-1)
			site := sites[idx]
			rstart := s.Choose(len(jsonReplacements))
			for ri := range jsonReplacements {
				rep := jsonReplacements[(rstart+ri)%len(jsonReplacements)]
				// fresh tree per fault
				var fresh []jsonSite
				tree := parse()
				jsonSites(e.n, tree, "$", func(any) {}, nil, &fresh)
				if idx >= len(fresh) {
					continue
				}
				v := rep.v()
				fresh[idx].set(v)
				s.Fault("json-wrong-type")
				run(tree, "wrong-json-type:"+site.kind, fmt.Sprintf("%s (%s, was %s) replaced by %s; via %s", site.path, site.kind, jsonTypeName(site.expect), rep.name, entryPoint))
			}
		}
	case "array-resized":
		// every JSON array of the document is delivered one element longer (last element repeated), one element shorter
		// and doubled: a lost or repeated chunk of a stored document (complete for this document)
		var sites []jsonSite
		jsonSites(e.n, parse(), "$", func(any) {}, nil, &sites)
		for idx := 1; idx < len(sites); idx++ {
			arr, isArr := sites[idx].expect.([]any)
			if !isArr {
				continue
			}
			for variant := 0; variant < 3; variant++ {
				var fresh []jsonSite
				tree := parse()
				jsonSites(e.n, tree, "$", func(any) {}, nil, &fresh)
				if idx >= len(fresh) {
					continue
				}
				cur, _ := fresh[idx].expect.([]any)
				var resized []any
				var what string
				switch {
				case variant == 0 && len(cur) > 0:
					resized, what = append(append([]any{}, cur...), cur[len(cur)-1]), "one element longer"
				case variant == 1 && len(cur) > 0:
					resized, what = append([]any{}, cur[:len(cur)-1]...), "one element shorter"
				case variant == 2 && len(cur) > 0:
					resized, what = append(append([]any{}, cur...), cur...), "doubled"
				default:
					continue
				}
				fresh[idx].set(resized)
				s.Fault("json-array-resized")
				run(tree, "array-resized:"+sites[idx].kind, fmt.Sprintf("%s (%s, %d elements) delivered %s; via %s", sites[idx].path, sites[idx].kind, len(arr), what, entryPoint))
			}
		}
	case "key-dropped":
		var sites []jsonSite
		jsonSites(e.n, parse(), "$", func(any) {}, nil, &sites)
		for idx := 1; idx < len(sites); idx++ {
			if sites[idx].del == nil {
				continue
			}
			var fresh []jsonSite
			tree := parse()
			jsonSites(e.n, tree, "$", func(any) {}, nil, &fresh)
			fresh[idx].del()
			s.Fault("json-key-dropped")
			run(tree, "key-dropped:"+sites[idx].kind, fmt.Sprintf("%s (%s) dropped", sites[idx].path, sites[idx].kind))
		}
	case "truncate":
		forEachFault(s, "truncate", doc, nil, false, func(in []byte, _, desc string) {
			probe(s, &fr.st, fr.target, "truncated", desc, in, fr.measure(), decodeText(in))
		})
	case "flip-sampled":
		forEachFault(s, "flip-sampled", doc, nil, false, func(in []byte, _, desc string) {
			probe(s, &fr.st, fr.target, "data-flip", desc, in, fr.measure(), decodeText(in))
		})
	case "key-duplicated":
		// a second member with an existing top-level key and a value of another dynamic type is appended to
		// the top-level object (JSON text level: encoding/json keeps the last one)
		tree := parse()
		keys := sortedKeys(tree)
		kstart := s.Choose(len(keys))
		for ki := range keys {
			k := keys[(kstart+ki)%len(keys)]
			rstart := s.Choose(len(jsonReplacements))
			for ri := range jsonReplacements {
				rep := jsonReplacements[(rstart+ri)%len(jsonReplacements)]
				kb, _ := json.Marshal(k)
				vb, _ := json.Marshal(rep.v())
				text := append([]byte{}, doc[:len(doc)-1]...)
				text = append(text, ',')
				text = append(text, kb...)
				text = append(text, ':')
				text = append(text, vb...)
				text = append(text, '}')
				s.Fault("json-key-duplicated")
				probe(s, &fr.st, fr.target, "key-duplicated", fmt.Sprintf("top-level key %q duplicated with a %s value", k, rep.name), text, fr.measure(), decodeText(text))
			}
		}
	}
	fr.done()
}

// violate breaks one length bound of the value in place (a collection, string or byte slice below its minimum or above
// its maximum) and says which; "" if the type has no bound.
func violate(s *simrt.Sim, n *node, v *val) string {
	type cand struct {
		n    *node
		v    *val
		over bool
	}
	var cands []cand
	var walk func(n *node, v *val)
	walk = func(n *node, v *val) {
		if v == nil || v.nilp {
			return
		}
		switch n.kind {
		case kStruct:
			for i, fd := range n.fields {
				if i < len(v.kids) {
					walk(fd.n, v.kids[i])
				}
			}
		case kPtr:
			walk(n.elem, v)
		case kIface:
			if len(v.kids) > 0 && v.alt < len(n.impls) {
				walk(n.impls[v.alt], v.kids[0])
			}
		case kSlice, kMap, kString, kBytes:
			if n.min >= 1 {
				cands = append(cands, cand{n, v, false})
			}
			if n.max > 0 {
				cands = append(cands, cand{n, v, true})
			}
			if n.kind == kSlice {
				for _, k := range v.kids {
					walk(n.elem, k)
				}
			}
		}
	}
	walk(n, v)
	if len(cands) == 0 {
		return ""
	}
	c := cands[s.Choose(len(cands))]
	switch {
	case !c.over && (c.n.kind == kString || c.n.kind == kBytes):
		c.v.b = []byte{}
		return c.n.kind.String() + "-below-min"
	case !c.over:
		c.v.kids = nil
		return c.n.kind.String() + "-below-min"
	case c.n.kind == kString || c.n.kind == kBytes:
		for len(c.v.b) <= c.n.max {
			c.v.b = append(c.v.b, 'x')
		}
		return c.n.kind.String() + "-above-max"
	case c.n.kind == kSlice && len(c.v.kids) > 0:
		for len(c.v.kids) <= c.n.max {
			c.v.kids = append(c.v.kids, c.v.kids[len(c.v.kids)-1].clone())
		}
		return "slice-above-max"
	}
	return ""
}

// ---------------------------------------------------------------------------------------------
// oddtypes: hand-made images for the odd registrations of zoo.go (they are not part of the modelled zoo).

// oddDecode (C02): the decoders return - no panic, no more consumed bytes than supplied, no work in proportion to a
// count the input cannot hold.
func oddDecode(s *simrt.Sim) {
	var st probeStats
	switch s.Choose(3) {
	case 0:
		// a count far above what the input can hold, in front of 0..3 well-formed elements (an element with both fields
		// absent is two uint32 zeros); the input ends at an element boundary
		nel := s.Choose(4)
		count := uint32(1000000 + s.Choose(1000))
		if s.Choose(4) == 0 {
			count = uint32(nel) // the honest image, for contrast
		}
		in := []byte{byte(count), byte(count >> 8), byte(count >> 16), byte(count >> 24)}
		for i := 0; i < nel; i++ {
			in = append(in, 0, 0, 0, 0, 0, 0, 0, 0)
		}
		validate := s.Choose(2) == 1
		var out OptOnlys
		n, ok := probe(s, &st, "serix.Decode", "inflated-count", fmt.Sprintf("OptOnlys count=%d elements=%d validate=%v", count, nel, validate), in, true, func() (int, bool) {
			var n int
			var err error
			s.Atomic(func() { n, err = api.Decode(ctx, in, &out, valOpts(validate)...) })
			return n, err == nil
		})
		s.Logf("OptOnlys count=%d elements=%d -> n=%d ok=%v len=%d", count, nel, n, ok, len(out))
		if ok && len(out) > len(in) {
			s.Fail("decode-total", "more-elements-than-input-bytes:serix.Decode:inflated-count", "Decode of %d bytes (count prefix %d, %d elements present) succeeded with %d elements", len(in), count, nel, len(out))
		}
	default:
		// JSON: null where a pointer to a validated struct, or an element of a slice with a must-occur rule, is expected
		docs := []string{`{"p":null,"ptrs":[]}`, `{"ptrs":[null]}`, `{"ptrs":[{"type":5,"v":1},null]}`, `{"p":null,"ptrs":[null,null]}`, `{"p":{"type":5,"v":3},"ptrs":[{"type":5,"v":1}]}`}
		doc := docs[s.Choose(len(docs))]
		validate := s.Choose(3) != 0
		var out Boxed
		var err error
		_, ok := probe(s, &st, "serix.JSONDecode", "null-for-pointer", fmt.Sprintf("%s validate=%v", doc, validate), []byte(doc), false, func() (int, bool) {
			s.Atomic(func() { err = api.JSONDecode(ctx, []byte(doc), &out, valOpts(validate)...) })
			return 0, err == nil
		})
		s.Logf("JSONDecode(%s, validate=%v) -> ok=%v err=%v", doc, validate, ok, err)
	}
}

// oddRules (C03): images of rule-carrying odd types. Whatever the validating decoder accepts re-encodes, with
// validation, to exactly the accepted bytes.
func oddRules(s *simrt.Sim) {
	n := s.Choose(5)
	var in []byte
	var dst any
	var what string
	if s.Choose(2) == 0 {
		what = "flags"
		in = []byte{byte(n)}
		for i := 0; i < n; i++ {
			in = append(in, byte(s.Choose(6)))
		}
		dst = &Flags{}
	} else {
		what = "lexpairs"
		in = []byte{byte(n)}
		for i := 0; i < n; i++ {
			in = append(in, byte(s.Choose(4)), byte(s.Choose(4)))
		}
		dst = &LexPairs{}
	}
	var k int
	var err error
	if panicked, _ := hx.Try(func() { s.Atomic(func() { k, err = api.Decode(ctx, in, dst, valOpts(true)...) }) }); panicked {
		s.Probe("decode-panicked(see C02)")
		return
	}
	s.Logf("%s image %x -> n=%d err=%v", what, in, k, err)
	if err != nil {
		s.Probe("odd-image-rejected:" + what)
		return
	}
	s.Probe("odd-image-accepted:" + what)
	var back []byte
	s.Atomic(func() { back, err = api.Encode(ctx, reflect.ValueOf(dst).Elem().Interface(), valOpts(true)...) })
	if err != nil {
		s.Fail("canonical-decode", "reencode-rejected:"+what, "validating Decode accepted the %s image %x (n=%d) but validating Encode of the decoded value fails: %v", what, in, k, err)
	}
	if !bytes.Equal(back, in[:k]) {
		s.Fail("canonical-decode", "reencode-differs:"+what, "validating Decode accepted the %s image %x (n=%d); validating Encode of the decoded value gives %x", what, in, k, back)
	}
}
