package codec

// The type zoo: Go types registered with one serix API instance, a declarative schema (node) for each
// of them, a generator of neutral values (val) driven by the simulator's decision stream, a builder
// that turns a neutral value into the Go value, and a canonicalising comparer.
//
// The schema is written by hand from the struct definitions below; it is what the independent
// reference encoder (refenc.go) and the JSON fault-site walker (faults.go) are driven by. The real
// serix code never sees it.

import (
	"context"
	"encoding/binary"
	"fmt"
	"math"
	"math/big"
	"reflect"
	"sort"
	"time"

	"github.com/iotaledger/hive.go/serializer/v2"
	"github.com/iotaledger/hive.go/serializer/v2/serix"
	"verifsim/simrt"
)

// ---------------------------------------------------------------------------------------------
// Go types

type Name string // lenPrefix uint8, 1..8 bytes
type Blob []byte // lenPrefix uint16
type ID4 [4]byte // byte array with a uint8 type code

type Leaf struct {
	B   bool    `serix:""`
	U8  uint8   `serix:""`
	U16 uint16  `serix:""`
	U32 uint32  `serix:""`
	U64 uint64  `serix:""`
	I8  int8    `serix:""`
	I16 int16   `serix:""`
	I32 int32   `serix:""`
	I64 int64   `serix:""`
	F32 float32 `serix:""`
	F64 float64 `serix:""`
}

type Text struct {
	S8  string   `serix:",lenPrefix=uint8"`
	S16 string   `serix:",lenPrefix=uint16,minLen=1,maxLen=12"`
	S32 string   `serix:",lenPrefix=uint32"`
	B8  []byte   `serix:",lenPrefix=uint8,maxLen=10"`
	B16 []byte   `serix:",lenPrefix=uint16"`
	A3  [3]byte  `serix:""`
	H32 [32]byte `serix:""`
	N   Name     `serix:""`
	BL  Blob     `serix:""`
}

// Blob32 isolates the one uint32-prefixed byte slice of the zoo: the decoder allocates from that prefix,
// so the field comes first (no fault in front of it can shift what is read as its prefix).
type Blob32 struct {
	B32 []byte `serix:",lenPrefix=uint32,minLen=1"`
	Z   uint16 `serix:""`
}

type Stamp struct {
	N    *big.Int    `serix:""`
	T    time.Time   `serix:""`
	When []time.Time `serix:",lenPrefix=uint8,maxLen=3"`
	Amts []*big.Int  `serix:",lenPrefix=uint16"`
}

type Shape interface{ shape() }

type Circle struct {
	R uint16 `serix:""`
}
type Rect struct {
	W uint8 `serix:""`
	H uint8 `serix:""`
}
type Poly struct {
	Pts   []uint16 `serix:",lenPrefix=uint8,maxLen=4"`
	Label Name     `serix:""`
}

func (*Circle) shape() {}
func (*Rect) shape()   {}
func (*Poly) shape()   {}

type Msg interface{ msg() }

type Ping struct {
	Seq uint32 `serix:""`
}
type Data struct {
	Body Blob   `serix:""`
	Crc  uint32 `serix:""`
}

func (*Ping) msg() {}
func (*Data) msg() {}

type Inner struct {
	A   uint16 `serix:""`
	Tag Name   `serix:""`
}
type Tail struct {
	Z  uint8 `serix:""`
	ZZ bool  `serix:""`
}

type Wrap struct {
	Inner `serix:""`
	Tail  `serix:",inlined"`
	Opt   *Circle `serix:",optional"`
	OptI  Shape   `serix:",optional"`
	Must  *Rect   `serix:""`
	OptM  Msg     `serix:",optional"`
	End   uint16  `serix:""`
}

type Shapes []Shape     // lenPrefix uint8; max 3; must contain a Circle; no dups, lexical order, at most one of each type
type SortedU16 []uint16 // lenPrefix uint8; sorted by the encoder (lexical ordering + no duplicates)
type UniqueNames []Name // lenPrefix uint16; no duplicates (map based validator)

type Coll struct {
	Nums   []uint32    `serix:",lenPrefix=uint16,maxLen=5"`
	Shapes Shapes      `serix:""`
	Sorted SortedU16   `serix:""`
	Names  []Name      `serix:",lenPrefix=uint32,minLen=1,maxLen=4"`
	Uniq   UniqueNames `serix:""`
	Ptrs   []*Rect     `serix:",lenPrefix=uint8"`
	Msgs   []Msg       `serix:",lenPrefix=uint8,maxLen=3"`
	Blobs  []Blob      `serix:",lenPrefix=uint8"`
	Flags  []bool      `serix:",lenPrefix=uint32"`
}

type Dict map[Name]Name // lenPrefix uint16

type Maps struct {
	M8  map[uint16]uint32 `serix:",lenPrefix=uint8,maxLen=4"`
	M16 Dict              `serix:""`
	M32 map[[2]byte]bool  `serix:",lenPrefix=uint32,minLen=1"`
	MS  map[Name]Rect     `serix:",lenPrefix=uint8"`
	MM  map[uint8]Dict    `serix:",lenPrefix=uint8,maxLen=2"`
}

// JMaps only uses key types that the JSON form can express (string-valued keys).
type JMaps struct {
	M16 Dict              `serix:""`
	M64 map[uint64]uint32 `serix:",lenPrefix=uint8"`
	MB  map[[2]byte]bool  `serix:",lenPrefix=uint32"`
	MS  map[Name]Rect     `serix:",lenPrefix=uint8"`
}

type Ident struct {
	ID  ID4  `serix:""`
	PID *ID4 `serix:",optional"`
}

// Mixed combines two configuration shapes: a slice type and a map type registered from ONE base TypeSettings (they
// share one *ArrayRules), and a string type whose registered length prefix (uint16) is overridden by a field tag.
type SharedSlice []uint16
type SharedMap map[uint16]uint16
type PName string

type Mixed struct {
	S SharedSlice `serix:""`
	M SharedMap   `serix:""`
	P PName       `serix:",lenPrefix=uint8"`
	Q PName       `serix:""`
}

// JDeep: maps whose elements are themselves collections or structs with collections (state must not leak between the
// entries when the JSON form is decoded), and an omitempty pointer whose pointee may be all zero.
type U16s []uint16

type JDeep struct {
	MSl  map[Name]U16s `serix:",lenPrefix=uint8"`
	MMp  map[Name]Dict `serix:",lenPrefix=uint8"`
	MSt  map[Name]Poly `serix:",lenPrefix=uint8"`
	OptZ *Rect         `serix:",omitempty"`
	Tg   Tag3          `serix:""`
}

// Tag3: a string whose minimum length (3 bytes) is above one, so that a value of multi-byte characters can meet the
// bound in bytes with fewer characters than that.
type Tag3 string

type Trio struct {
	Arr [3]uint16 `serix:",lenPrefix=uint8"`
}

// Custom serialises itself: 0xC5, A big-endian (deliberately not the serix layout), len(B) as one
// byte, B. serix prepends the registered uint8 type code.
type Custom struct {
	A uint16
	B []byte
}

func (c Custom) Encode() ([]byte, error) {
	if len(c.B) > 255 {
		return nil, fmt.Errorf("custom: B too long")
	}
	out := []byte{0xC5, byte(c.A >> 8), byte(c.A), byte(len(c.B))}
	return append(out, c.B...), nil
}

func (c *Custom) Decode(b []byte) (int, error) {
	if len(b) < 4 {
		return 0, fmt.Errorf("custom: short")
	}
	if b[0] != 0xC5 {
		return 0, fmt.Errorf("custom: bad magic")
	}
	n := int(b[3])
	if len(b) < 4+n {
		return 0, fmt.Errorf("custom: short body")
	}
	c.A = uint16(b[1])<<8 | uint16(b[2])
	c.B = append([]byte{}, b[4:4+n]...)
	return 4 + n, nil
}

type Cust struct {
	Pre uint8    `serix:""`
	C   Custom   `serix:""`
	PC  *Custom  `serix:",optional"`
	Cs  []Custom `serix:",lenPrefix=uint8,maxLen=3"`
}

type Root struct {
	L Leaf   `serix:""`
	W Wrap   `serix:""`
	C Coll   `serix:""`
	M Maps   `serix:""`
	S *Stamp `serix:",optional"`
	K Cust   `serix:""`
}

// ---------------------------------------------------------------------------------------------
// schema

type kind int

const (
	kBool kind = iota
	kUint
	kInt
	kFloat
	kString
	kBytes
	kByteArray
	kU256
	kTime
	kStruct
	kSlice
	kArray
	kMap
	kIface
	kPtr
	kCustom
)

var kindNames = [...]string{"bool", "uint", "int", "float", "string", "bytes", "bytearray", "u256", "time", "struct", "slice", "array", "map", "iface", "ptr", "custom"}

func (k kind) String() string { return kindNames[k] }

type field struct {
	name     string // Go field name
	key      string // JSON key
	n        *node
	optional bool
	flatten  bool // embedded, not inlined: fields are written in place, no type code
	inlined  bool // embedded, inlined: nested object in binary, keys merged into the parent in JSON
}

type node struct {
	kind      kind
	name      string
	bits      int // numbers
	prefix    int // width of the length prefix in bytes (1, 2, 4)
	min, max  int
	n         int // array length
	elem, key *node
	fields    []field
	code      int64 // type code, -1 = none
	codeW     int   // 1 or 4
	impls     []*node
	rt        reflect.Type // struct type of interface implementations
	// array rules
	autosort  bool
	lexical   bool
	nodup     bool
	oneOfEach bool
	must      []int // impl indexes that must occur
}

func num(k kind, bits int) *node {
	return &node{kind: k, bits: bits, code: -1, name: fmt.Sprintf("%s%d", k, bits)}
}

var (
	nBool = &node{kind: kBool, code: -1, name: "bool"}
	nU8   = num(kUint, 8)
	nU16  = num(kUint, 16)
	nU32  = num(kUint, 32)
	nU64  = num(kUint, 64)
	nI8   = num(kInt, 8)
	nI16  = num(kInt, 16)
	nI32  = num(kInt, 32)
	nI64  = num(kInt, 64)
	nF32  = num(kFloat, 32)
	nF64  = num(kFloat, 64)
	nU256 = &node{kind: kU256, code: -1, name: "u256"}
	nTime = &node{kind: kTime, code: -1, name: "time"}
)

func str(prefix, min, max int) *node {
	return &node{kind: kString, prefix: prefix, min: min, max: max, code: -1, name: "string"}
}
func byt(prefix, min, max int) *node {
	return &node{kind: kBytes, prefix: prefix, min: min, max: max, code: -1, name: "bytes"}
}
func barr(n int) *node { return &node{kind: kByteArray, n: n, code: -1, name: "bytearray"} }
func sl(elem *node, prefix, min, max int) *node {
	return &node{kind: kSlice, elem: elem, prefix: prefix, min: min, max: max, code: -1, name: "slice"}
}
func mp(key, elem *node, prefix, min, max int) *node {
	return &node{kind: kMap, key: key, elem: elem, prefix: prefix, min: min, max: max, code: -1, name: "map"}
}
func ptr(elem *node) *node { return &node{kind: kPtr, elem: elem, code: -1, name: "ptr"} }
func st(name string, code int64, codeW int, fields ...field) *node {
	return &node{kind: kStruct, name: name, code: code, codeW: codeW, fields: fields}
}
func f(name string, n *node) field { return field{name: name, key: serix.FieldKeyString(name), n: n} }
func opt(name string, n *node) field {
	return field{name: name, key: serix.FieldKeyString(name), n: n, optional: true}
}

var (
	nName = str(1, 1, 8)
	nBlob = byt(2, 0, 0)
	nID4  = &node{kind: kByteArray, n: 4, code: 9, codeW: 1, name: "bytearray-typed"}

	nLeaf = st("Leaf", -1, 0, f("B", nBool), f("U8", nU8), f("U16", nU16), f("U32", nU32), f("U64", nU64),
		f("I8", nI8), f("I16", nI16), f("I32", nI32), f("I64", nI64), f("F32", nF32), f("F64", nF64))

	nText = st("Text", -1, 0, f("S8", str(1, 0, 0)), f("S16", str(2, 1, 12)), f("S32", str(4, 0, 0)),
		f("B8", byt(1, 0, 10)), f("B16", byt(2, 0, 0)), f("A3", barr(3)), f("H32", barr(32)),
		f("N", nName), f("BL", nBlob))

	nBlob32 = st("Blob32", -1, 0, f("B32", byt(4, 1, 0)), f("Z", nU16))

	nStamp = st("Stamp", -1, 0, f("N", nU256), f("T", nTime), f("When", sl(nTime, 1, 0, 3)), f("Amts", sl(nU256, 2, 0, 0)))

	nCircle = st("Circle", 1, 1, f("R", nU16))
	nRect   = st("Rect", 2, 1, f("W", nU8), f("H", nU8))
	nPoly   = st("Poly", 3, 1, f("Pts", sl(nU16, 1, 0, 4)), f("Label", nName))
	nShape  = &node{kind: kIface, name: "Shape", code: -1, codeW: 1, impls: []*node{nCircle, nRect, nPoly}}

	nPing = st("Ping", 1, 4, f("Seq", nU32))
	nData = st("Data", 0xA0B0C0D0, 4, f("Body", nBlob), f("Crc", nU32))
	nMsg  = &node{kind: kIface, name: "Msg", code: -1, codeW: 4, impls: []*node{nPing, nData}}

	nInner = st("Inner", -1, 0, f("A", nU16), f("Tag", nName))
	nTail  = st("Tail", -1, 0, f("Z", nU8), f("ZZ", nBool))

	nWrap = st("Wrap", 0x11, 1,
		field{name: "Inner", n: nInner, flatten: true},
		field{name: "Tail", n: nTail, inlined: true},
		opt("Opt", ptr(nCircle)), opt("OptI", nShape), f("Must", ptr(nRect)), opt("OptM", nMsg), f("End", nU16))

	nShapes = &node{kind: kSlice, name: "Shapes", elem: nShape, prefix: 1, min: 0, max: 3, code: -1,
		lexical: true, nodup: true, oneOfEach: true, must: []int{0}}
	nSorted = &node{kind: kSlice, name: "SortedU16", elem: nU16, prefix: 1, code: -1, max: 0, autosort: true, lexical: true, nodup: true}
	nUniq   = &node{kind: kSlice, name: "UniqueNames", elem: nName, prefix: 2, code: -1, nodup: true}

	nColl = st("Coll", -1, 0, f("Nums", sl(nU32, 2, 0, 5)), f("Shapes", nShapes), f("Sorted", nSorted),
		f("Names", sl(nName, 4, 1, 4)), f("Uniq", nUniq), f("Ptrs", sl(ptr(nRect), 1, 0, 0)), f("Msgs", sl(nMsg, 1, 0, 3)),
		f("Blobs", sl(nBlob, 1, 0, 0)), f("Flags", sl(nBool, 4, 0, 0)))

	nDict = &node{kind: kMap, name: "Dict", key: nName, elem: nName, prefix: 2, code: -1}
	nMaps = st("Maps", -1, 0, f("M8", mp(nU16, nU32, 1, 0, 4)), f("M16", nDict), f("M32", mp(barr(2), nBool, 4, 1, 0)),
		f("MS", mp(nName, nRect, 1, 0, 0)), f("MM", mp(nU8, nDict, 1, 0, 2)))
	nJMaps = st("JMaps", 0x21, 1, f("M16", nDict), f("M64", mp(nU64, nU32, 1, 0, 0)), f("MB", mp(barr(2), nBool, 4, 0, 0)),
		f("MS", mp(nName, nRect, 1, 0, 0)))

	nIdent = st("Ident", -1, 0, f("ID", nID4), opt("PID", ptr(nID4)))
	nMixed = st("Mixed", -1, 0, f("S", sl(nU16, 1, 0, 4)), f("M", mp(nU16, nU16, 1, 0, 4)), f("P", str(1, 0, 0)), f("Q", str(2, 0, 0)))
	nJDeep = st("JDeep", -1, 0, f("MSl", mp(nName, sl(nU16, 1, 0, 0), 1, 0, 0)), f("MMp", mp(nName, nDict, 1, 0, 0)),
		f("MSt", mp(nName, nPoly, 1, 0, 0)), f("OptZ", ptr(nRect)), f("Tg", str(1, 3, 9)))
	nTrio = st("Trio", -1, 0, f("Arr", &node{kind: kArray, name: "array", n: 3, elem: nU16, prefix: 1, code: -1}))

	nCustom = &node{kind: kCustom, name: "Custom", code: 0x33, codeW: 1}
	nCust   = st("Cust", -1, 0, f("Pre", nU8), f("C", nCustom), opt("PC", ptr(nCustom)), f("Cs", sl(nCustom, 1, 0, 3)))

	nRoot = st("Root", 0x7F, 1, f("L", nLeaf), f("W", nWrap), f("C", nColl), f("M", nMaps), opt("S", ptr(nStamp)), f("K", nCust))
)

func init() {
	nCircle.rt, nRect.rt, nPoly.rt = reflect.TypeOf(Circle{}), reflect.TypeOf(Rect{}), reflect.TypeOf(Poly{})
	nPing.rt, nData.rt = reflect.TypeOf(Ping{}), reflect.TypeOf(Data{})
}

// entry is one top-level zoo type.
type entry struct {
	name string
	n    *node
	rt   reflect.Type
	json bool // the JSON/map form can express every generated value of this type
	// decodeBroken marks a type for which Decode of a *valid* encoding does not return (known defect
	// under its own signature); such types are kept out of the fault legs so that they do not flood them.
	decodeBroken bool
	// allocProne: contains a 4-byte length prefix the decoder allocates from; only used as a top-level
	// fault target (never as a nested payload, never with byte-shifting faults), see faults.go dangerous().
	allocProne bool
}

var zoo = []*entry{
	{name: "leaf", n: nLeaf, rt: reflect.TypeOf(Leaf{}), json: true},
	{name: "text", n: nText, rt: reflect.TypeOf(Text{}), json: true},
	{name: "blob32", n: nBlob32, rt: reflect.TypeOf(Blob32{}), json: true, allocProne: true},
	{name: "stamp", n: nStamp, rt: reflect.TypeOf(Stamp{}), json: true},
	{name: "wrap", n: nWrap, rt: reflect.TypeOf(Wrap{}), json: true},
	{name: "coll", n: nColl, rt: reflect.TypeOf(Coll{}), json: true},
	{name: "maps", n: nMaps, rt: reflect.TypeOf(Maps{})},
	{name: "jmaps", n: nJMaps, rt: reflect.TypeOf(JMaps{}), json: true},
	{name: "ident", n: nIdent, rt: reflect.TypeOf(Ident{})},
	{name: "cust", n: nCust, rt: reflect.TypeOf(Cust{})},
	{name: "shapes", n: nShapes, rt: reflect.TypeOf(Shapes{}), json: false},
	{name: "dict", n: nDict, rt: reflect.TypeOf(Dict{}), json: false},
	{name: "root", n: nRoot, rt: reflect.TypeOf(Root{})},
	{name: "trio", n: nTrio, rt: reflect.TypeOf(Trio{}), json: true},
	{name: "mixed", n: nMixed, rt: reflect.TypeOf(Mixed{})},
	{name: "jdeep", n: nJDeep, rt: reflect.TypeOf(JDeep{}), json: true},
}

func entryByName(name string) *entry {
	for _, e := range zoo {
		if e.name == name {
			return e
		}
	}
	return nil
}

// ---------------------------------------------------------------------------------------------
// API registration

var (
	api = newAPI()
	ctx = context.Background()
)

func must(err error) {
	if err != nil {
		panic(err)
	}
}

func newAPI() *serix.API {
	a := serix.NewAPI()
	ts := serix.TypeSettings{}
	must(a.RegisterTypeSettings(Name(""), ts.WithLengthPrefixType(serix.LengthPrefixTypeAsByte).WithMinLen(1).WithMaxLen(8)))
	must(a.RegisterTypeSettings(Blob{}, ts.WithLengthPrefixType(serix.LengthPrefixTypeAsUint16)))
	must(a.RegisterTypeSettings(ID4{}, ts.WithObjectType(uint8(9))))
	must(a.RegisterTypeSettings(Circle{}, ts.WithObjectType(uint8(1))))
	must(a.RegisterTypeSettings(Rect{}, ts.WithObjectType(uint8(2))))
	must(a.RegisterTypeSettings(Poly{}, ts.WithObjectType(uint8(3))))
	must(a.RegisterInterfaceObjects((*Shape)(nil), (*Circle)(nil), (*Rect)(nil), (*Poly)(nil)))
	must(a.RegisterTypeSettings(Ping{}, ts.WithObjectType(uint32(1))))
	must(a.RegisterTypeSettings(Data{}, ts.WithObjectType(uint32(0xA0B0C0D0))))
	must(a.RegisterInterfaceObjects((*Msg)(nil), (*Ping)(nil), (*Data)(nil)))
	must(a.RegisterTypeSettings(Wrap{}, ts.WithObjectType(uint8(0x11))))
	must(a.RegisterTypeSettings(Shapes{}, ts.WithLengthPrefixType(serix.LengthPrefixTypeAsByte).WithArrayRules(&serix.ArrayRules{
		Max:       3,
		MustOccur: serializer.TypePrefixes{1: struct{}{}},
		ValidationMode: serializer.ArrayValidationModeNoDuplicates | serializer.ArrayValidationModeLexicalOrdering |
			serializer.ArrayValidationModeAtMostOneOfEachTypeByte,
	})))
	must(a.RegisterTypeSettings(SortedU16{}, ts.WithLengthPrefixType(serix.LengthPrefixTypeAsByte).WithLexicalOrdering(true).WithArrayRules(&serix.ArrayRules{
		ValidationMode: serializer.ArrayValidationModeNoDuplicates | serializer.ArrayValidationModeLexicalOrdering,
	})))
	must(a.RegisterTypeSettings(UniqueNames{}, ts.WithLengthPrefixType(serix.LengthPrefixTypeAsUint16).WithArrayRules(&serix.ArrayRules{
		ValidationMode: serializer.ArrayValidationModeNoDuplicates,
	})))
	// (an explicit "no lexical ordering" on a map type: maps are encoded in byte-lexical key order whatever the setting says)
	must(a.RegisterTypeSettings(Dict{}, ts.WithLengthPrefixType(serix.LengthPrefixTypeAsUint16).WithLexicalOrdering(false)))
	must(a.RegisterTypeSettings(U16s{}, ts.WithLengthPrefixType(serix.LengthPrefixTypeAsByte)))
	sharedBase := ts.WithLengthPrefixType(serix.LengthPrefixTypeAsByte).WithMaxLen(4)
	must(a.RegisterTypeSettings(SharedSlice{}, sharedBase))
	must(a.RegisterTypeSettings(SharedMap{}, sharedBase))
	must(a.RegisterTypeSettings(PName(""), ts.WithLengthPrefixType(serix.LengthPrefixTypeAsUint16)))
	must(a.RegisterTypeSettings(Tag3(""), ts.WithLengthPrefixType(serix.LengthPrefixTypeAsByte).WithMinLen(3).WithMaxLen(9)))
	must(a.RegisterTypeSettings(JMaps{}, ts.WithObjectType(uint8(0x21))))
	must(a.RegisterTypeSettings(Custom{}, ts.WithObjectType(uint8(0x33))))
	must(a.RegisterTypeSettings(Root{}, ts.WithObjectType(uint8(0x7F))))
	registerOddTypes(a)
	must(a.RegisterTypeSettings(Chips{}, ts.WithLengthPrefixType(serix.LengthPrefixTypeAsByte)))
	must(a.RegisterTypeSettings(CellMap{}, ts.WithLengthPrefixType(serix.LengthPrefixTypeAsByte)))
	return a
}

// ---------------------------------------------------------------------------------------------
// neutral values

type val struct {
	u    uint64 // numbers (bit pattern, sign-extended for ints), bool, time in ns
	b    []byte // strings, bytes, byte arrays, u256 (32 bytes little endian)
	kids []*val // struct fields, elements, map pairs (each pair has kids[0]=key, kids[1]=value), iface: the impl value
	alt  int    // interface: implementation index
	nilp bool   // optional field absent
}

func (v *val) clone() *val {
	c := &val{u: v.u, alt: v.alt, nilp: v.nilp}
	if v.b != nil {
		c.b = append([]byte{}, v.b...)
	}
	for _, k := range v.kids {
		c.kids = append(c.kids, k.clone())
	}
	return c
}

var interesting64 = []uint64{0, 1, 0x7f, 0x80, 0xff, 0x100, 0x7fff, 0x8000, 0xffff, 0x7fffffff, 0x80000000, 0xffffffff,
	0x7fffffffffffffff, 0x8000000000000000, 0xffffffffffffffff}

func genBits(s *simrt.Sim, bits int) uint64 {
	var u uint64
	if s.Choose(3) == 0 {
		u = interesting64[s.Choose(len(interesting64))]
	} else {
		for i := 0; i < bits; i += 16 {
			u |= uint64(s.Choose(1<<16)) << i
		}
	}
	if bits < 64 {
		u &= 1<<bits - 1
	}
	return u
}

var floats = []float64{0, math.Copysign(0, -1), 1.5, -2.25, math.Inf(1), math.Inf(-1), math.NaN(), math.MaxFloat32, math.SmallestNonzeroFloat32, 1e-3, 123456.75}

var alphabet = []string{"a", "b", "z", "A", "0", "_", " ", "é", "ß", "€", " ", "\x00", "\x7f"}

func genStringBytes(s *simrt.Sim, min, max int) []byte {
	lo, hi := min, 6
	if max > 0 && max < hi {
		hi = max
	}
	if hi < lo {
		hi = lo
	}
	var out []byte
	want := lo + s.Choose(hi-lo+1)
	for len(out) < want {
		c := alphabet[s.Choose(len(alphabet))]
		if len(out)+len(c) > hi && len(out) >= lo {
			break
		}
		if len(out)+len(c) > hi {
			c = "x"
		}
		out = append(out, c...)
	}
	return out
}

func genRawBytes(s *simrt.Sim, n int) []byte {
	out := make([]byte, n)
	for i := range out {
		switch s.Choose(4) {
		case 0:
			out[i] = 0
		case 1:
			out[i] = 0xff
		default:
			out[i] = byte(s.Choose(256))
		}
	}
	return out
}

func genLen(s *simrt.Sim, min, max, soft int) int {
	hi := soft
	if max > 0 && max < hi {
		hi = max
	}
	if hi < min {
		hi = min
	}
	return min + s.Choose(hi-min+1)
}

// gen draws a value that Encode with validation accepts (array rules, bounds, uniqueness are
// satisfied by construction; see conform in refenc.go for the ordering/uniqueness fix-up).
func gen(s *simrt.Sim, n *node, depth int) *val {
	v := &val{}
	switch n.kind {
	case kBool:
		v.u = uint64(s.Choose(2))
	case kUint:
		v.u = genBits(s, n.bits)
	case kInt:
		u := genBits(s, n.bits)
		// sign extend
		if n.bits < 64 && u&(1<<(n.bits-1)) != 0 {
			u |= ^uint64(0) << n.bits
		}
		v.u = u
	case kFloat:
		var fl float64
		if s.Choose(2) == 0 {
			fl = floats[s.Choose(len(floats))]
		} else {
			fl = float64(int64(genBits(s, 32))-1<<31) / 64
		}
		if n.bits == 32 {
			v.u = uint64(math.Float32bits(float32(fl)))
		} else {
			v.u = math.Float64bits(fl)
		}
	case kString:
		v.b = genStringBytes(s, n.min, n.max)
	case kBytes:
		v.b = genRawBytes(s, genLen(s, n.min, n.max, 5))
	case kByteArray:
		v.b = genRawBytes(s, n.n)
	case kU256:
		v.b = make([]byte, 32)
		switch s.Choose(4) {
		case 0:
		case 1:
			for i := range v.b {
				v.b[i] = 0xff
			}
		case 2:
			binary.LittleEndian.PutUint64(v.b, genBits(s, 64))
		default:
			copy(v.b, genRawBytes(s, 32))
		}
	case kTime:
		switch s.Choose(5) {
		case 0:
			v.u = 0
		case 1:
			v.u = math.MaxInt64
		case 2:
			v.u = uint64(1_700_000_000_000_000_000) + uint64(s.Choose(1<<16))
		case 3:
			// the last whole second of the int64 nanosecond range and its neighbourhood (saturation boundary)
			lastSecond := uint64(math.MaxInt64/1_000_000_000) * 1_000_000_000
			v.u = lastSecond - 2_000_000_000 + uint64(s.Choose(3))*1_000_000_000 + uint64(s.Choose(4))*250_000_000
			if v.u > math.MaxInt64 {
				v.u = math.MaxInt64
			}
		default:
			v.u = genBits(s, 63)
		}
	case kStruct:
		for _, fd := range n.fields {
			if fd.optional && s.Choose(2) == 0 {
				v.kids = append(v.kids, &val{nilp: true})
				continue
			}
			v.kids = append(v.kids, gen(s, fd.n, depth+1))
		}
	case kPtr:
		return gen(s, n.elem, depth)
	case kIface:
		v.alt = s.Choose(len(n.impls))
		v.kids = []*val{gen(s, n.impls[v.alt], depth+1)}
	case kSlice:
		soft := 3
		if depth > 2 {
			soft = 2
		}
		cnt := genLen(s, n.min, n.max, soft)
		for i := 0; i < cnt; i++ {
			v.kids = append(v.kids, gen(s, n.elem, depth+1))
		}
	case kArray:
		for i := 0; i < n.n; i++ {
			v.kids = append(v.kids, gen(s, n.elem, depth+1))
		}
	case kMap:
		soft := 3
		if depth > 2 {
			soft = 2
		}
		cnt := genLen(s, n.min, n.max, soft)
		for i := 0; i < cnt; i++ {
			v.kids = append(v.kids, &val{kids: []*val{gen(s, n.key, depth+1), gen(s, n.elem, depth+1)}})
		}
	case kCustom:
		v.u = genBits(s, 16)
		v.b = genRawBytes(s, s.Choose(4))
	}
	return v
}

// ---------------------------------------------------------------------------------------------
// building the Go value

func leBigInt(b []byte) *big.Int {
	be := make([]byte, len(b))
	for i := range b {
		be[len(b)-1-i] = b[i]
	}
	return new(big.Int).SetBytes(be)
}

func build(n *node, v *val, dst reflect.Value) {
	switch n.kind {
	case kBool:
		dst.SetBool(v.u != 0)
	case kUint:
		dst.SetUint(v.u)
	case kInt:
		dst.SetInt(int64(v.u))
	case kFloat:
		if n.bits == 32 {
			dst.SetFloat(float64(math.Float32frombits(uint32(v.u))))
		} else {
			dst.SetFloat(math.Float64frombits(v.u))
		}
	case kString:
		dst.SetString(string(v.b))
	case kBytes:
		dst.SetBytes(append([]byte{}, v.b...))
	case kByteArray:
		reflect.Copy(dst, reflect.ValueOf(v.b))
	case kU256:
		dst.Set(reflect.ValueOf(leBigInt(v.b)))
	case kTime:
		dst.Set(reflect.ValueOf(time.Unix(0, int64(v.u)).UTC()))
	case kStruct:
		for i, fd := range n.fields {
			if v.kids[i].nilp {
				continue
			}
			build(fd.n, v.kids[i], dst.FieldByName(fd.name))
		}
	case kPtr:
		p := reflect.New(dst.Type().Elem())
		build(n.elem, v, p.Elem())
		dst.Set(p)
	case kIface:
		impl := n.impls[v.alt]
		p := reflect.New(impl.rt)
		build(impl, v.kids[0], p.Elem())
		dst.Set(p)
	case kSlice:
		sv := reflect.MakeSlice(dst.Type(), len(v.kids), len(v.kids))
		for i, k := range v.kids {
			build(n.elem, k, sv.Index(i))
		}
		dst.Set(sv)
	case kArray:
		for i, k := range v.kids {
			build(n.elem, k, dst.Index(i))
		}
	case kMap:
		m := reflect.MakeMap(dst.Type())
		for _, p := range v.kids {
			k := reflect.New(dst.Type().Key()).Elem()
			e := reflect.New(dst.Type().Elem()).Elem()
			build(n.key, p.kids[0], k)
			build(n.elem, p.kids[1], e)
			m.SetMapIndex(k, e)
		}
		dst.Set(m)
	case kCustom:
		dst.Set(reflect.ValueOf(Custom{A: uint16(v.u), B: append([]byte{}, v.b...)}))
	}
}

// goValue returns a pointer to a freshly built Go value of the entry's type.
func (e *entry) goValue(v *val) reflect.Value {
	p := reflect.New(e.rt)
	build(e.n, v, p.Elem())
	return p
}

// ---------------------------------------------------------------------------------------------
// canonicalising comparison: nil and empty slices/maps are equal, floats compare by bit pattern (all
// NaNs equal), big.Int by value, time.Time by instant; everything else structurally.

func same(a, b reflect.Value, path string) string {
	if a.IsValid() != b.IsValid() {
		return path + ": one side invalid"
	}
	if !a.IsValid() {
		return ""
	}
	if a.Type() != b.Type() {
		return fmt.Sprintf("%s: type %s vs %s", path, a.Type(), b.Type())
	}
	switch x := a.Interface().(type) {
	case *big.Int:
		y := b.Interface().(*big.Int)
		if (x == nil) != (y == nil) || (x != nil && x.Cmp(y) != 0) {
			return fmt.Sprintf("%s: big.Int %v vs %v", path, x, y)
		}
		return ""
	case time.Time:
		y := b.Interface().(time.Time)
		if !x.Equal(y) {
			return fmt.Sprintf("%s: time %v vs %v", path, x.UnixNano(), y.UnixNano())
		}
		return ""
	}
	switch a.Kind() {
	case reflect.Float32, reflect.Float64:
		x, y := a.Float(), b.Float()
		if math.IsNaN(x) && math.IsNaN(y) {
			return ""
		}
		if math.Float64bits(x) != math.Float64bits(y) {
			return fmt.Sprintf("%s: float %v vs %v", path, x, y)
		}
	case reflect.Pointer, reflect.Interface:
		if a.IsNil() != b.IsNil() {
			return fmt.Sprintf("%s: nil %v vs %v", path, a.IsNil(), b.IsNil())
		}
		if a.IsNil() {
			return ""
		}
		return same(a.Elem(), b.Elem(), path)
	case reflect.Struct:
		for i := 0; i < a.NumField(); i++ {
			if d := same(a.Field(i), b.Field(i), path+"."+a.Type().Field(i).Name); d != "" {
				return d
			}
		}
	case reflect.Slice, reflect.Array:
		if a.Len() != b.Len() {
			return fmt.Sprintf("%s: len %d vs %d", path, a.Len(), b.Len())
		}
		for i := 0; i < a.Len(); i++ {
			if d := same(a.Index(i), b.Index(i), fmt.Sprintf("%s[%d]", path, i)); d != "" {
				return d
			}
		}
	case reflect.Map:
		if a.Len() != b.Len() {
			return fmt.Sprintf("%s: map len %d vs %d", path, a.Len(), b.Len())
		}
		keys := a.MapKeys()
		sort.Slice(keys, func(i, j int) bool { return fmt.Sprint(keys[i].Interface()) < fmt.Sprint(keys[j].Interface()) })
		for _, k := range keys {
			bv := b.MapIndex(k)
			if !bv.IsValid() {
				return fmt.Sprintf("%s: key %v missing", path, k.Interface())
			}
			if d := same(a.MapIndex(k), bv, fmt.Sprintf("%s[%v]", path, k.Interface())); d != "" {
				return d
			}
		}
	default:
		if !reflect.DeepEqual(a.Interface(), b.Interface()) {
			return fmt.Sprintf("%s: %v vs %v", path, a.Interface(), b.Interface())
		}
	}
	return ""
}

// hasOutOfRangeTime reports whether v contains a time.Time that came from a stamp above MaxInt64 ns
// (decoded either saturated to MaxInt64 or, for stamps in (MaxInt64, saturation threshold], as a date
// before the epoch): the statement of C03 excludes those.
func hasOutOfRangeTime(v reflect.Value) bool {
	if !v.IsValid() {
		return false
	}
	if v.Type() == reflect.TypeOf(time.Time{}) {
		t := v.Interface().(time.Time)
		ns := t.UnixNano()
		return t.Unix() < 0 || ns < 0 || ns == math.MaxInt64 || t.Unix() > serializer.MaxNanoTimestampInt64Seconds
	}
	switch v.Kind() {
	case reflect.Pointer, reflect.Interface:
		if v.IsNil() || v.Type() == reflect.TypeOf((*big.Int)(nil)) {
			return false
		}
		return hasOutOfRangeTime(v.Elem())
	case reflect.Struct:
		for i := 0; i < v.NumField(); i++ {
			if hasOutOfRangeTime(v.Field(i)) {
				return true
			}
		}
	case reflect.Slice, reflect.Array:
		if v.Type().Elem().Kind() == reflect.Uint8 {
			return false
		}
		for i := 0; i < v.Len(); i++ {
			if hasOutOfRangeTime(v.Index(i)) {
				return true
			}
		}
	case reflect.Map:
		it := v.MapRange()
		for it.Next() {
			if hasOutOfRangeTime(it.Key()) || hasOutOfRangeTime(it.Value()) {
				return true
			}
		}
	}
	return false
}

// ---------------------------------------------------------------------------------------------
// Self-serialising types without a type code that hand out memory they keep using: Chip writes into one scratch buffer
// shared by all Chips and returns it; Cell is a window into a frame that several Cells share, and the slice it returns
// has the rest of the frame as spare capacity. Whoever calls Encode() on them has to be done with (or have copied)
// the bytes before it calls the next Encode() or appends to them.

var chipScratch = make([]byte, 0, 8)

type Chip struct{ A, B byte }

func (c Chip) Encode() ([]byte, error) {
	chipScratch = append(chipScratch[:0], 0xC1, c.A, c.B)
	return chipScratch, nil
}

func (c *Chip) Decode(b []byte) (int, error) {
	if len(b) < 3 || b[0] != 0xC1 {
		return 0, fmt.Errorf("chip: short or bad magic")
	}
	c.A, c.B = b[1], b[2]
	return 3, nil
}

type Chips []Chip // lenPrefix uint8

type Cell struct {
	Frame *[12]byte
	Off   int // 0, 3, 6, 9
}

func (c Cell) Encode() ([]byte, error) { return c.Frame[c.Off : c.Off+3], nil }

func (c *Cell) Decode(b []byte) (int, error) {
	if len(b) < 3 {
		return 0, fmt.Errorf("cell: short")
	}
	c.Frame = new([12]byte)
	copy(c.Frame[:], b[:3])
	c.Off = 0
	return 3, nil
}

type CellMap map[Cell]uint16 // lenPrefix uint8

// ---------------------------------------------------------------------------------------------
// Odd but legal registrations, outside the modelled zoo (used by the `oddtypes` legs, which judge them by hand-made
// images): a struct whose fields are all optional as a slice element; a slice of a named one-byte type that carries
// ordering and uniqueness rules; a slice that asks for lexical ordering without the matching array rule; pointers to a
// struct that has a syntactic validator, alone and as elements of a slice with a must-occur rule.

type OptOnly struct {
	A *uint8  `serix:",optional"`
	B *uint16 `serix:",optional"`
}
type OptOnlys []OptOnly // lenPrefix uint32

type Flag uint8
type Flags []Flag // lenPrefix uint8; no duplicates, lexical order (validated, and imposed by the encoder)

type Pair struct {
	A uint8 `serix:""`
	B uint8 `serix:""`
}
type LexPairs []Pair // lenPrefix uint8; WithLexicalOrdering(true), no lexical array rule

type VInner struct {
	V uint8 `serix:"v"`
}
type VInnerPtrs []*VInner // lenPrefix uint8; must-occur: type 5
type Boxed struct {
	P    *VInner    `serix:"p,optional"`
	Ptrs VInnerPtrs `serix:"ptrs"`
}

func registerOddTypes(a *serix.API) {
	ts := serix.TypeSettings{}
	must(a.RegisterTypeSettings(OptOnlys{}, ts.WithLengthPrefixType(serix.LengthPrefixTypeAsUint32)))
	must(a.RegisterTypeSettings(Flags{}, ts.WithLengthPrefixType(serix.LengthPrefixTypeAsByte).WithLexicalOrdering(true).WithArrayRules(&serix.ArrayRules{
		ValidationMode: serializer.ArrayValidationModeNoDuplicates | serializer.ArrayValidationModeLexicalOrdering,
	})))
	must(a.RegisterTypeSettings(LexPairs{}, ts.WithLengthPrefixType(serix.LengthPrefixTypeAsByte).WithLexicalOrdering(true)))
	must(a.RegisterTypeSettings(VInner{}, ts.WithObjectType(uint8(5))))
	must(a.RegisterTypeSettings(VInnerPtrs{}, ts.WithLengthPrefixType(serix.LengthPrefixTypeAsByte).WithArrayRules(&serix.ArrayRules{
		MustOccur: serializer.TypePrefixes{5: struct{}{}},
	})))
	must(a.RegisterValidator(VInner{}, func(_ context.Context, in VInner) error {
		if in.V > 200 {
			return fmt.Errorf("inner: V too large")
		}
		return nil
	}))
}
