package codec

import (
	"bytes"
	"encoding/json"
	"reflect"
	"sort"
	"testing"

	"github.com/iotaledger/hive.go/ds/serializableorderedmap"

	"verifharness/hx"
	"verifsim/simrt"
)

// Codec calls are sequential and pure apart from the registry locks of the serix API (simulated
// RWMutexes: every Lock/Unlock is a step), so the step cap is raised; most calls run inside s.Atomic.
var cfg = simrt.Config{MaxSteps: 1 << 40}

func TestSim(t *testing.T) {
	simrt.Main(t,
		// C01
		&simrt.Harness{Name: "stream", Body: streamBody, Cfg: cfg, Trivial: never},
		&simrt.Harness{Name: "maporder", Body: maporderBody, Cfg: cfg, Trivial: never},
		// C02 (one target family per configuration token)
		&simrt.Harness{Name: "faultdecode", Body: faultdecodeBody, Cfg: cfg, Trivial: never},
		// C03
		&simrt.Harness{Name: "reencode", Body: reencodeBody, Cfg: cfg, Trivial: never},
		&simrt.Harness{Name: "refenc", Body: refencBody, Cfg: cfg, Trivial: never},
	)
}

func never(*simrt.Result) bool { return false }

func faultdecodeBody(s *simrt.Sim) {
	switch {
	case simrt.ConfigHas("stream"):
		faultStreamBody(s)
	case simrt.ConfigHas("deser"):
		faultDeserBody(s)
	case simrt.ConfigHas("json"):
		faultJSONBody(s)
	case simrt.ConfigHas("somap"):
		faultSOMapBody(s)
	default:
		faultSerixBody(s)
	}
}

// ---------------------------------------------------------------------------------------------
// C01 (b): same bytes regardless of map iteration order. The rewritten serix iterates Go maps through
// the simulator (simrt.ReflectMapRange / MapKeys: the order is a recorded decision), so the two Encode
// calls of one run see different iteration orders. The decode round trip and the JSON form run as
// workload with their own signatures.

func maporderBody(s *simrt.Sim) {
	switch s.Choose(16) {
	case 14, 15:
		somapRoundtrip(s)
		return
	case 13:
		oversize(s, false)
		return
	case 12:
		if unvalidated(s) {
			return
		}
	case 11:
		views(s)
		return
	}
	// entries with maps are preferred
	var e *entry
	if s.Choose(4) > 0 {
		e = entryByName([]string{"maps", "jmaps", "dict", "root"}[s.Choose(4)])
	} else {
		e = zoo[s.Choose(len(zoo))]
	}
	orig, want, ref := genCase(s, e)
	validate := s.Choose(2) == 1
	s.Logf("type=%s validate=%v ref(%d)=%x", e.name, validate, len(ref.b), clip(ref.b))
	enc := func() []byte {
		var b []byte
		var err error
		if panicked, pv := hx.Try(func() { b, err = encodeReal(s, orig, validate) }); panicked {
			s.Fail("serix-roundtrip", "panic:Encode:"+e.name+":"+panicClass(pv), "Encode of a generated %s value panicked: %v", e.name, pv)
		}
		if err != nil {
			s.Fail("encode-accepts", "Encode:"+e.name, "Encode(validate=%v) rejected a generated %s value: %v", validate, e.name, err)
		}
		return b
	}
	b1 := enc()
	b2 := enc()
	s.Logf("encoded twice: %d bytes", len(b1))
	if !bytes.Equal(b1, b2) {
		s.Fail("encode-deterministic", "Encode:map-order", "two Encode calls on the same %s value (different map iteration orders) gave different bytes\n1: %x\n2: %x", e.name, clip(b1), clip(b2))
	}
	// workload: decode round trip
	if !e.decodeBroken || s.Choose(4) == 0 {
		dst := reflect.New(e.rt)
		var n int
		var err error
		keep := append([]byte{}, b1...)
		if panicked, pv := hx.Try(func() { s.Atomic(func() { n, err = api.Decode(ctx, b1, dst.Interface(), valOpts(validate)...) }) }); panicked {
			s.Fail("serix-roundtrip", "panic:Decode:"+e.name+":"+panicClass(pv), "Decode(validate=%v) of a valid %s encoding panicked: %v\nencoding: %x", validate, e.name, pv, clip(b1))
		}
		if err != nil || n != len(b1) {
			s.Fail("serix-roundtrip", "Decode:"+e.name, "Decode(validate=%v) of a valid %s encoding returned n=%d (len %d) err=%v", validate, e.name, n, len(b1), err)
		}
		if d := same(want.Elem(), dst.Elem(), e.name); d != "" {
			s.Fail("serix-roundtrip", "value:"+e.name, "decoded %s value differs from the encoded one: %s", e.name, d)
		}
		if bytes.Equal(keep, b1) {
			// the caller re-uses its read buffer for the next message: the decoded value is the caller's and stays what it is
			for i := range b1 {
				b1[i] ^= 0xFF
			}
			if d := same(want.Elem(), dst.Elem(), e.name); d != "" {
				s.Fail("serix-roundtrip", "value-changes-when-the-input-buffer-is-reused:"+e.name, "the decoded %s value equalled the encoded one until the caller overwrote the buffer it had handed to Decode: %s", e.name, d)
			}
			copy(b1, keep)
		}
		if !bytes.Equal(keep, b1) {
			s.Fail("serix-roundtrip", "Decode-modifies-input:"+e.name, "Decode(validate=%v) of a valid %s encoding changed the bytes it was given (a second Decode of the caller's buffer no longer sees what Encode produced)\nbefore: %x\nafter:  %x", validate, e.name, clip(keep), clip(b1))
		}
	}
	if !e.json {
		return
	}
	// JSON / map form: two MapEncode calls give the same document; JSONDecode restores the value
	jenc := func() []byte {
		var doc []byte
		var err error
		if panicked, pv := hx.Try(func() {
			s.Atomic(func() { doc, err = api.JSONEncode(ctx, orig.Elem().Interface(), valOpts(validate)...) })
		}); panicked {
			s.Fail("json-roundtrip", "panic:JSONEncode:"+e.name+":"+panicClass(pv), "JSONEncode of a generated %s value panicked: %v", e.name, pv)
		}
		if err != nil {
			s.Fail("encode-accepts", "JSONEncode:"+e.name, "JSONEncode(validate=%v) rejected a generated %s value: %v", validate, e.name, err)
		}
		return doc
	}
	j1 := jenc()
	j2 := jenc()
	if !bytes.Equal(j1, j2) {
		if jsonEqual(j1, j2) {
			s.Fail("encode-deterministic", "JSONEncode:map-member-order", "two JSONEncode calls on the same %s value gave different bytes: object members of a Go map are emitted in map iteration order\n1: %s\n2: %s", e.name, clip(j1), clip(j2))
		}
		s.Fail("encode-deterministic", "JSONEncode:content", "two JSONEncode calls on the same %s value gave different documents\n1: %s\n2: %s", e.name, clip(j1), clip(j2))
	}
	dst := reflect.New(e.rt)
	var err error
	if panicked, pv := hx.Try(func() { s.Atomic(func() { err = api.JSONDecode(ctx, j1, dst.Interface(), valOpts(validate)...) }) }); panicked {
		s.Fail("json-roundtrip", "panic:JSONDecode:"+e.name+":"+panicClass(pv), "JSONDecode of the output of JSONEncode panicked: %v\n%s", pv, clip(j1))
	}
	if err != nil {
		s.Fail("json-roundtrip", "JSONDecode:"+e.name, "JSONDecode(validate=%v) rejected the output of JSONEncode: %v\n%s", validate, err, clip(j1))
	}
	// the JSON form imposes no ordering on slices: compare with the original value
	if d := same(orig.Elem(), dst.Elem(), e.name); d != "" {
		s.Fail("json-roundtrip", "value:"+e.name, "JSON-decoded %s value differs: %s\n%s", e.name, d, clip(j1))
	}
}

// unvalidated: a value that breaks one length bound of its type settings. "Every value that Encode accepts (with or
// without validation)": what the non-validating Encode accepts, the non-validating Decode reads back. Returns false
// if the drawn type has no bound to break.
func unvalidated(s *simrt.Sim) bool {
	e := zoo[s.Choose(len(zoo))]
	if e.decodeBroken {
		return false
	}
	v := gen(s, e.n, 0)
	conform(e.n, v)
	what := violate(s, e.n, v)
	if what == "" {
		return false
	}
	orig := e.goValue(v)
	refEncode(e.n, v) // canonical order of the auto-sorted parts
	want := e.goValue(v)
	var b []byte
	var err error
	if panicked, pv := hx.Try(func() { b, err = encodeReal(s, orig, false) }); panicked {
		s.Fail("serix-roundtrip", "panic:Encode:"+e.name+":"+panicClass(pv), "Encode without validation of a %s value with %s panicked: %v", e.name, what, pv)
	}
	if err != nil {
		s.Probe("rule-violating-value-rejected-without-validation")
		return true
	}
	s.Fault("rule-violating-value")
	s.Probe("rule-violating-value-accepted-without-validation:" + what)
	s.Logf("type=%s %s encoded without validation: %d bytes %x", e.name, what, len(b), clip(b))
	dst := reflect.New(e.rt)
	var n int
	if panicked, pv := hx.Try(func() { s.Atomic(func() { n, err = api.Decode(ctx, b, dst.Interface()) }) }); panicked {
		s.Fail("serix-roundtrip", "panic:Decode:"+e.name+":"+panicClass(pv), "Decode without validation panicked on what Encode without validation produced for a %s value with %s: %v\nencoding: %x", e.name, what, pv, clip(b))
	}
	if err != nil || n != len(b) {
		s.Fail("serix-roundtrip", "Decode:unvalidated:"+what, "Encode without validation accepted a %s value with %s, Decode without validation of those bytes returned n=%d (len %d) err=%v\nencoding: %x", e.name, what, n, len(b), err, clip(b))
	}
	if d := same(want.Elem(), dst.Elem(), e.name); d != "" {
		s.Fail("serix-roundtrip", "value:unvalidated:"+what, "decoded %s value (with %s, no validation on either side) differs from the encoded one: %s", e.name, what, d)
	}
	return true
}

// views: values of self-serialising types (no type code) whose Encode() hands out memory the type keeps using - a
// scratch buffer shared by all elements of a slice, windows into one frame as the keys of a map. The produced bytes
// are the wire layout all the same, and the frame is what it was.
func views(s *simrt.Sim) {
	validate := s.Choose(2) == 1
	if s.Choose(2) == 0 {
		n := s.Choose(4)
		var v Chips
		want := []byte{byte(n)}
		for i := 0; i < n; i++ {
			c := Chip{byte(genBits(s, 8)), byte(genBits(s, 8))}
			v = append(v, c)
			want = append(want, 0xC1, c.A, c.B)
		}
		var b []byte
		var err error
		s.Atomic(func() { b, err = api.Encode(ctx, v, valOpts(validate)...); b = append([]byte{}, b...) })
		s.Logf("Chips %v validate=%v -> %x err=%v", v, validate, b, err)
		if err != nil {
			s.Fail("encode-accepts", "Encode:chips", "Encode(validate=%v) rejected %v: %v", validate, v, err)
		}
		if !bytes.Equal(b, want) {
			// not judged: whether an element's bytes have to be consumed before the next element's Encode() is called is a
			// contract between serix and the type that C03 does not fix (the unchanged tree copies at once)
			s.Probe("chips:output-differs-when-elements-share-a-scratch-buffer")
			return
		}
		var back Chips
		var k int
		s.Atomic(func() { k, err = api.Decode(ctx, b, &back, valOpts(validate)...) })
		if err != nil || k != len(b) || !reflect.DeepEqual(append(Chips{}, v...), append(Chips{}, back...)) {
			s.Fail("serix-roundtrip", "value:chips", "Decode of %x returned %v n=%d err=%v, want %v", b, back, k, err, v)
		}
		return
	}
	frame := new([12]byte)
	for i := range frame {
		frame[i] = byte(genBits(s, 8))
	}
	before := *frame
	n := s.Choose(5)
	m := CellMap{}
	type pair struct {
		k []byte
		v uint16
	}
	var pairs []pair
	for i := 0; i < n && i < 4; i++ {
		c := Cell{frame, 3 * i}
		dup := false
		for _, p := range pairs {
			dup = dup || bytes.Equal(p.k, frame[3*i:3*i+3])
		}
		if dup {
			continue // (two windows with equal content are two map keys with one encoding: not what this leg is about)
		}
		val := uint16(genBits(s, 16))
		m[c] = val
		pairs = append(pairs, pair{append([]byte{}, frame[3*i:3*i+3]...), val})
	}
	sort.Slice(pairs, func(i, j int) bool { return bytes.Compare(pairs[i].k, pairs[j].k) < 0 })
	want := []byte{byte(len(pairs))}
	for _, p := range pairs {
		want = append(want, p.k...)
		want = append(want, byte(p.v), byte(p.v>>8))
	}
	var b []byte
	var err error
	s.Atomic(func() { b, err = api.Encode(ctx, m, valOpts(validate)...); b = append([]byte{}, b...) })
	s.Logf("CellMap of %d windows into %x validate=%v -> %x err=%v", len(pairs), before[:], validate, b, err)
	if err != nil {
		s.Fail("encode-accepts", "Encode:cellmap", "Encode(validate=%v) rejected a map keyed by %d windows into one frame: %v", validate, len(pairs), err)
	}
	if *frame != before {
		s.Fail("wire-format", "cellmap:encode-writes-into-the-keys-memory", "Encode(validate=%v) of a map whose keys' Encode() returns windows into one frame changed that frame\nbefore: %x\nafter:  %x", validate, before[:], frame[:])
	}
	if !bytes.Equal(b, want) {
		s.Fail("wire-format", "cellmap:keys-are-windows-into-one-frame", "Encode(validate=%v) of a map whose keys' Encode() returns windows into one frame differs from the layout\nencode: %x\nlayout: %x", validate, b, want)
	}
}

// jsonEqual compares two documents as JSON values (ignoring object member order).
func jsonEqual(a, b []byte) bool {
	var x, y any
	if json.Unmarshal(a, &x) != nil || json.Unmarshal(b, &y) != nil {
		return false
	}
	return reflect.DeepEqual(x, y)
}

// ---------------------------------------------------------------------------------------------
// C03 forward direction: Encode equals the independent reference encoder. No fault and no schedule
// dimension: a pure comparison on generated values.

func refencBody(s *simrt.Sim) {
	switch s.Choose(16) {
	case 15:
		oversize(s, true)
		return
	case 14:
		views(s)
		return
	}
	e := zoo[s.Choose(len(zoo))]
	orig, want, ref := genCase(s, e)
	s.Logf("type=%s ref(%d)=%x", e.name, len(ref.b), clip(ref.b))
	for _, validate := range []bool{false, true} {
		b, err := encodeReal(s, orig, validate)
		if err != nil {
			s.Fail("encode-accepts", "Encode:"+e.name, "Encode(validate=%v) rejected a generated %s value: %v", validate, e.name, err)
		}
		if !bytes.Equal(b, ref.b) {
			d := firstDiff(b, ref.b)
			where := "payload"
			for _, m := range ref.marks {
				if d >= m.off && d < m.off+m.w {
					where = m.kind
				}
			}
			s.Fail("wire-format", e.name+":"+where, "Encode(validate=%v) of %s differs from the reference layout at offset %d (%s)\nencode: %x\nlayout: %x", validate, e.name, d, where, clip(b), clip(ref.b))
		}
	}
	s.Probe("reference-comparisons")
	if e.decodeBroken {
		return
	}
	// the reference bytes (not the encoder's) must decode to the value, consuming everything
	dst := reflect.New(e.rt)
	var n int
	var err error
	s.Atomic(func() { n, err = api.Decode(ctx, ref.b, dst.Interface(), valOpts(true)...) })
	if err != nil || n != len(ref.b) {
		s.Fail("wire-format", "decode-of-reference:"+e.name, "validating Decode of the reference encoding of %s returned n=%d (len %d) err=%v", e.name, n, len(ref.b), err)
	}
	if d := same(want.Elem(), dst.Elem(), e.name); d != "" {
		s.Fail("wire-format", "decode-of-reference-value:"+e.name, "value decoded from the reference encoding differs: %s", d)
	}
}

// somapRoundtrip: C01 for the custom Serializable ds/serializableorderedmap (an anchor of C01): Encode then Decode
// yields the same entries in the same order and reports the number of bytes produced; values are byte slices (and
// strings), so that a decoder that reuses or aliases a decode target between entries shows.
func somapRoundtrip(s *simrt.Sim) {
	switch s.Choose(4) {
	case 0:
		somapRT[Name](s, "name", func() Name { return Name(genStringBytes(s, 1, 6)) }, func(a, b Name) bool { return a == b })
	case 1:
		somapRT[Blob](s, "blob", func() Blob { return Blob(genStringBytes(s, 0, 6)) }, func(a, b Blob) bool { return bytes.Equal(a, b) })
	case 2:
		somapRT[U16s](s, "u16s", func() U16s {
			v := U16s{}
			for n := s.Choose(4); n > 0; n-- {
				v = append(v, uint16(genBits(s, 16)))
			}
			return v
		}, func(a, b U16s) bool { return reflect.DeepEqual(append(U16s{}, a...), append(U16s{}, b...)) })
	default:
		somapRT[*Circle](s, "ptr", func() *Circle { return &Circle{R: uint16(genBits(s, 16))} }, func(a, b *Circle) bool { return a != nil && b != nil && *a == *b })
	}
}

func somapRT[V any](s *simrt.Sim, kind string, genV func() V, eq func(a, b V) bool) {
	m := serializableorderedmap.New[uint16, V]()
	var keys []uint16
	var vals []V
	cnt := s.Choose(5)
	s.Atomic(func() {
		for i := 0; i < cnt; i++ {
			k := uint16(genBits(s, 16))
			if _, has := m.Get(k); has {
				continue
			}
			v := genV()
			m.Set(k, v)
			keys, vals = append(keys, k), append(vals, v)
		}
	})
	var data []byte
	var err error
	s.Atomic(func() { data, err = m.Encode(api) })
	if err != nil {
		s.Fail("encode-accepts", "SerializableOrderedMap.Encode:"+kind, "Encode failed: %v", err)
	}
	data = append([]byte{}, data...)
	keep := append([]byte{}, data...)
	s.Logf("somap kind=%s entries=%d data(%d)=%x", kind, len(keys), len(data), clip(data))
	out := serializableorderedmap.New[uint16, V]()
	var n int
	if panicked, pv := hx.Try(func() { s.Atomic(func() { n, err = out.Decode(api, data) }) }); panicked {
		s.Fail("serix-roundtrip", "panic:SerializableOrderedMap.Decode:"+kind+":"+panicClass(pv), "Decode of a valid encoding panicked: %v", pv)
	}
	if err != nil || n != len(data) {
		s.Fail("serix-roundtrip", "SerializableOrderedMap.Decode:"+kind, "Decode of a valid encoding returned n=%d (len %d) err=%v", n, len(data), err)
	}
	if !bytes.Equal(keep, data) {
		s.Fail("serix-roundtrip", "Decode-modifies-input:somap-"+kind, "Decode changed the bytes it was given\nbefore: %x\nafter:  %x", clip(keep), clip(data))
	}
	i := 0
	out.ForEach(func(k uint16, v V) bool {
		if i >= len(keys) || k != keys[i] || !eq(v, vals[i]) {
			s.Fail("serix-roundtrip", "value:somap-"+kind, "entry %d of the decoded map is (%v,%v); encoded were keys %v values %v", i, k, v, keys, vals)
		}
		i++
		return true
	})
	if i != len(keys) {
		s.Fail("serix-roundtrip", "value:somap-"+kind, "decoded map has %d entries, encoded were %d", i, len(keys))
	}
}

// oversize: values whose length sits at the limit of what their length prefix can express (uint16: 65535). Up to the
// limit the value is encoded with the documented layout and decodes to itself; beyond it no output can carry the
// length, so Encode has to refuse - an accepted value whose prefix does not say its length is reported under the
// caller's oracle (C01: the round trip breaks; C03: the output is not the documented layout).
func oversize(s *simrt.Sim, forward bool) {
	n := 65533 + s.Choose(6) // 65533 .. 65538
	validate := s.Choose(2) == 1
	asString := s.Choose(2) == 1
	payload := make([]byte, n)
	for i := range payload {
		payload[i] = 'a' + byte(i%23)
	}
	var obj any = Blob(payload)
	kind := "blob"
	if asString {
		obj, kind = PName(payload), "pname"
	}
	var b []byte
	var err error
	if panicked, pv := hx.Try(func() {
		s.Atomic(func() { b, err = api.Encode(ctx, obj, valOpts(validate)...) })
	}); panicked {
		s.Fail("serix-roundtrip", "panic:Encode:oversize-"+kind, "Encode of a %d-byte %s panicked: %v", n, kind, pv)
	}
	s.Logf("oversize kind=%s n=%d validate=%v -> %d bytes err=%v", kind, n, validate, len(b), err)
	fits := n <= 65535
	if err != nil {
		if fits {
			s.Fail("encode-accepts", "Encode:oversize-"+kind, "Encode(validate=%v) rejected a %d-byte %s although a uint16 prefix can express that length: %v", validate, n, kind, err)
		}
		s.Probe("length-beyond-prefix-range-rejected")
		return
	}
	want := append([]byte{byte(n), byte(n >> 8)}, payload...)
	if forward {
		if !fits || !bytes.Equal(b, want) {
			s.Fail("wire-format", "oversize-"+kind+":len", "Encode(validate=%v) accepted a %d-byte %s and wrote %d bytes starting %x: a uint16 length prefix followed by the payload is %d bytes starting %x (and cannot express more than 65535)", validate, n, kind, len(b), clip(b), len(want), clip(want))
		}
		return
	}
	// round trip
	var got []byte
	var m int
	if asString {
		var out PName
		s.Atomic(func() { m, err = api.Decode(ctx, b, &out, valOpts(validate)...) })
		got = []byte(out)
	} else {
		var out Blob
		s.Atomic(func() { m, err = api.Decode(ctx, b, &out, valOpts(validate)...) })
		got = out
	}
	if err != nil || m != len(b) || !bytes.Equal(got, payload) {
		s.Fail("serix-roundtrip", "value:oversize-"+kind, "Encode(validate=%v) accepted a %d-byte %s (%d bytes out); Decode returned n=%d err=%v and a value of %d bytes", validate, n, kind, len(b), m, err, len(got))
	}
}
