// simgen rewrites a scratch copy of the hive.go modules so that every source of scheduling
// nondeterminism goes through the simulator (verifsim/simrt, simsync, simatomic).
//
//	simgen -root <scratch copy of /repo> <module-dir>:<pattern> ...
//
// The rewrite is type-driven (go/packages) and textual (edits are spliced into the original source,
// so untouched code stays byte-identical). Constructs it does not understand make it exit 2.
package main

import (
	"bytes"
	"flag"
	"fmt"
	"go/ast"
	"go/token"
	"go/types"
	"os"
	"path/filepath"
	"sort"
	"strconv"
	"strings"

	"golang.org/x/tools/go/packages"
)

var (
	root    = flag.String("root", "", "scratch copy of the repository")
	verbose = flag.Bool("v", false, "verbose")
)

type stats struct {
	files, sends, recvs, selects, gos, mapRanges, chanRanges, sleeps, cancels, closes, imports, rmws int
	refused                                                                                          []string
}

var st stats

func main() {
	flag.Parse()
	if *root == "" || flag.NArg() == 0 {
		fmt.Fprintln(os.Stderr, "usage: simgen -root DIR moduledir:pattern ...")
		os.Exit(2)
	}
	for _, arg := range flag.Args() {
		mod, pat, ok := strings.Cut(arg, ":")
		if !ok {
			pat = "./..."
		}
		if err := rewriteModule(filepath.Join(*root, mod), pat); err != nil {
			fmt.Fprintln(os.Stderr, "simgen:", err)
			os.Exit(2)
		}
	}
	if len(st.refused) > 0 {
		for _, r := range st.refused {
			fmt.Fprintln(os.Stderr, "simgen: refused:", r)
		}
		os.Exit(2)
	}
	fmt.Printf("simgen: files=%d imports=%d sends=%d recvs=%d selects=%d go=%d maprange=%d chanrange=%d sleep=%d cancel=%d close=%d rmw=%d\n",
		st.files, st.imports, st.sends, st.recvs, st.selects, st.gos, st.mapRanges, st.chanRanges, st.sleeps, st.cancels, st.closes, st.rmws)
}

func rewriteModule(dir, pattern string) error {
	cfg := &packages.Config{
		Mode: packages.NeedName | packages.NeedFiles | packages.NeedCompiledGoFiles | packages.NeedSyntax | packages.NeedTypes | packages.NeedTypesInfo | packages.NeedImports | packages.NeedDeps,
		Dir:  dir,
		Env:  append(os.Environ(), "GOFLAGS=-mod=mod", "GOPROXY=off", "GOSUMDB=off", "GOTOOLCHAIN=local"),
	}
	pkgs, err := packages.Load(cfg, strings.Fields(pattern)...)
	if err != nil {
		return err
	}
	type out struct {
		path string
		data []byte
	}
	var outs []out
	for _, p := range pkgs {
		if len(p.Errors) > 0 {
			return fmt.Errorf("package %s: %v", p.PkgPath, p.Errors[0])
		}
		for i, f := range p.Syntax {
			path := p.CompiledGoFiles[i]
			if !strings.HasPrefix(path, dir) || strings.HasSuffix(path, "_test.go") {
				continue
			}
			src, err := os.ReadFile(path)
			if err != nil {
				return err
			}
			r := &rewriter{fset: p.Fset, file: f, src: src, info: p.TypesInfo, path: path, pkg: p.Types}
			res, changed := r.run()
			if changed {
				outs = append(outs, out{path, res})
				st.files++
			}
		}
	}
	// write only after everything was loaded (loading reads the originals)
	for _, o := range outs {
		if err := os.WriteFile(o.path, o.data, 0o644); err != nil {
			return err
		}
	}
	return nil
}

type rewriter struct {
	fset    *token.FileSet
	file    *ast.File
	src     []byte
	info    *types.Info
	pkg     *types.Package
	path    string
	recv2   map[ast.Expr]bool // receive expressions in a 2-value context
	stmtCtx map[ast.Node]bool // statements that sit directly in a statement list
	labeled map[ast.Node]bool
	used    bool
	tmp     int
	commOf  map[ast.Node]bool // send stmts / recv exprs that are select comm clauses
}

func (r *rewriter) off(p token.Pos) int { return r.fset.Position(p).Offset }

func (r *rewriter) text(from, to token.Pos) string { return string(r.src[r.off(from):r.off(to)]) }

func (r *rewriter) where(n ast.Node) string {
	p := r.fset.Position(n.Pos())
	return fmt.Sprintf("%s:%d", filepath.Base(p.Filename), p.Line)
}

func (r *rewriter) refuse(n ast.Node, why string) {
	p := r.fset.Position(n.Pos())
	st.refused = append(st.refused, fmt.Sprintf("%s:%d: %s", p.Filename, p.Line, why))
}

func (r *rewriter) fresh(prefix string) string {
	r.tmp++
	return fmt.Sprintf("_sim%s%d", prefix, r.tmp)
}

func (r *rewriter) run() ([]byte, bool) {
	r.recv2 = map[ast.Expr]bool{}
	r.stmtCtx = map[ast.Node]bool{}
	r.labeled = map[ast.Node]bool{}
	r.commOf = map[ast.Node]bool{}
	// context pre-pass
	ast.Inspect(r.file, func(n ast.Node) bool {
		switch x := n.(type) {
		case *ast.AssignStmt:
			if len(x.Lhs) == 2 && len(x.Rhs) == 1 {
				if u := unparen(x.Rhs[0]); isRecv(u) {
					r.recv2[u] = true
				}
			}
		case *ast.ValueSpec:
			if len(x.Names) == 2 && len(x.Values) == 1 {
				if u := unparen(x.Values[0]); isRecv(u) {
					r.recv2[u] = true
				}
			}
		case *ast.BlockStmt:
			for _, s := range x.List {
				r.stmtCtx[s] = true
			}
		case *ast.CaseClause:
			for _, s := range x.Body {
				r.stmtCtx[s] = true
			}
		case *ast.CommClause:
			for _, s := range x.Body {
				r.stmtCtx[s] = true
			}
			if x.Comm != nil {
				r.commOf[x.Comm] = true
			}
		case *ast.LabeledStmt:
			r.labeled[x.Stmt] = true
		}
		return true
	})

	var edits []edit
	// imports
	syncName, atomicName := "", ""
	for _, imp := range r.file.Imports {
		p, _ := strconv.Unquote(imp.Path.Value)
		var repl, def string
		switch p {
		case "sync":
			repl, def = "verifsim/simsync", "sync"
		case "sync/atomic":
			repl, def = "verifsim/simatomic", "atomic"
		default:
			continue
		}
		name := def
		if imp.Name != nil {
			name = imp.Name.Name
		}
		if p == "sync" {
			syncName = name
		} else {
			atomicName = name
		}
		edits = append(edits, edit{r.off(imp.Pos()), r.off(imp.End()), name + " " + strconv.Quote(repl)})
		st.imports++
	}
	_, _ = syncName, atomicName

	body := r.renderChildren(r.file, r.file.Pos(), r.file.End())
	if len(edits) == 0 && !r.used {
		return nil, false
	}
	// body is rendered from file.Pos() (package keyword) to file.End(); import edits were not applied
	// in it because ImportSpecs are not rewrite points: apply them on the rendered text by literal
	// replacement of each import spec's original text (unique inside the import block).
	out := body
	for _, imp := range r.file.Imports {
		p, _ := strconv.Unquote(imp.Path.Value)
		if p != "sync" && p != "sync/atomic" {
			continue
		}
		orig := r.text(imp.Pos(), imp.End())
		var repl string
		for _, e := range edits {
			if e.from == r.off(imp.Pos()) {
				repl = e.text
			}
		}
		idx := strings.Index(out, orig)
		if idx < 0 {
			r.refuse(imp, "import spec not found in rendered text")
			continue
		}
		out = out[:idx] + repl + out[idx+len(orig):]
	}
	header := string(r.src[:r.off(r.file.Pos())])
	// insert the simrt import right after the package clause
	nameEnd := r.off(r.file.Name.End()) - r.off(r.file.Pos())
	var b bytes.Buffer
	b.WriteString(header)
	b.WriteString(out[:nameEnd])
	b.WriteString("\n\nimport simrt \"verifsim/simrt\"\n")
	b.WriteString(out[nameEnd:])
	b.Write(r.src[r.off(r.file.End()):])
	b.WriteString("\n\nvar _ = simrt.Yield\n")
	return b.Bytes(), true
}

type edit struct {
	from, to int
	text     string
}

func unparen(e ast.Expr) ast.Expr {
	for {
		p, ok := e.(*ast.ParenExpr)
		if !ok {
			return e
		}
		e = p.X
	}
}

func isRecv(e ast.Expr) bool {
	u, ok := e.(*ast.UnaryExpr)
	return ok && u.Op == token.ARROW
}

// isPoint reports whether n is rewritten by rewrite().
func (r *rewriter) isPoint(n ast.Node) bool {
	switch x := n.(type) {
	case *ast.SendStmt:
		return !r.commOf[x]
	case *ast.UnaryExpr:
		return x.Op == token.ARROW
	case *ast.SelectStmt, *ast.GoStmt:
		return true
	case *ast.RangeStmt:
		if tv, ok := r.info.Types[x.X]; ok && tv.Type != nil {
			switch coreKind(tv.Type) {
			case "map":
				return x.Key != nil || x.Value != nil
			case "chan":
				return true
			case "mixed":
				r.refuse(x, "range over a type parameter with map/chan and other terms")
			}
		}
	case *ast.CallExpr:
		return r.callKind(x) != ""
	case *ast.IncDecStmt:
		return r.rmwTarget(x, x.X, nil)
	case *ast.AssignStmt:
		if x.Tok != token.ASSIGN && x.Tok != token.DEFINE && len(x.Lhs) == 1 && len(x.Rhs) == 1 {
			return r.rmwTarget(x, x.Lhs[0], x.Rhs[0])
		}
	}
	return false
}

// rmwTarget: a read-modify-write statement (x++, x--, x op= e) on memory that can be shared - a struct field or the
// target of a pointer - standing in a plain statement list. It is split into load, scheduling point and store: for a
// program without data races nobody can observe the difference (whoever else touches the location is excluded by
// the same lock), but an update that is NOT protected becomes a lost update the search can reach. The operand must be
// free of calls and receives, so that moving its evaluation behind the load changes nothing.
func (r *rewriter) rmwTarget(stmt ast.Stmt, lhs, rhs ast.Expr) bool {
	if !r.stmtCtx[stmt] || r.labeled[stmt] {
		return false
	}
	switch x := unparen(lhs).(type) {
	case *ast.StarExpr:
	case *ast.SelectorExpr:
		sel := r.info.Selections[x]
		if sel == nil || sel.Kind() != types.FieldVal {
			return false
		}
	default:
		return false
	}
	if tv, ok := r.info.Types[lhs]; !ok || tv.Type == nil {
		return false
	} else if _, isTP := tv.Type.(*types.TypeParam); isTP {
		return false
	}
	pure := true
	check := func(e ast.Expr) {
		if e == nil {
			return
		}
		ast.Inspect(e, func(n ast.Node) bool {
			switch u := n.(type) {
			case *ast.CallExpr:
				// conversions and len/cap are fine, everything else may have effects
				if tv, ok := r.info.Types[u.Fun]; ok && tv.IsType() {
					return true
				}
				if id, ok := unparen(u.Fun).(*ast.Ident); ok {
					if _, isBuiltin := r.info.Uses[id].(*types.Builtin); isBuiltin && (id.Name == "len" || id.Name == "cap") {
						return true
					}
				}
				pure = false
			case *ast.UnaryExpr:
				if u.Op == token.ARROW {
					pure = false
				}
			case *ast.FuncLit:
				pure = false
			}
			return pure
		})
	}
	check(lhs)
	check(rhs)
	return pure
}

func (r *rewriter) callKind(c *ast.CallExpr) string {
	switch f := unparen(c.Fun).(type) {
	case *ast.Ident:
		if b, ok := r.info.Uses[f].(*types.Builtin); ok && b.Name() == "close" {
			return "close"
		}
	case *ast.SelectorExpr:
		if (f.Sel.Name == "MapRange" || f.Sel.Name == "MapKeys") && len(c.Args) == 0 {
			if tv, ok := r.info.Types[f.X]; ok && tv.Type != nil {
				if named, ok := tv.Type.(*types.Named); ok && named.Obj().Pkg() != nil && named.Obj().Pkg().Path() == "reflect" && named.Obj().Name() == "Value" {
					return "reflect" + f.Sel.Name
				}
			}
		}
		// Stop / Reset of a *time.Timer: the timer may be one created by time.AfterFunc (whose callback is a simulator task)
		if (f.Sel.Name == "Stop" && len(c.Args) == 0 || f.Sel.Name == "Reset" && len(c.Args) == 1) && r.isTimerPtr(f.X) {
			return "timer" + f.Sel.Name
		}
		if id, ok := f.X.(*ast.Ident); ok {
			if pn, ok := r.info.Uses[id].(*types.PkgName); ok && pn.Imported().Path() == "time" {
				switch f.Sel.Name {
				case "Sleep":
					return "sleep"
				case "AfterFunc":
					return "afterfunc"
				}
			}
		}
	}
	if tv, ok := r.info.Types[c.Fun]; ok && tv.Type != nil && !tv.IsType() {
		if named, ok := tv.Type.(*types.Named); ok && named.Obj().Pkg() != nil && named.Obj().Pkg().Path() == "context" {
			switch named.Obj().Name() {
			case "CancelFunc":
				return "cancel"
			case "CancelCauseFunc":
				return "cancelcause"
			}
		}
	}
	return ""
}

// isTimerPtr: e has type *time.Timer.
func (r *rewriter) isTimerPtr(e ast.Expr) bool {
	tv, ok := r.info.Types[e]
	if !ok || tv.Type == nil {
		return false
	}
	p, ok := tv.Type.(*types.Pointer)
	if !ok {
		return false
	}
	named, ok := p.Elem().(*types.Named)
	return ok && named.Obj().Pkg() != nil && named.Obj().Pkg().Path() == "time" && named.Obj().Name() == "Timer"
}

// renderChildren renders src[from:to) (which must lie inside n) with all rewrite points inside n
// (excluding n itself) replaced.
func (r *rewriter) renderChildren(n ast.Node, from, to token.Pos) string {
	var pts []ast.Node
	ast.Inspect(n, func(c ast.Node) bool {
		if c == nil || c == n {
			return true
		}
		if c.Pos() < from || c.End() > to {
			// partially outside the window: descend only if it overlaps
			if c.End() <= from || c.Pos() >= to {
				return false
			}
			return true
		}
		if r.isPoint(c) {
			pts = append(pts, c)
			return false
		}
		return true
	})
	sort.Slice(pts, func(i, j int) bool { return pts[i].Pos() < pts[j].Pos() })
	var b strings.Builder
	pos := from
	for _, p := range pts {
		b.WriteString(r.text(pos, p.Pos()))
		b.WriteString(r.rewrite(p))
		pos = p.End()
	}
	b.WriteString(r.text(pos, to))
	return b.String()
}

// render renders a whole node (rewriting it if it is a point itself).
func (r *rewriter) render(n ast.Node) string {
	if r.isPoint(n) {
		return r.rewrite(n)
	}
	return r.renderChildren(n, n.Pos(), n.End())
}

func (r *rewriter) isConst(e ast.Expr) bool {
	tv, ok := r.info.Types[e]
	return ok && tv.Value != nil
}

func (r *rewriter) isNilOrFuncLit(e ast.Expr) bool {
	switch x := unparen(e).(type) {
	case *ast.Ident:
		_, isNil := r.info.Uses[x].(*types.Nil)
		return isNil
	case *ast.FuncLit:
		return false
	}
	return false
}

func (r *rewriter) needStmtCtx(n ast.Node, what string) bool {
	if !r.stmtCtx[n] || r.labeled[n] {
		r.refuse(n, what+" outside a plain statement list (or labelled)")
		return false
	}
	return true
}

func (r *rewriter) rewrite(n ast.Node) string {
	r.used = true
	switch x := n.(type) {
	case *ast.SendStmt:
		st.sends++
		if !r.needStmtCtx(x, "send statement") {
			return r.text(x.Pos(), x.End())
		}
		t := r.fresh("t")
		return fmt.Sprintf("{ %s := simrt.BeginReal(\"chan send\"); %s <- %s; simrt.EndReal(%s) }", t, r.render(x.Chan), r.render(x.Value), t)
	case *ast.UnaryExpr:
		st.recvs++
		fn := "Recv"
		if r.recv2[x] {
			fn = "Recv2"
		}
		return fmt.Sprintf("simrt.%s(%s)", fn, r.render(x.X))
	case *ast.CallExpr:
		switch r.callKind(x) {
		case "close":
			st.closes++
			return fmt.Sprintf("simrt.Close(%s)", r.render(x.Args[0]))
		case "sleep":
			st.sleeps++
			return fmt.Sprintf("simrt.Sleep(%s)", r.render(x.Args[0]))
		case "afterfunc":
			st.sleeps++
			return fmt.Sprintf("simrt.AfterFunc(%s, %s)", r.render(x.Args[0]), r.render(x.Args[1]))
		case "timerStop":
			return fmt.Sprintf("simrt.TimerStop(%s)", r.render(unparen(x.Fun).(*ast.SelectorExpr).X))
		case "timerReset":
			return fmt.Sprintf("simrt.TimerReset(%s, %s)", r.render(unparen(x.Fun).(*ast.SelectorExpr).X), r.render(x.Args[0]))
		case "cancel":
			st.cancels++
			return fmt.Sprintf("simrt.Cancel(%s)", r.render(x.Fun))
		case "reflectMapRange":
			st.mapRanges++
			return fmt.Sprintf("simrt.ReflectMapRange(%s)", r.render(unparen(x.Fun).(*ast.SelectorExpr).X))
		case "reflectMapKeys":
			st.mapRanges++
			return fmt.Sprintf("simrt.ReflectMapKeys(%s)", r.render(unparen(x.Fun).(*ast.SelectorExpr).X))
		case "cancelcause":
			st.cancels++
			return fmt.Sprintf("simrt.CancelCause(%s, %s)", r.render(x.Fun), r.render(x.Args[0]))
		}
	case *ast.IncDecStmt:
		st.rmws++
		p, v := r.fresh("p"), r.fresh("v")
		op := "+"
		if x.Tok == token.DEC {
			op = "-"
		}
		return fmt.Sprintf("{ %s := &(%s); %s := *%s; simrt.RMW(); *%s = %s %s 1 }", p, r.text(x.X.Pos(), x.X.End()), v, p, p, v, op)
	case *ast.AssignStmt:
		st.rmws++
		p, v := r.fresh("p"), r.fresh("v")
		op := strings.TrimSuffix(x.Tok.String(), "=")
		return fmt.Sprintf("{ %s := &(%s); %s := *%s; simrt.RMW(); *%s = %s %s (%s) }", p, r.text(x.Lhs[0].Pos(), x.Lhs[0].End()), v, p, p, v, op, r.text(x.Rhs[0].Pos(), x.Rhs[0].End()))
	case *ast.GoStmt:
		return r.rewriteGo(x)
	case *ast.SelectStmt:
		return r.rewriteSelect(x)
	case *ast.RangeStmt:
		return r.rewriteRange(x)
	}
	r.refuse(n, "internal: unknown rewrite point")
	return ""
}

func (r *rewriter) rewriteGo(g *ast.GoStmt) string {
	st.gos++
	if !r.needStmtCtx(g, "go statement") {
		return r.text(g.Pos(), g.End())
	}
	call := g.Call
	name := strconv.Quote("go:" + r.goName(g))
	if fl, ok := unparen(call.Fun).(*ast.FuncLit); ok && len(call.Args) == 0 {
		return fmt.Sprintf("simrt.GoAt(%s, %s)", name, r.render(fl))
	}
	var pre []string
	// function value
	var fun string
	switch f := unparen(call.Fun).(type) {
	case *ast.FuncLit:
		fun = "(" + r.render(f) + ")"
	case *ast.Ident:
		if _, isFunc := r.info.Uses[f].(*types.Func); isFunc {
			fun = f.Name
		} else if _, isBuiltin := r.info.Uses[f].(*types.Builtin); isBuiltin {
			r.refuse(g, "go <builtin>")
			return ""
		} else {
			t := r.fresh("g")
			pre = append(pre, fmt.Sprintf("%s := %s", t, f.Name))
			fun = t
		}
	case *ast.SelectorExpr:
		if id, ok := f.X.(*ast.Ident); ok {
			if _, isPkg := r.info.Uses[id].(*types.PkgName); isPkg {
				fun = r.text(f.Pos(), f.End())
				break
			}
		}
		t := r.fresh("g")
		pre = append(pre, fmt.Sprintf("%s := %s", t, r.render(f)))
		fun = t
	default:
		t := r.fresh("g")
		pre = append(pre, fmt.Sprintf("%s := %s", t, r.render(call.Fun)))
		fun = t
	}
	var args []string
	for _, a := range call.Args {
		if r.isConst(a) || r.isNilOrFuncLit(a) {
			args = append(args, r.render(a))
			continue
		}
		if _, ok := unparen(a).(*ast.FuncLit); ok {
			args = append(args, r.render(a))
			continue
		}
		t := r.fresh("g")
		pre = append(pre, fmt.Sprintf("%s := %s", t, r.render(a)))
		args = append(args, t)
	}
	ell := ""
	if call.Ellipsis.IsValid() {
		ell = "..."
	}
	return fmt.Sprintf("{ %s; simrt.GoAt(%s, func() { %s(%s%s) }) }", strings.Join(pre, "; "), name, fun, strings.Join(args, ", "), ell)
}

type commCase struct {
	clause  *ast.CommClause
	isSend  bool
	chTmp   string
	valTmp  string // send value temp (or literal text)
	lhsText string // "v := " / "v, ok := " / "x = " / ""
}

func (r *rewriter) rewriteSelect(s *ast.SelectStmt) string {
	st.selects++
	if !r.needStmtCtx(s, "select statement") {
		return r.text(s.Pos(), s.End())
	}
	var cases []*commCase
	var def *ast.CommClause
	var pre []string
	for _, c := range s.Body.List {
		cc := c.(*ast.CommClause)
		// labels inside bodies would be duplicated
		for _, bs := range cc.Body {
			ast.Inspect(bs, func(n ast.Node) bool {
				if l, ok := n.(*ast.LabeledStmt); ok {
					r.refuse(l, "label inside a select body")
				}
				return true
			})
		}
		if cc.Comm == nil {
			def = cc
			continue
		}
		k := &commCase{clause: cc, chTmp: r.fresh("c")}
		switch cm := cc.Comm.(type) {
		case *ast.SendStmt:
			k.isSend = true
			pre = append(pre, fmt.Sprintf("%s := %s", k.chTmp, r.render(cm.Chan)))
			if r.isConst(cm.Value) {
				k.valTmp = r.render(cm.Value)
			} else {
				k.valTmp = r.fresh("v")
				pre = append(pre, fmt.Sprintf("%s := %s", k.valTmp, r.render(cm.Value)))
			}
		case *ast.ExprStmt:
			u := unparen(cm.X).(*ast.UnaryExpr)
			pre = append(pre, fmt.Sprintf("%s := %s", k.chTmp, r.render(u.X)))
		case *ast.AssignStmt:
			u := unparen(cm.Rhs[0]).(*ast.UnaryExpr)
			pre = append(pre, fmt.Sprintf("%s := %s", k.chTmp, r.render(u.X)))
			var lhs []string
			for _, l := range cm.Lhs {
				lhs = append(lhs, r.render(l))
			}
			k.lhsText = strings.Join(lhs, ", ") + " " + cm.Tok.String() + " "
		default:
			r.refuse(cc, "unknown comm clause")
		}
		cases = append(cases, k)
	}
	n := len(cases)
	if n == 0 {
		// select {} or select { default: }
		return r.renderChildren(s, s.Pos(), s.End())
	}
	ord := r.fresh("o")
	tk := r.fresh("t")
	bodyOf := func(cc *ast.CommClause) string {
		if len(cc.Body) == 0 {
			return ""
		}
		return r.renderChildren(cc, cc.Colon+1, cc.End())
	}
	bodies := make([]string, n)
	for i, k := range cases {
		bodies[i] = bodyOf(k.clause)
	}
	defBody := ""
	if def != nil {
		defBody = bodyOf(def)
	}
	commText := func(k *commCase, ch string) string {
		if k.isSend {
			return fmt.Sprintf("%s <- %s", ch, k.valTmp)
		}
		return fmt.Sprintf("%s<-%s", k.lhsText, ch)
	}
	var b strings.Builder
	b.WriteString("{\n")
	for _, p := range pre {
		b.WriteString(p + "\n")
	}
	fmt.Fprintf(&b, "%s := simrt.SelectBegin(%d)\n", ord, n)
	var level func(l int)
	level = func(l int) {
		if l == n {
			// innermost: the original select
			fmt.Fprintf(&b, "%s := simrt.SelectBlock()\nselect {\n", tk)
			for i, k := range cases {
				fmt.Fprintf(&b, "case %s:\nsimrt.SelectEnd(%s)\n%s\n", commText(k, k.chTmp), tk, bodies[i])
			}
			if def != nil {
				fmt.Fprintf(&b, "default:\nsimrt.SelectEnd(%s)\n%s\n", tk, defBody)
			}
			b.WriteString("}\n")
			return
		}
		b.WriteString("select {\n")
		for i, k := range cases {
			fmt.Fprintf(&b, "case %s:\n%s\n", commText(k, fmt.Sprintf("simrt.Only(%s[%d] == %d, %s)", ord, l, i, k.chTmp)), bodies[i])
		}
		b.WriteString("default:\n")
		level(l + 1)
		b.WriteString("}\n")
	}
	level(0)
	b.WriteString("}")
	return b.String()
}

func (r *rewriter) rewriteRange(x *ast.RangeStmt) string {
	tv := r.info.Types[x.X]
	if !r.needStmtCtx(x, "range over map/channel") {
		return r.text(x.Pos(), x.End())
	}
	body := r.renderChildren(x.Body, x.Body.Lbrace+1, x.Body.Rbrace)
	if coreKind(tv.Type) == "chan" {
		st.chanRanges++
		ch := r.fresh("c")
		ok := r.fresh("ok")
		v := "_"
		if x.Key != nil {
			v = r.render(x.Key)
		}
		tok := ":="
		if x.Tok == token.ASSIGN {
			// assign form: declare ok separately
			return fmt.Sprintf("{ %s := %s; for { var %s bool; %s, %s = simrt.Recv2(%s); if !%s { break }; %s } }", ch, r.render(x.X), ok, v, ok, ch, ok, body)
		}
		return fmt.Sprintf("{ %s := %s; for { %s, %s %s simrt.Recv2(%s); if !%s { break }; %s } }", ch, r.render(x.X), v, ok, tok, ch, ok, body)
	}
	st.mapRanges++
	m := r.fresh("m")
	ok := r.fresh("ok")
	isBlank := func(e ast.Expr) bool {
		if e == nil {
			return true
		}
		id, isID := e.(*ast.Ident)
		return isID && id.Name == "_"
	}
	var b strings.Builder
	fmt.Fprintf(&b, "{ %s := %s; ", m, r.render(x.X))
	if x.Tok == token.ASSIGN {
		k := r.fresh("k")
		v := r.fresh("v")
		fmt.Fprintf(&b, "for _, %s := range simrt.MapKeys(%s) { %s, %s := %s[%s]; if !%s { continue }; ", k, m, v, ok, m, k, ok)
		if !isBlank(x.Key) {
			fmt.Fprintf(&b, "%s = %s; ", r.render(x.Key), k)
		}
		if !isBlank(x.Value) {
			fmt.Fprintf(&b, "%s = %s; ", r.render(x.Value), v)
		}
		fmt.Fprintf(&b, "_ = %s; %s } }", v, body)
		return b.String()
	}
	k := r.fresh("k")
	if !isBlank(x.Key) {
		k = r.render(x.Key)
	}
	if isBlank(x.Value) {
		fmt.Fprintf(&b, "for _, %s := range simrt.MapKeys(%s) { if _, %s := %s[%s]; !%s { continue }; %s } }", k, m, ok, m, k, ok, body)
	} else {
		fmt.Fprintf(&b, "for _, %s := range simrt.MapKeys(%s) { %s, %s := %s[%s]; if !%s { continue }; %s } }", k, m, r.render(x.Value), ok, m, k, ok, body)
	}
	return b.String()
}

// coreKind classifies the type ranged over: "map", "chan", "other" or "mixed" (type parameter whose
// type set mixes maps/channels with other kinds).
func coreKind(t types.Type) string {
	kinds := map[string]bool{}
	var visit func(t types.Type, depth int)
	visit = func(t types.Type, depth int) {
		if depth > 6 {
			kinds["other"] = true
			return
		}
		if tp, ok := t.(*types.TypeParam); ok {
			iface, _ := tp.Constraint().Underlying().(*types.Interface)
			if iface == nil || iface.NumEmbeddeds() == 0 {
				kinds["other"] = true
				return
			}
			for i := 0; i < iface.NumEmbeddeds(); i++ {
				switch e := iface.EmbeddedType(i).(type) {
				case *types.Union:
					for j := 0; j < e.Len(); j++ {
						visit(e.Term(j).Type(), depth+1)
					}
				default:
					if _, isIface := e.Underlying().(*types.Interface); isIface {
						kinds["other"] = true
					} else {
						visit(e, depth+1)
					}
				}
			}
			return
		}
		switch t.Underlying().(type) {
		case *types.Map:
			kinds["map"] = true
		case *types.Chan:
			kinds["chan"] = true
		default:
			kinds["other"] = true
		}
	}
	visit(t, 0)
	if len(kinds) == 1 {
		for k := range kinds {
			return k
		}
	}
	if kinds["map"] || kinds["chan"] {
		return "mixed"
	}
	return "other"
}

// goName names a spawned task after the function it runs (stable under line shifts).
func (r *rewriter) goName(g *ast.GoStmt) string {
	switch f := unparen(g.Call.Fun).(type) {
	case *ast.Ident:
		return f.Name
	case *ast.SelectorExpr:
		return f.Sel.Name
	}
	// function literal: name of the enclosing function declaration
	encl := "?"
	for _, d := range r.file.Decls {
		if fd, ok := d.(*ast.FuncDecl); ok && fd.Pos() <= g.Pos() && g.End() <= fd.End() {
			encl = fd.Name.Name
		}
	}
	return "func@" + encl
}
