#!/bin/sh
# Builds the framework binaries offline from files on disk only.
set -e
cd "$(dirname "$0")"
export GOFLAGS=-mod=mod GOPROXY=off GOSUMDB=off GOTOOLCHAIN=local
export PATH=/opt/veriftools/go1.26.8/bin:$PATH
mkdir -p bin evidence replays
(cd simgen && go build -o ../bin/simgen .)
(cd sim && go build -o ../bin/verif ./cmd/verif)
echo "setup ok"
